"""E4 - near-mirror clone check and role-renamed mirrors.

Two sibling statements (or two functions) that are *almost* the same after
swapping a pair of roles (actual<->expected, left<->right, min<->max, ...) must
be exactly the same after the swap, apart from listed intentional one-sided
tokens.  Unrelated code never forms a near-mirror pair, so refactors do not
trigger the rule.
"""
import ast
import difflib
import io
import re
import tokenize


_ROLE_WORDS = re.compile(r'actuals?|expected|Actuals?|Expected|reference|Reference|ref_|left|right|Left|Right|min|max|MIN|MAX')


class _Canon(ast.NodeTransformer):
    """and/or over side-effect-free operands is commutative: order the operands by their text with role words
    blanked out, so that `a and not b_actual` and `not b_expected and a` still line up."""

    def visit_BoolOp(self, node):
        self.generic_visit(node)
        pure = all(not any(isinstance(x, (ast.Call, ast.NamedExpr, ast.Await, ast.Yield)) for x in ast.walk(v)) for v in node.values)
        if pure:
            node.values = sorted(node.values, key=lambda v: _ROLE_WORDS.sub('', ast.unparse(v)))
        return node


def tokens(node_or_src):
    if isinstance(node_or_src, str):
        src = node_or_src
    else:
        import copy
        src = ast.unparse(_Canon().visit(copy.deepcopy(node_or_src)))
    out = []
    for t in tokenize.generate_tokens(io.StringIO(src).readline):
        if t.type in (tokenize.NEWLINE, tokenize.NL, tokenize.INDENT, tokenize.DEDENT, tokenize.ENDMARKER,
                      tokenize.COMMENT):
            continue
        out.append(t.string)
    return out


def swap_ident(tok, pairs):
    """Swap role substrings inside an identifier or string token, simultaneously."""
    if not (tok[:1].isalpha() or tok[:1] == '_' or tok[:1] in '"\''):
        return tok
    out = tok
    for a, b in pairs:
        ph = '\0'
        out = re.sub(a, ph, out)
        out = re.sub(b, a_plain(a), out)
        out = out.replace(ph, a_plain(b))
    return out


def a_plain(pat):
    return pat.replace('\\b', '')


def swapped(toks, pairs):
    out = []
    for i, t in enumerate(toks):
        if i and toks[i - 1] == '.':
            # attribute names: only the substring roles (actual/expected), not whole-word variables (df/ref_df)
            out.append(swap_ident(t, [p for p in pairs if '\\b' not in p[0]]))
        else:
            out.append(swap_ident(t, pairs))
    return out


def order_twins(toks, pairs):
    """Argument lists that name both roles side by side (f(msgs, actual_path, expected_path)) keep their order under the role swap,
    because the callee's signature fixes it: put such adjacent twins - two plain identifiers separated by a comma that are each
    other's swap - in one canonical order, so that the order of twin arguments is not read as a difference."""
    out = list(toks)
    i = 0
    while i + 2 < len(out):
        a, c, b = out[i], out[i + 1], out[i + 2]
        if c == ',' and _is_ident(a) and _is_ident(b) and a != b and swap_ident(a, pairs) == b \
                and (i == 0 or out[i - 1] in ('(', ',')) and (i + 3 >= len(out) or out[i + 3] in (')', ',')):
            if a > b:
                out[i], out[i + 2] = b, a
            i += 3
        else:
            i += 1
    return out


def mentions_role(toks, pairs):
    txt = ' '.join(toks)
    return any(re.search(a, txt) or re.search(b, txt) for a, b in pairs)


def _is_str(tok):
    return tok[:1] in '"\'' or tok[:2] in ('f"', "f'", 'r"', "r'", 'b"', "b'")


def _is_ident(tok):
    return tok[:1].isalpha() or tok[:1] == '_'


def _has_role(tok, pairs):
    return any(re.search(a, tok) or re.search(b, tok) for a, b in pairs)


def near_mirror_pairs(stmts, pairs, lo=0.85):
    """Among sibling statements, pairs (i<j) that are >= lo similar after the
    role swap but are not mirrors.  Differences that are tolerated: message
    strings (constants containing a space), and a consistent one-to-one renaming
    of identifiers that carry no role word (order1/order2, missing/extra).
    -> [(s1, s2, ratio, offending diff)]"""
    toks = [[_norm(t) for t in tokens(s)] for s in stmts]
    out = []
    for i in range(len(stmts)):
        if not mentions_role(toks[i], pairs) or len(toks[i]) < 6:
            continue
        sw = order_twins(swapped(toks[i], pairs), pairs)
        if sw == order_twins(toks[i], pairs):
            continue
        if any(sw == order_twins(toks[k], pairs) for k in range(len(stmts)) if k != i):
            continue            # has an exact mirror
        best = None
        for j in range(i + 1, len(stmts)):
            if len(toks[j]) < 6:
                continue
            r = difflib.SequenceMatcher(None, sw, order_twins(toks[j], pairs), autojunk=False).ratio()
            if best is None or r > best[1]:
                best = (j, r)
        if best is None or best[1] < lo:
            continue
        j, r = best
        swj = order_twins(swapped(toks[j], pairs), pairs)
        if any(swj == order_twins(toks[k], pairs) for k in range(len(stmts)) if k != j):
            continue
        tj = order_twins(toks[j], pairs)
        sm = difflib.SequenceMatcher(None, sw, tj, autojunk=False)
        bad = []
        ren = {}
        rev = {}
        for tag, a, b, c, d in sm.get_opcodes():
            if tag == 'equal':
                continue
            x, y = sw[a:b], tj[c:d]
            if tag == 'replace' and len(x) == len(y):
                for u, v in zip(x, y):
                    if _is_str(u) and _is_str(v) and (' ' in u or ' ' in v):
                        continue                      # message texts
                    if _is_ident(u) and _is_ident(v) and not _has_role(u, pairs) and not _has_role(v, pairs) \
                            and ren.get(u, v) == v and rev.get(v, u) == u:
                        ren[u] = v
                        rev[v] = u
                        continue
                    bad.append(('replace', u, v))
            else:
                bad.append((tag, ' '.join(x), ' '.join(y)))
        if bad:
            out.append((stmts[i], stmts[j], r, bad))
    return out


def _norm(tok):
    # plural / capitalised spellings of the role words used in tdda
    t = tok.replace('actuals', 'actual').replace('Actuals', 'Actual')
    t = t.replace('Reference', 'Expected').replace('reference', 'expected')
    return t


def blocks_of(fnode):
    """Every statement list in a function (bodies of if/for/while/with/try ...)."""
    out = []

    def rec(stmts):
        out.append(stmts)
        for s in stmts:
            if isinstance(s, (ast.FunctionDef, ast.AsyncFunctionDef, ast.ClassDef)):
                continue
            for f in ('body', 'orelse', 'finalbody'):
                b = getattr(s, f, None)
                if isinstance(b, list) and b and isinstance(b[0], ast.stmt):
                    rec(b)
            if isinstance(s, ast.Try):
                for h in s.handlers:
                    rec(h.body)
    rec(fnode.body)
    return out


ACTUAL_EXPECTED = [(r'actual', r'expected'), (r'Actual', r'Expected')]
DF_REF = [(r'\bdf\b', r'\bref_df\b'), (r'actual', r'expected'), (r'Actual', r'Expected')]
LEFT_RIGHT = [(r'left', r'right'), (r'Left', r'Right')]
