"""Triage table (R4): candidates confirmed by reading to be non-defects.

One named symbol per entry, one line of reason.  Keys are
(function short name, sub-rule, symbol) - no line numbers, so the entry
survives edits elsewhere in the function and dies with the symbol.
"""

IEF = {
    ('same_structure_dataframe_diffs', 'NOITEM', '(D > 0).sum().item()'):
        'D is the sum of the per-column masks after astype(int) (create_row_diff_counts): a numpy integer Series, so the '
        'reduction is a numpy scalar; the masks themselves are made plain bool by single_col_diffs',
    ('BaseConstraintVerifier.verify_sign_constraint', 'UNBOUND', 'result'):
        'if/elif chain over constraint.value covers the closed enumeration SIGNS; SignConstraint.__init__ validates '
        'the value against SIGNS at construction (check_validity), so no other value reaches the verifier',
    # not a symbol but a shape, checked by ief.first_item_sentinel wherever it stands in rle_fc_c (or a local function of it):
    # `last = None` ahead of the loop, `if item == last: count += 1 / else: ...; last = item; count = 1`, reads after the loop
    # under `if last:`.  What was confirmed by reading is only that the items are never None.
    ('Extractor.rle_fc_c', 'UNBOUND', 'first-item-sentinel'):
        'first iteration: the last-item variable is None and the items run-length encoded here are the characters of an example '
        'and the codes fine_class() returns for them - never None - so the else arm binds the count before any increment',
    ('SQLDatabaseHandler.check_table_exists', 'UNBOUND', 'allsql'):
        'the arm without allsql needs a falsy schema under postgres/mysql, but default_schema() returns a non-empty '
        'schema or raises for those database types; the sqlite arm binds it',
    ('BaseConstraintVerifier.verify_rex_constraint', 'ARITY', 'self.detect_rex_constraint(colname, violations)'):
        'binds for the pandas detector; the three-argument base stub is reached only with a database verifier under '
        '`detect`, and detection is documented as not implemented for databases (detect_db_table raises '
        'NotImplementedError; verify_db_table never sets detect)',
}

# Near-mirror pairs that are one-sided on purpose: (function short name, first line of statement 1)
MIRROR = {
    ('FilesComparison.check_file', 'try:'):
        'the two missing-file handlers differ by design: a missing reference yields the initialise-from-actual hint '
        'and returns, a missing actual reports through add_failures',
    ('PandasComparison.write_temporaries', 'if expected is not None and (not expected_path):'):
        'sequential dependency: the expected block rebinds expected_path so that the actual block can name it in its '
        'compare command; the actual block has no later reader of actual_path',
}

# one-sided parameters of two-sided transformations that are one-sided by design
BALANCE = {
    ('PandasComparison.check_dataframe', 'sortby'):
        'the sort columns are one list resolved against the reference frame (sortby=True means the reference\'s columns, '
        'documented); both frames are then sorted by that same list',
}

# set -> sequence conversions whose order cannot reach the result
ORDER = {
    ('Extractor.merge_fixed_omnipresent_at_pos', 'list(frags)'):
        'the list is used for membership tests and as dictionary keys only; its consumer get_omnipresent_at_pos sorts the '
        '(fragment, position) pairs by position, and a position holds one fragment, so hash order cannot reach the result',
}
