"""Triage table (R4): candidates confirmed by reading to be non-defects.

One named symbol per entry, one line of reason.  Keys are
(function short name, sub-rule, symbol) - no line numbers, so the entry
survives edits elsewhere in the function and dies with the symbol.
"""

IEF = {
    ('BaseConstraintVerifier.verify_sign_constraint', 'UNBOUND', 'result'):
        'if/elif chain over constraint.value covers the closed enumeration SIGNS; SignConstraint.__init__ validates '
        'the value against SIGNS at construction (check_validity), so no other value reaches the verifier',
    ('Extractor.rle_fc_c', 'UNBOUND', 'nfc'):
        'first iteration: last_fc is None and fine_class() never returns None, so the else arm binds nfc before any increment',
    ('Extractor.rle_fc_c', 'UNBOUND', 'nc'):
        'first iteration: last_c is None and c is a character, so the else arm binds nc before any increment',
}
