"""Run context: obligations, notes, known findings, evidence, exit codes."""
import json
import os
import time

from .model import AnalysisError

VERIF = os.path.dirname(os.path.dirname(os.path.abspath(__file__)))
KNOWN = os.path.join(VERIF, 'known_findings.json')


def load_known():
    if not os.path.exists(KNOWN):
        return {'findings': [], 'fixed': []}
    with open(KNOWN) as f:
        return json.load(f)


class Ob:
    __slots__ = ('rule', 'key', 'ok', 'msg', 'rel', 'line', 'nontrivial', 'detail')

    def __init__(self, rule, key, ok, msg, rel=None, line=None, nontrivial=True, detail=None):
        self.rule = rule
        self.key = key
        self.ok = ok
        self.msg = msg
        self.rel = rel
        self.line = line
        self.nontrivial = nontrivial
        self.detail = detail

    def as_dict(self):
        d = {'rule': self.rule, 'instance': self.key, 'verdict': 'holds' if self.ok else 'VIOLATED',
             'what': self.msg}
        if self.rel:
            d['where'] = '%s:%s' % (self.rel, self.line)
        if self.detail is not None:
            d['detail'] = self.detail
        return d


class Run:
    def __init__(self, pid, tier, prog, seed=0):
        self.pid = pid
        self.tier = tier
        self.prog = prog
        self.seed = seed
        self.obs = []
        self.notes = []
        self.floors = []       # (rule, count, floor)
        self.rules = {}        # rule -> description
        self.assumptions = []
        self.trusted = []
        self.units = {}
        self.selftest = None
        self.deferred = []     # rules that could not be evaluated: reported (exit 2) unless a violation is found anyway
        self.t0 = time.time()

    # -- recording ---------------------------------------------------------
    def rule(self, rid, text):
        self.rules[rid] = text

    def ob(self, rule, key, ok, msg, node=None, fn=None, rel=None, line=None,
           nontrivial=True, detail=None):
        if fn is not None:
            rel = fn.rel
            if line is None:
                line = getattr(node, '_src_lineno', None) or getattr(node, 'lineno', None) or fn.node.lineno
        elif node is not None and line is None:
            line = getattr(node, '_src_lineno', None) or getattr(node, 'lineno', None)
        self.obs.append(Ob(rule, key, bool(ok), msg, rel, line, nontrivial, detail))
        return bool(ok)

    def attempt(self, fn, *a, **k):
        """Run one rule; if it cannot be evaluated on this tree, go on with the others and report the failure at the end
        (a violation another rule finds is the more useful report)."""
        from .model import AnalysisError
        try:
            return fn(*a, **k)
        except AnalysisError as e:
            self.deferred.append('%s: %s' % (getattr(fn, '__name__', 'rule'), e))
            return None

    def note(self, rule, msg, fn=None, node=None):
        where = ''
        if fn is not None:
            where = '%s:%s ' % (fn.rel, getattr(node, '_src_lineno', None) or getattr(node, 'lineno', fn.node.lineno))
        self.notes.append('%s %s%s' % (rule, where, msg))

    def floor(self, rule, count, minimum):
        self.floors.append((rule, count, minimum))

    def assume(self, text):
        if text not in self.assumptions:
            self.assumptions.append(text)

    def trust(self, text):
        if text not in self.trusted:
            self.trusted.append(text)

    # -- outcome -------------------------------------------------------------
    def finish(self, only_key=None, write_evidence=True, quiet=False):
        """Print the report, write evidence, return the exit code."""
        known = load_known()
        kf = {(k['property'], k['rule'], k['key']): k for k in known.get('findings', [])}
        out = []
        bad_floor = [(r, c, m) for r, c, m in self.floors if c < m]
        viol, knownhits = [], []
        seen_keys = set()
        for o in self.obs:
            if o.ok:
                continue
            if (o.rule, o.key) in seen_keys:
                continue
            seen_keys.add((o.rule, o.key))
            if only_key is not None and o.key != only_key:
                continue
            k = kf.get((self.pid, o.rule, o.key))
            if k is not None:
                knownhits.append((o, k))
            else:
                viol.append(o)
        nrules = len(self.rules)
        out.append('%s tier=%s: %d rules, %d obligations, %d hold, %d known findings, %d violations, %d notes'
                   % (self.pid, self.tier, nrules, len(self.obs), sum(1 for o in self.obs if o.ok),
                      len(knownhits), len(viol), len(self.notes)))
        byrule = {}
        for o in self.obs:
            a = byrule.setdefault(o.rule, [0, 0])
            a[0] += 1
            a[1] += 1 if o.ok else 0
        for r in sorted(self.rules):
            a = byrule.get(r, [0, 0])
            out.append('  %-18s %3d/%-3d  %s' % (r, a[1], a[0], self.rules[r]))
        for r, c, m in self.floors:
            out.append('  floor %-18s instances=%d (minimum %d)%s' % (r, c, m, '' if c >= m else '  BELOW FLOOR'))
        if self.selftest is not None:
            out.append('  selftest: %s' % json.dumps(self.selftest.get('summary', {}), sort_keys=True))
        for o, k in knownhits:
            out.append('KNOWN-FINDING: property=%s %s %s:%s %s' % (self.pid, o.rule, o.rel, o.line, o.msg))
        replay_paths = []
        for i, o in enumerate(viol):
            rp = os.path.join(VERIF, 'evidence', 'replay', '%s-%d.json' % (self.pid, i))
            if write_evidence:
                os.makedirs(os.path.dirname(rp), exist_ok=True)
                with open(rp, 'w') as f:
                    json.dump({'property': self.pid, 'rule': o.rule, 'key': o.key, 'what': o.msg,
                               'where': '%s:%s' % (o.rel, o.line), 'detail': o.detail}, f, indent=1)
            replay_paths.append(rp)
            out.append('  violated: %s at %s:%s: %s' % (o.rule, o.rel, o.line, o.msg))
            if o.detail:
                out.append('     %s' % (json.dumps(o.detail)[:400]))
            out.append('VIOLATION property=%s replay=%s' % (self.pid, rp))
        code = 0
        if viol:
            code = 1
            for d in self.deferred:
                out.append('  not evaluated: %s' % d)
        elif self.deferred:
            for d in self.deferred:
                out.append('ANALYSIS-ERROR property=%s %s' % (self.pid, d))
            code = 2
        elif bad_floor:
            for r, c, m in bad_floor:
                out.append('ANALYSIS-ERROR property=%s rule %s evaluated %d instances, fewer than the %d confirmed by hand; '
                           'an anchor has changed shape' % (self.pid, r, c, m))
            code = 2
        elif self.selftest is not None and self.selftest.get('failed'):
            for x in self.selftest['failed']:
                out.append('ANALYSIS-ERROR property=%s selftest: %s' % (self.pid, x))
            code = 2
        if write_evidence:
            self._evidence(viol, knownhits, code)
        if not quiet:
            print('\n'.join(out))
            for n in self.notes[:40]:
                print('  note: ' + n)
        self.exit_code = code
        self.violations = viol
        return code

    def _evidence(self, viol, knownhits, code):
        obs = self.obs
        distinct = len({(o.rule, o.key) for o in obs if o.nontrivial})
        samples = []
        seen = set()
        for o in obs:          # one sample per rule first, then violations
            if o.rule not in seen:
                seen.add(o.rule)
                samples.append(o.as_dict())
        for o in obs:
            if not o.ok and o.as_dict() not in samples:
                samples.append(o.as_dict())
        expl = ('Static analysis of /repo working tree (no tdda code imported or run). Rules: '
                + '; '.join('%s: %s' % (r, t) for r, t in sorted(self.rules.items()))
                + '. These are structural necessary conditions of the property; the run-time behaviour itself is not decided.')
        ev = {
            'property_id': self.pid,
            'tier': self.tier,
            'seed': self.seed,
            'level': 'other',
            'coverage': {
                'explanation': expl,
                'obligations': len(obs),
                'discharged': sum(1 for o in obs if o.ok),
                'evaluations': max(1, len(obs)),
                'distinct_nontrivial': distinct,
                'rule': 'one evaluation per rule instance (a construct of the source: function, call site, table row, '
                        'path or abstract input); an instance is non-trivial when deciding it needed a path walk, a '
                        'call-chain, a table or an abstract-domain evaluation rather than mere presence; distinct by (rule, instance key)',
                'samples': samples[:60],
                'per_rule': {r: {'instances': sum(1 for o in obs if o.rule == r),
                                 'hold': sum(1 for o in obs if o.rule == r and o.ok)} for r in sorted(self.rules)},
                'floors': [{'rule': r, 'instances': c, 'minimum': m} for r, c, m in self.floors],
                'units': self.units,
                'known_findings': [{'rule': o.rule, 'instance': o.key, 'what': o.msg} for o, k in knownhits],
                'notes': self.notes[:100],
                'trusted_base': self.trusted,
                'exhaustive': False,
            },
            'assumptions': self.assumptions,
            'wall_s': round(time.time() - self.t0, 3),
            'violations': len(viol),
        }
        if self.selftest is not None:
            ev['coverage']['selftest'] = self.selftest
        d = os.path.join(VERIF, 'evidence')
        os.makedirs(d, exist_ok=True)
        with open(os.path.join(d, self.pid + '.json'), 'w') as f:
            json.dump(ev, f, indent=1, sort_keys=True)
            f.write('\n')
