"""Static analysers for tdda/tdda.  Nothing in here imports or executes tdda."""
