"""E7 - quoting discipline for SQL text built by string formatting.

A string built by %, +, join or an f-string is a template with slots.  Each
slot has a context read off the constant part of the template (inside single
quotes or not) and each value has a class read off how it was produced:

    CONST        a string constant
    TABLE        the API's table / schema name (trusted by stated policy)
    QUOTED       result of the identifier-quoting helper
    LITERAL_SAFE text whose single quotes have been doubled
    FRAGMENT     SQL text built only from the above
    DATA         anything else (column names, values, expressions from a file)
"""
import ast
import re

from .flow import GuardMap
from .rules.common import _exclusive

SINKS = {'execute_scalar', 'execute_all', 'execute', 'execute_commit'}
TABLE_PARAMS = {'tablename', 'table', 'schema'}
OK_ANY = {'CONST', 'TABLE'}


class Issue:
    def __init__(self, node, msg, slot):
        self.node = node
        self.msg = msg
        self.slot = slot


def template_slots(s):
    """[(in_single_quotes, spec)] for each %-slot of a format string."""
    out = []
    inq = False
    i = 0
    while i < len(s):
        c = s[i]
        if c == "'":
            inq = not inq
        elif c == '%' and i + 1 < len(s):
            if s[i + 1] == '%':
                i += 2
                continue
            m = re.match(r'%(\([^)]*\))?[-#0 +]*\d*(\.\d+)?([sdrfi])', s[i:])
            if m:
                out.append((inq, m.group(3)))
                i += len(m.group(0))
                continue
        i += 1
    return out


class SQLTaint:
    def __init__(self, prog, cls):
        self.prog = prog
        self.cls = cls
        self.issues = []
        self.sites = 0
        self.frag_params = {}       # (func name, param) -> checked at call sites
        self.compvars = {}

    def analyse(self, f):
        self.f = f
        self.gm = GuardMap(f.node)
        self.defs = {}
        for n in self.prog.own_nodes(f):
            if isinstance(n, ast.Assign):
                for t in n.targets:
                    if isinstance(t, ast.Name):
                        self.defs.setdefault(t.id, []).append(n)
                    elif isinstance(t, (ast.Tuple, ast.List)):
                        for x in t.elts:
                            if isinstance(x, ast.Name):
                                self.defs.setdefault(x.id, []).append(n)
        res = []
        for n in self.prog.own_nodes(f):
            if isinstance(n, ast.Call) and isinstance(n.func, ast.Attribute) and n.func.attr in SINKS and n.args:
                self.sites += 1
                before = len(self.issues)
                self.classify(n.args[0], n, set())
                res.append((n, self.issues[before:]))
        return res

    # ------------------------------------------------------------------
    def reaching(self, name, use):
        defs = [d for d in self.defs.get(name, []) if d.lineno < getattr(use, 'lineno', 10 ** 9)
                or (d.lineno == getattr(use, 'lineno', 0) and d is not use)]
        uch = self.gm.chain(use) or ()
        out = []
        for d in sorted(defs, key=lambda x: -x.lineno):
            dch = self.gm.chain(d) or ()
            if _exclusive(uch, dch):
                continue
            out.append(d)
            # unconditional relative to the use: its guards are a prefix of the use's guards
            if len(dch) <= len(uch) and all(a.test is b.test and a.pol == b.pol for a, b in zip(dch, uch)):
                break
        return out

    def classify(self, e, use, seen):
        """-> class of the SQL text produced by e (issues are appended)."""
        if isinstance(e, ast.Constant):
            return 'CONST'
        if isinstance(e, ast.Name):
            if e.id in self.compvars:
                return self.compvars[e.id]
            defs = self.reaching(e.id, use)
            params = self.f.params
            if not defs:
                if e.id in params:
                    return self.param_class(e.id)
                return 'DATA'
            cls = set()
            for d in defs:
                if id(d) in seen:
                    continue
                cls.add(self.classify(d.value, d, seen | {id(d)}))
            # a conditional re-definition may leave the parameter itself reaching
            last = defs[-1]
            if e.id in params and not self._unconditional(last, use):
                cls.add(self.param_class(e.id))
            return self.join(cls)
        if isinstance(e, ast.IfExp):
            return self.join({self.classify(e.body, use, seen), self.classify(e.orelse, use, seen)})
        if isinstance(e, ast.BoolOp):
            return self.join({self.classify(v, use, seen) for v in e.values})
        if isinstance(e, ast.BinOp) and isinstance(e.op, ast.Add):
            return self.join({self.classify(e.left, use, seen), self.classify(e.right, use, seen)}, frag=True)
        if isinstance(e, ast.BinOp) and isinstance(e.op, ast.Mod):
            tmpl = self.const_text(e.left, use)
            if tmpl is None:
                self.issues.append(Issue(e, 'format template is not a constant: %s' % ast.unparse(e.left)[:40], None))
                return 'DATA'
            args = e.right.elts if isinstance(e.right, ast.Tuple) else [e.right]
            return self.check_slots(e, tmpl, args, use, seen)
        if isinstance(e, ast.JoinedStr):
            # an f-string is the same template with its slots written inline
            tmpl, args = '', []
            for v in e.values:
                if isinstance(v, ast.Constant):
                    tmpl += str(v.value).replace('%', '%%')
                elif isinstance(v, ast.FormattedValue):
                    tmpl += '%s'
                    args.append(v.value)
            return self.check_slots(e, tmpl, args, use, seen)
        if isinstance(e, (ast.ListComp, ast.GeneratorExp)):
            saved = dict(self.compvars)
            for g in e.generators:
                c = self.classify(g.iter, use, seen)
                for x in ast.walk(g.target):
                    if isinstance(x, ast.Name):
                        self.compvars[x.id] = c
            r = self.classify(e.elt, use, seen)
            self.compvars = saved
            return r
        if isinstance(e, (ast.List, ast.Tuple)):
            return self.join({self.classify(x, use, seen) for x in e.elts} or {'CONST'}, frag=True)
        if isinstance(e, ast.Call):
            fn = e.func
            if isinstance(fn, ast.Attribute):
                if fn.attr == 'quoted':
                    return 'QUOTED'
                if fn.attr in ('split_name', 'resolve_table') and e.args:
                    return self.classify(e.args[0], use, seen)      # pieces of the table name
                if fn.attr == 'join' and e.args:
                    return self.join({self.classify(fn.value, use, seen), self.classify(e.args[0], use, seen)}, frag=True)
                if fn.attr == 'replace' and len(e.args) == 2 and all(isinstance(a, ast.Constant) for a in e.args):
                    a, b = e.args[0].value, e.args[1].value
                    if a == "'" and b == "''":
                        return 'LITERAL_SAFE'
                    return self.classify(fn.value, use, seen)
                if fn.attr in ('strip', 'lower', 'upper', 'format'):
                    return self.classify(fn.value, use, seen)
                if isinstance(fn.value, ast.Name) and fn.value.id == 'self' and fn.attr in self.cls.methods:
                    g = self.cls.methods[fn.attr]
                    return self.call_class(g, e, use, seen)
            return 'DATA'
        return 'DATA'

    def _unconditional(self, d, use):
        dch = self.gm.chain(d) or ()
        uch = self.gm.chain(use) or ()
        return len(dch) <= len(uch) and all(a.test is b.test and a.pol == b.pol for a, b in zip(dch, uch))

    def check_slots(self, e, tmpl, args, use, seen):
        slots = template_slots(tmpl)
        if len(slots) != len(args):
            self.issues.append(Issue(e, 'template has %d slots for %d arguments' % (len(slots), len(args)), None))
            return 'DATA'
        for i, ((inq, spec), a) in enumerate(zip(slots, args)):
            if spec in 'dfi':
                continue
            c = self.classify(a, use, seen)
            if inq:
                if c not in ('LITERAL_SAFE', 'CONST', 'TABLE'):
                    self.issues.append(Issue(a, "slot %d is inside single quotes and receives %s (%s): a quote in it ends the literal"
                                             % (i + 1, ast.unparse(a)[:30], c), i))
            else:
                if c not in ('QUOTED', 'FRAGMENT', 'CONST', 'TABLE'):
                    self.issues.append(Issue(a, 'slot %d is SQL syntax and receives %s (%s) without the identifier-quoting helper'
                                             % (i + 1, ast.unparse(a)[:30], c), i))
        return 'FRAGMENT'

    def call_class(self, g, call, use, seen):
        """A helper of the same class that returns SQL text built from its parameters."""
        pos = g.posparams[1:]
        sub = SQLTaint(self.prog, self.cls)
        sub.f = g
        sub.gm = GuardMap(g.node)
        sub.defs = {}
        for n in self.prog.own_nodes(g):
            if isinstance(n, ast.Assign):
                for t in n.targets:
                    if isinstance(t, ast.Name):
                        sub.defs.setdefault(t.id, []).append(n)
        argcls = {}
        for i, a in enumerate(call.args):
            if i < len(pos):
                argcls[pos[i]] = self.classify(a, use, seen)
        sub.param_override = argcls
        out = set()
        for n in self.prog.own_nodes(g):
            if isinstance(n, ast.Return) and n.value is not None:
                out.add(sub.classify(n.value, n, set()))
        self.issues += sub.issues
        return self.join(out or {'DATA'})

    param_override = None
    compvars = {}

    def param_class(self, name):
        if self.param_override and name in self.param_override:
            return self.param_override[name]
        if name in TABLE_PARAMS:
            return 'TABLE'
        # a private helper's parameter is whatever its callers inside the class hand over: classify every argument at its
        # call site (in the caller's own context) and join; a method nobody in the class calls is an entry point: DATA
        depth = getattr(self, '_depth', 0)
        if depth >= 3 or self.cls is None:
            return 'DATA'
        got = set()
        f = self.f
        if name not in f.posparams and name not in f.kwonly:
            return 'DATA'
        for h in self.cls.methods.values():
            for c in self.prog.own_nodes(h):
                if not (isinstance(c, ast.Call) and isinstance(c.func, ast.Attribute) and c.func.attr == f.name and
                        isinstance(c.func.value, ast.Name) and c.func.value.id == 'self'):
                    continue
                arg = None
                pos = f.posparams[1:] if f.posparams[:1] == ['self'] else f.posparams
                if name in pos and pos.index(name) < len(c.args):
                    arg = c.args[pos.index(name)]
                for k in c.keywords:
                    if k.arg == name:
                        arg = k.value
                if arg is None:
                    d = f.defaults.get(name)
                    if d is None:
                        return 'DATA'
                    arg = d
                sub = SQLTaint(self.prog, self.cls)
                sub._depth = depth + 1
                sub.f = h
                sub.gm = GuardMap(h.node)
                sub.defs = {}
                for n in self.prog.own_nodes(h):
                    if isinstance(n, ast.Assign):
                        for t in n.targets:
                            if isinstance(t, ast.Name):
                                sub.defs.setdefault(t.id, []).append(n)
                cl = sub.classify(arg, c, set())
                got.add('FRAGMENT' if cl == 'CONST' and isinstance(arg, ast.Constant) and isinstance(arg.value, str) else cl)
        if not got:
            return 'DATA'
        if got <= {'FRAGMENT', 'CONST'}:
            self.frag_params[(self.f.name, name)] = True
            return 'FRAGMENT'
        return self.join(got)

    @staticmethod
    def join(cls, frag=False):
        cls = set(cls)
        if not cls:
            return 'CONST'
        if 'DATA' in cls:
            return 'DATA'
        if len(cls) == 1 and not frag:
            return next(iter(cls))
        if cls <= {'CONST'}:
            return 'CONST'
        if 'LITERAL_SAFE' in cls and len(cls - {'CONST', 'LITERAL_SAFE'}) == 0:
            return 'LITERAL_SAFE' if not frag else 'FRAGMENT'
        return 'FRAGMENT'

    def const_text(self, e, use):
        if isinstance(e, ast.Constant) and isinstance(e.value, str):
            return e.value
        if isinstance(e, ast.Name):
            # text added to the name after it was bound (sql += ' WHERE ' + condition) makes it something else than the constant
            for n in self.prog.own_nodes(self.f):
                if isinstance(n, ast.AugAssign) and isinstance(n.target, ast.Name) and n.target.id == e.id \
                        and n.lineno <= getattr(use, 'lineno', 10 ** 9) and not isinstance(n.value, ast.Constant):
                    return None
            defs = self.reaching(e.id, use)
            vals = {d.value.value for d in defs if isinstance(d.value, ast.Constant) and isinstance(d.value.value, str)}
            if len(vals) == 1 and len(defs) == 1:
                return next(iter(vals))
        return None


CONST_SOURCE = [None]      # (prog, module) used to resolve named constants in dbtype tests; set by the rule


def non_sqlite_arm(gm, node):
    """Is node under a positive test of self.dbtype that excludes sqlite?"""
    for g in gm.chain(node) or ():
        if g.kind != 'if':
            continue
        t = ast.unparse(g.test)
        if 'dbtype' in t:
            lits = {x.value for x in ast.walk(g.test) if isinstance(x, ast.Constant) and isinstance(x.value, str)}
            if CONST_SOURCE[0] is not None:
                prog, mod = CONST_SOURCE[0]
                for x in ast.walk(g.test):
                    if isinstance(x, ast.Name) and x.id in mod.consts:
                        try:
                            v = prog.fold(mod, mod.consts[x.id])
                        except Exception:
                            continue
                        if isinstance(v, str):
                            lits.add(v)
                        elif isinstance(v, (tuple, list, set, frozenset)):
                            lits |= {y for y in v if isinstance(y, str)}
            if g.pol and lits and 'sqlite' not in lits:
                return True
    return False


def delimiter_helper(f):
    """For a quoting helper: [(template, doubled?)] per return."""
    out = []
    for n in ast.walk(f.node):
        if isinstance(n, ast.Return) and isinstance(n.value, ast.BinOp) and isinstance(n.value.op, ast.Mod) \
                and isinstance(n.value.left, ast.Constant) and isinstance(n.value.left.value, str):
            t = n.value.left.value
            m = re.match(r'^(.)%s(.)$', t)
            if not m:
                out.append((n, t, None))
                continue
            close = m.group(2)
            arg = n.value.right
            ok = isinstance(arg, ast.Call) and isinstance(arg.func, ast.Attribute) and arg.func.attr == 'replace' \
                and len(arg.args) == 2 and all(isinstance(a, ast.Constant) for a in arg.args) \
                and arg.args[0].value == close and arg.args[1].value == close * 2
            out.append((n, t, ok))
    return out
