"""E8 - small regular-language toolkit on regex constants extracted from the source.

Patterns are parsed with the interpreter's own ``re._parser`` (no tdda code is
run), turned into NFAs over a finite alphabet of representative characters and
compared by subset construction.  Supported node kinds: literal, not_literal,
in (literals, ranges, categories, negation), any, branch, subpattern,
max_repeat / min_repeat, at (begin/end anchors).  Anything else raises
Unsupported, which the caller reports as ANALYSIS-ERROR.
"""
import re
import re._parser as sre_parse
import re._constants as C


class Unsupported(Exception):
    pass


def _cat(cat, ch):
    if cat in (C.CATEGORY_DIGIT,):
        return ch.isdigit() if False else re.match(r'\d', ch) is not None
    if cat == C.CATEGORY_NOT_DIGIT:
        return re.match(r'\D', ch) is not None
    if cat == C.CATEGORY_SPACE:
        return re.match(r'\s', ch) is not None
    if cat == C.CATEGORY_NOT_SPACE:
        return re.match(r'\S', ch) is not None
    if cat == C.CATEGORY_WORD:
        return re.match(r'\w', ch) is not None
    if cat == C.CATEGORY_NOT_WORD:
        return re.match(r'\W', ch) is not None
    raise Unsupported('category %r' % (cat,))


def _in_set(items, ch):
    neg = False
    hit = False
    for op, av in items:
        if op is C.NEGATE:
            neg = True
        elif op is C.LITERAL:
            hit = hit or ord(ch) == av
        elif op is C.RANGE:
            hit = hit or av[0] <= ord(ch) <= av[1]
        elif op is C.CATEGORY:
            hit = hit or _cat(av, ch)
        else:
            raise Unsupported('set item %r' % (op,))
    return hit != neg


class NFA:
    def __init__(self):
        self.n = 0
        self.eps = {}
        self.tr = {}      # state -> [(predicate, target)]

    def new(self):
        self.n += 1
        return self.n - 1

    def e(self, a, b):
        self.eps.setdefault(a, set()).add(b)

    def t(self, a, pred, b):
        self.tr.setdefault(a, []).append((pred, b))


def _build(nfa, seq, start):
    """-> end state after matching the sequence of parsed items from start"""
    cur = start
    for op, av in seq:
        nxt = nfa.new()
        if op is C.LITERAL:
            nfa.t(cur, (lambda ch, v=av: ord(ch) == v), nxt)
        elif op is C.NOT_LITERAL:
            nfa.t(cur, (lambda ch, v=av: ord(ch) != v), nxt)
        elif op is C.ANY:
            nfa.t(cur, (lambda ch: ch != '\n'), nxt)
        elif op is C.IN:
            nfa.t(cur, (lambda ch, items=av: _in_set(items, ch)), nxt)
        elif op is C.BRANCH:
            for alt in av[1]:
                s = nfa.new()
                nfa.e(cur, s)
                e = _build(nfa, alt, s)
                nfa.e(e, nxt)
        elif op is C.SUBPATTERN:
            e = _build(nfa, av[3], cur)
            nfa.e(e, nxt)
        elif op in (C.MAX_REPEAT, C.MIN_REPEAT):
            lo, hi, sub = av
            c = cur
            for _ in range(lo):
                c = _build(nfa, sub, c)
            if hi is C.MAXREPEAT:
                loop = nfa.new()
                nfa.e(c, loop)
                e = _build(nfa, sub, loop)
                nfa.e(e, loop)
                nfa.e(loop, nxt)
            else:
                if hi - lo > 64:
                    raise Unsupported('repeat bound too large')
                nfa.e(c, nxt)
                for _ in range(hi - lo):
                    c = _build(nfa, sub, c)
                    nfa.e(c, nxt)
        elif op is C.AT:
            if av in (C.AT_BEGINNING, C.AT_BEGINNING_STRING, C.AT_END, C.AT_END_STRING):
                nfa.e(cur, nxt)          # whole-string matching is what we model
            else:
                raise Unsupported('anchor %r' % (av,))
        else:
            raise Unsupported('regex node %r' % (op,))
        cur = nxt
    return cur


def compile_nfa(pattern, flags=0):
    parsed = sre_parse.parse(pattern, flags)
    nfa = NFA()
    s = nfa.new()
    e = _build(nfa, list(parsed), s)
    return nfa, s, e, parsed.state.groups - 1


def _closure(nfa, states):
    out = set(states)
    work = list(states)
    while work:
        x = work.pop()
        for y in nfa.eps.get(x, ()):
            if y not in out:
                out.add(y)
                work.append(y)
    return frozenset(out)


def _step(nfa, states, ch):
    out = set()
    for s in states:
        for pred, b in nfa.tr.get(s, ()):
            if pred(ch):
                out.add(b)
    return _closure(nfa, out)


def not_included(writer, readers, alphabet, flags=0):
    """A string of L(writer) matched in full by no reader, or None.
    (Readers are tried with re.match semantics on patterns that carry their own
    anchors; we model full-string acceptance.)"""
    wn, ws, we, _ = compile_nfa(writer, flags)
    rs = [compile_nfa(r, flags) for r in readers]
    start = (_closure(wn, {ws}), tuple(_closure(n, {s}) for n, s, e, g in rs))
    seen = {start: None}
    work = [start]
    while work:
        st = work.pop(0)
        wset, rsets = st
        if we in wset and not any(e in rset for (n, s, e, g), rset in zip(rs, rsets)):
            out = []
            k = st
            while seen[k] is not None:
                k, ch = seen[k]
                out.append(ch)
            return ''.join(reversed(out))
        for ch in alphabet:
            w2 = _step(wn, wset, ch)
            if not w2:
                continue
            r2 = tuple(_step(n, rset, ch) for (n, s, e, g), rset in zip(rs, rsets))
            nx = (w2, r2)
            if nx not in seen:
                seen[nx] = (st, ch)
                work.append(nx)
    return None


def groups(pattern, flags=0):
    return sre_parse.parse(pattern, flags).state.groups - 1


def parses(pattern, flags=0):
    try:
        sre_parse.parse(pattern, flags)
        return True
    except re.error:
        return False
