"""E9 - wrapper specialisation: the body a function really runs, as one syntax tree.

Sibling functions are often thin wrappers over one parameterised helper

    def verify_min_constraint(self, colname, constraint, detect=False):
        return self._verify_limit_constraint(colname, constraint, detect, self.get_min,
                                             (operator.ge, operator.gt, fuzzy_greater_than), self.detect_min_constraint)

or pick their comparison out of a constant table in a search loop

    for sign, test in SIGN_TESTS:
        if value == sign:
            result = test(m, M)
            break

The structural rules read decision tables, guards and call sites from one function's tree.  flat(p, f) gives them that tree: the
helper's body with the wrapper's arguments substituted for its parameters, and then simplified by source-to-source steps each of
which keeps the meaning exactly:

  * a local (or tuple of locals) bound once to a constant, a function reference or a lambda is replaced by what it is bound to;
  * comparisons / not / and / or / conditional expressions / if statements over constants are folded;
  * operator.ge(a, b) and friends become a >= b;  (lambda x, y: E)(a, b) becomes E[a/x, b/y];  getattr(x, 'name') becomes x.name;
  * TABLE['key'] / TABLE[0] over a constant table (a display, or a module- / class-level name bound once to one and never stored
    through or mutated anywhere in the program) becomes the entry; 'a' + 'b' and 'x%s' % 'y' become the string; a list / dict
    comprehension over a constant table of constants becomes the display it builds; TABLE.get('key') likewise; a function
    reference is true in a test;
  * an if / elif / else whose arms each end by giving a fresh local a constant, followed by (at most three) statements that use it:
    those statements are repeated in each arm with the constant written in;  `x = <constant / function reference>` is written
    into the statements that follow it in its block, and dropped when x is read nowhere;
  * a loop over a display of at most six rows whose body calls a new helper is written out once per row (cells that are not
    constants or function references bound to fresh locals first, in display order);
  * x = TABLE[E] over a constant table of function references (E a plain reference) becomes the if / elif chain that picks the
    entry, keys with the same entry grouped, `raise KeyError(E)` at the end;  E in TABLE becomes E in (keys...);
  * a search loop over a constant table whose body is `if TEST: ...; break` (or `...; return`) becomes the if / elif chain it
    runs, with the loop's else as the final else;
  * a call of a private helper (`_name`, same module, not recursive, no closures) that is a whole statement - `self._h(a)`,
    `x = self._h(a)`, `return self._h(a)` - is replaced by the helper's body: arguments that are not plain references are bound
    to fresh locals first, in the order they were written; the helper's own locals are renamed where they would collide;
  * the same for a local function that is only ever called (its free variables are read at the call, where the body now stands);
  * a helper whose returns sit in if / else arms is rewritten so that every return ends its arm, and then read in place;
  * a helper that is a single `return <expression>` called with plain references is written as that expression wherever the call
    stands;
  * a class-level `NAME = factory(<constants>)` with a new factory of the plain kind (`def inner(self, ...): BODY; return inner`) is read
    as the method `def NAME(self, ...): BODY` with the constants written in;
  * a function under a new decorator of the plain wrapping kind (same parameters, some statements, `return fn(params)`) is read
    as those statements followed by its own body;
  * a helper call in the middle of an expression or an `if` test that is evaluated first and always (everything before it pure)
    is bound to a fresh local just ahead of the statement.

Nothing is guessed: a step whose side conditions (no rebinding, no capture, arguments without effects) cannot be shown is not
taken, and the function is then returned as it stands - the rules see the unrecognised shape and say so."""
import ast
import copy

from .model import Func

OPERATOR_CMP = {'ge': ast.GtE, 'gt': ast.Gt, 'le': ast.LtE, 'lt': ast.Lt, 'eq': ast.Eq, 'ne': ast.NotEq, 'contains': None,
                'is_': ast.Is, 'is_not': ast.IsNot}
OPERATOR_BIN = {'add': ast.Add, 'sub': ast.Sub, 'mul': ast.Mult, 'truediv': ast.Div, 'floordiv': ast.FloorDiv, 'mod': ast.Mod,
                'and_': ast.BitAnd, 'or_': ast.BitOr, 'xor': ast.BitXor}
SCOPES = (ast.FunctionDef, ast.AsyncFunctionDef, ast.Lambda, ast.ClassDef)
COMPS = (ast.ListComp, ast.SetComp, ast.DictComp, ast.GeneratorExp)


def _params(a):
    return [x.arg for x in a.posonlyargs + a.args + a.kwonlyargs] + ([a.vararg.arg] if a.vararg else []) + ([a.kwarg.arg] if a.kwarg else [])


def _own(node):
    """nodes of a function body in the function's own scope (nested defs / lambdas / comprehensions not entered)"""
    stack = list(node.body) if isinstance(node.body, list) else [node.body]
    while stack:
        n = stack.pop()
        yield n
        if isinstance(n, SCOPES):
            continue
        if isinstance(n, COMPS):
            # the first iterable belongs to the enclosing scope
            stack.append(n.generators[0].iter)
            continue
        stack.extend(ast.iter_child_nodes(n))


def stores(fnode):
    """name -> number of binding sites in the function's own scope"""
    out = {}

    def add(n):
        out[n] = out.get(n, 0) + 1
    for n in _own(fnode):
        if isinstance(n, ast.Name) and isinstance(n.ctx, (ast.Store, ast.Del)):
            add(n.id)
        elif isinstance(n, (ast.FunctionDef, ast.AsyncFunctionDef, ast.ClassDef)):
            add(n.name)
        elif isinstance(n, (ast.Import, ast.ImportFrom)):
            for a in n.names:
                add((a.asname or a.name).split('.')[0])
        elif isinstance(n, ast.ExceptHandler) and n.name:
            add(n.name)
        elif isinstance(n, (ast.Global, ast.Nonlocal)):
            for x in n.names:
                out[x] = out.get(x, 0) + 100
        elif isinstance(n, ast.NamedExpr):
            pass            # its Name target is a Store and is counted above
    return out


def free_names(e):
    """names an expression reads from the scope it stands in"""
    out = set()

    def walk(n, bound):
        if isinstance(n, ast.Name):
            if n.id not in bound:
                out.add(n.id)
            return
        if isinstance(n, ast.Lambda):
            for d in n.args.defaults + [k for k in n.args.kw_defaults if k is not None]:
                walk(d, bound)
            walk(n.body, bound | set(_params(n.args)))
            return
        if isinstance(n, COMPS):
            b = set(bound)
            for g in n.generators:
                walk(g.iter, b)
                b |= {x.id for x in ast.walk(g.target) if isinstance(x, ast.Name)}
                for c in g.ifs:
                    walk(c, b)
            for part in ([n.key, n.value] if isinstance(n, ast.DictComp) else [n.elt]):
                walk(part, b)
            return
        for c in ast.iter_child_nodes(n):
            walk(c, bound)
    walk(e, frozenset())
    return out


class Subst(ast.NodeTransformer):
    """replace reads of the mapped names by (copies of) the mapped expressions; scopes that rebind a name shadow it"""

    def __init__(self, mapping):
        self.m = dict(mapping)
        self.count = 0

    def _shadow(self, names, fn):
        saved = self.m
        self.m = {k: v for k, v in self.m.items() if k not in names}
        try:
            return fn()
        finally:
            self.m = saved

    def visit_Name(self, n):
        if isinstance(n.ctx, ast.Load) and n.id in self.m:
            self.count += 1
            return ast.copy_location(copy.deepcopy(self.m[n.id]), n)
        return n

    def visit_Lambda(self, n):
        n.args.defaults = [self.visit(d) for d in n.args.defaults]
        return self._shadow(set(_params(n.args)), lambda: self._body(n))

    def _body(self, n):
        if isinstance(n.body, list):
            n.body = [self.visit(s) for s in n.body]
        else:
            n.body = self.visit(n.body)
        return n

    def visit_FunctionDef(self, n):
        n.args.defaults = [self.visit(d) for d in n.args.defaults]
        return self._shadow(set(_params(n.args)) | set(stores(n)), lambda: self._body(n))

    def _comp(self, n):
        names = set()
        for g in n.generators:
            names |= {x.id for x in ast.walk(g.target) if isinstance(x, ast.Name)}
        n.generators[0].iter = self.visit(n.generators[0].iter)

        def rest():
            for i, g in enumerate(n.generators):
                if i:
                    g.iter = self.visit(g.iter)
                g.ifs = [self.visit(c) for c in g.ifs]
            if isinstance(n, ast.DictComp):
                n.key, n.value = self.visit(n.key), self.visit(n.value)
            else:
                n.elt = self.visit(n.elt)
            return n
        return self._shadow(names, rest)

    visit_ListComp = visit_SetComp = visit_DictComp = visit_GeneratorExp = _comp


def _const(e):
    return isinstance(e, ast.Constant)


def _const_tuple(e):
    return isinstance(e, (ast.Tuple, ast.List, ast.Set)) and all(_const(x) for x in e.elts)


class Simplifier:
    def __init__(self, p, mod, cls, fnode, qn='', allow=None, only_after_inlining=False):
        self.p, self.mod, self.cls = p, mod, cls
        self.f = fnode
        self.qn = qn
        self.allow = allow or (lambda hqn: hqn not in vocabulary())
        self.only_after_inlining = only_after_inlining
        self.changed = False
        self.inlined = 0
        self.stack = set()
        self.via = []

    # ---- what may be copied around freely -------------------------------------------------------------------------------------
    def _module_callable(self, name, local):
        if name in local:
            return False
        s = self.mod.syms.get(name)
        return s is not None and s.kind in ('func', 'class')

    def stable_ref(self, e, local):
        """an expression that denotes the same thing wherever in the function it is written and has no effect: a constant, a
        module-level function, operator.X, self.method, a lambda"""
        if _const(e) or isinstance(e, ast.Lambda):
            return True
        if self.record_fields(e, local) is not None:
            return True                    # a namedtuple record of such things: immutable, built without effects
        if isinstance(e, ast.Name):
            return self._module_callable(e.id, local)
        if isinstance(e, ast.Attribute) and isinstance(e.value, ast.Name):
            if e.value.id == 'operator' and 'operator' not in local and self._is_stdlib_operator():
                return True
            if e.value.id == 'self' and _params(self.f.args)[:1] == ['self'] and not stores(self.f).get('self') and self.cls is not None:
                return self.p.lookup_method(self.cls.qn, e.attr) is not None      # a bound method of the receiver, which is never rebound
        return False

    MUTATORS = {'append', 'extend', 'insert', 'remove', 'pop', 'clear', 'sort', 'reverse', 'update', 'setdefault', 'popitem', 'add', 'discard',
                '__setitem__', '__delitem__'}

    def _mutated_names(self):
        """names (globals, attributes) that are stored through, deleted from or have a mutating method called on them anywhere in the
        program: a table bound to such a name is not taken for a constant"""
        m = getattr(self.p, '_mutated_names_cache', None)
        if m is not None:
            return m
        m = set()

        def base_name(e):
            if isinstance(e, ast.Name):
                return e.id
            if isinstance(e, ast.Attribute):
                return e.attr
            return None
        for mod in self.p.modules.values():
            class_level = set()
            for n in ast.walk(mod.tree):
                if isinstance(n, ast.ClassDef):
                    for b in n.body:
                        if isinstance(b, ast.Assign):
                            class_level |= {id(t) for t in b.targets}
            top = {id(t) for b in mod.tree.body if isinstance(b, ast.Assign) for t in b.targets}
            for n in ast.walk(mod.tree):
                if isinstance(n, (ast.Subscript, ast.Attribute)) and isinstance(n.ctx, (ast.Store, ast.Del)):
                    if isinstance(n, ast.Subscript):
                        b = base_name(n.value)
                        if b:
                            m.add(b)
                    elif id(n) not in class_level:
                        m.add(n.attr)                       # obj.NAME = ... rebinds it
                elif isinstance(n, ast.AugAssign):
                    b = base_name(n.target)
                    if b:
                        m.add(b)
                elif isinstance(n, ast.Call) and isinstance(n.func, ast.Attribute) and n.func.attr in self.MUTATORS:
                    b = base_name(n.func.value)
                    if b:
                        m.add(b)
                elif isinstance(n, ast.Global):
                    m.update(n.names)
        self.p._mutated_names_cache = m
        return m

    def const_table(self, e, local):
        """the literal (Dict / Tuple / List node) an expression denotes at every evaluation: a display written in place, a
        module-level or class-level name bound once to a display and never stored through or mutated anywhere -> (node, from_module)"""
        if isinstance(e, (ast.Tuple, ast.List, ast.Dict)):
            return e, False
        if isinstance(e, ast.Name) and e.id not in local:
            v = self.mod.consts.get(e.id)
            if isinstance(v, (ast.Tuple, ast.List, ast.Dict)) and (isinstance(v, ast.Tuple) or e.id not in self._mutated_names()):
                return v, True
            return None
        if isinstance(e, ast.Name) and e.id not in _params(self.f.args):
            # a local bound once, at the top level of the function, to a display of constants / function references, and only ever
            # looked things up in (T[k], k in T, T.get(k)): a table, too
            defs = [st for st in self.f.body if isinstance(st, ast.Assign) and len(st.targets) == 1 and isinstance(st.targets[0], ast.Name)
                    and st.targets[0].id == e.id]
            if len(defs) != 1 or stores(self.f).get(e.id) != 1 or not isinstance(defs[0].value, (ast.Dict, ast.Tuple)):
                return None
            v = defs[0].value
            cells = (list(v.keys) + list(v.values)) if isinstance(v, ast.Dict) else list(v.elts)
            if any(c is None or not (self.stable_ref(c, local) or (isinstance(c, ast.Tuple) and all(self.stable_ref(x, local) for x in c.elts))) for c in cells):
                return None
            parents = {}
            for n in ast.walk(self.f):
                for c in ast.iter_child_nodes(n):
                    parents[id(c)] = n
            for n in ast.walk(self.f):
                if isinstance(n, ast.Name) and n.id == e.id and isinstance(n.ctx, ast.Load):
                    par = parents.get(id(n))
                    ok = (isinstance(par, ast.Subscript) and par.value is n and isinstance(par.ctx, ast.Load)) or \
                        (isinstance(par, ast.Compare) and n in par.comparators and all(isinstance(o, (ast.In, ast.NotIn)) for o in par.ops)) or \
                        (isinstance(par, ast.Attribute) and par.attr == 'get') or isinstance(par, ast.For) and par.iter is n
                    if not ok:
                        return None
            return v, False
        if isinstance(e, ast.Attribute) and isinstance(e.value, ast.Name):
            cq = None
            if e.value.id in ('self', 'cls') and e.value.id in _params(self.f.args)[:1] and not stores(self.f).get(e.value.id) and self.cls is not None:
                cq = self.cls.qn
            elif e.value.id not in local:
                sy = self.mod.syms.get(e.value.id)
                if sy is not None and sy.kind == 'class':
                    cq = sy.target
            if cq is None or e.attr in self._mutated_names():
                return None
            # the attribute as the class body binds it - once, to a display - in the first class of the MRO that has it; no
            # subclass and no instance rebinds it (that would be a store, seen by _mutated_names)
            for q in self.p.mro(cq):
                c = self.p.classes.get(q)
                if c is None:
                    return None
                hits = [b for b in c.node.body if isinstance(b, ast.Assign) and any(isinstance(t, ast.Name) and t.id == e.attr for t in b.targets)]
                if len(hits) == 1 and isinstance(hits[0].value, (ast.Tuple, ast.List, ast.Dict)):
                    if any(e.attr in {t.id for b in self.p.classes[sq].node.body if isinstance(b, ast.Assign) for t in b.targets if isinstance(t, ast.Name)}
                           for sq in self.p.subclasses(cq) if sq in self.p.classes):
                        return None
                    return hits[0].value, True
                if hits or e.attr in c.methods or e.attr in c.attrs_assigned:
                    return None
        return None

    def truthy_ref(self, e, local):
        """a reference to a function object (a module-level function, operator.X, a bound method, a lambda): true in a test"""
        return not _const(e) and not isinstance(e, (ast.Tuple, ast.List)) and self.stable_ref(e, local)

    def record_fields(self, e, local):
        """R(a, b, ...) where R = namedtuple('R', 'f g ...') is bound once at module level and every argument is a constant or a
        function reference -> {field: argument}"""
        if not (isinstance(e, ast.Call) and isinstance(e.func, ast.Name) and e.func.id not in local and not e.keywords
                and not any(isinstance(a, ast.Starred) for a in e.args)):
            return None
        d = self.mod.consts.get(e.func.id)
        if not (isinstance(d, ast.Call) and isinstance(d.func, (ast.Name, ast.Attribute)) and
                (d.func.id if isinstance(d.func, ast.Name) else d.func.attr) == 'namedtuple' and len(d.args) == 2 and not d.keywords
                and _const(d.args[0])):
            return None
        spec = d.args[1]
        if _const(spec) and isinstance(spec.value, str):
            fields = spec.value.replace(',', ' ').split()
        elif isinstance(spec, (ast.Tuple, ast.List)) and all(_const(x) and isinstance(x.value, str) for x in spec.elts):
            fields = [x.value for x in spec.elts]
        else:
            return None
        if len(fields) != len(e.args) or e.func.id in self._mutated_names():
            return None
        for a in e.args:
            if not (_const(a) or isinstance(a, ast.Lambda) or (isinstance(a, ast.Name) and self._module_callable(a.id, local)) or
                    (isinstance(a, ast.Attribute) and isinstance(a.value, ast.Name) and a.value.id == 'operator' and 'operator' not in local
                     and self._is_stdlib_operator())):
                return None
        return dict(zip(fields, e.args))

    def _is_stdlib_operator(self):
        s = self.mod.syms.get('operator')
        return s is not None and s.kind == 'ext' and s.target == 'operator'

    # ---- expression steps ----------------------------------------------------------------------------------------------------
    def fold_expr(self, e, local):
        me = self

        class T(ast.NodeTransformer):
            def visit_Compare(self, n):
                self.generic_visit(n)
                if len(n.ops) == 1 and isinstance(n.ops[0], (ast.Is, ast.IsNot)) and _const(n.comparators[0]) and n.comparators[0].value is None \
                        and me.truthy_ref(n.left, local):
                    me.changed = True
                    return ast.copy_location(ast.Constant(isinstance(n.ops[0], ast.IsNot)), n)       # a function object is not None
                if len(n.ops) == 1 and isinstance(n.ops[0], (ast.In, ast.NotIn)) and isinstance(n.comparators[0], ast.Name):
                    t = me.const_table(n.comparators[0], local)
                    if t is not None and isinstance(t[0], ast.Dict) and all(k is not None and _const(k) for k in t[0].keys):
                        me.changed = True
                        n.comparators[0] = ast.copy_location(ast.Tuple([copy.deepcopy(k) for k in t[0].keys], ast.Load()), n.comparators[0])
                        return self.visit_Compare(n) if _const(n.left) else n
                if len(n.ops) == 1 and _const(n.left):
                    r = n.comparators[0]
                    op = n.ops[0]
                    try:
                        if _const(r):
                            a, b = n.left.value, r.value
                            v = {ast.Eq: lambda: a == b, ast.NotEq: lambda: a != b, ast.Lt: lambda: a < b, ast.LtE: lambda: a <= b,
                                 ast.Gt: lambda: a > b, ast.GtE: lambda: a >= b,
                                 ast.Is: lambda: a is b if (a is None or b is None or isinstance(a, bool) or isinstance(b, bool)) else 1 / 0,
                                 ast.IsNot: lambda: a is not b if (a is None or b is None or isinstance(a, bool) or isinstance(b, bool)) else 1 / 0,
                                 ast.In: lambda: a in b, ast.NotIn: lambda: a not in b}[type(op)]()
                        elif _const_tuple(r) and isinstance(op, (ast.In, ast.NotIn)):
                            vals = [x.value for x in r.elts]
                            v = (n.left.value in vals) if isinstance(op, ast.In) else (n.left.value not in vals)
                        else:
                            return n
                    except Exception:
                        return n
                    me.changed = True
                    return ast.copy_location(ast.Constant(bool(v)), n)
                return n

            def visit_UnaryOp(self, n):
                self.generic_visit(n)
                if isinstance(n.op, ast.Not) and _const(n.operand):
                    me.changed = True
                    return ast.copy_location(ast.Constant(not n.operand.value), n)
                return n

            def visit_BoolOp(self, n):
                self.generic_visit(n)
                is_and = isinstance(n.op, ast.And)
                vals = []
                for i, v in enumerate(n.values):
                    last = i == len(n.values) - 1
                    if _const(v) and not last:
                        if bool(v.value) == is_and:
                            me.changed = True
                            continue                     # True and x -> x ; False or x -> x
                        me.changed = True
                        vals.append(v)                  # False and ... -> False ; True or ... -> True
                        break
                    vals.append(v)
                if len(vals) == 1:
                    return vals[0]
                n.values = vals
                return n

            def visit_Attribute(self, n):
                self.generic_visit(n)
                if isinstance(n.ctx, ast.Load):
                    rf = me.record_fields(n.value, local)
                    if rf is not None and n.attr in rf:
                        me.changed = True
                        return ast.copy_location(copy.deepcopy(rf[n.attr]), n)        # R(a, b).f is a
                return n

            def visit_Subscript(self, n):
                self.generic_visit(n)
                if not isinstance(n.ctx, ast.Load) or not _const(n.slice):
                    return n
                t = me.const_table(n.value, local)
                if t is None:
                    return n
                tab, from_module = t
                hit = None
                if isinstance(tab, ast.Dict):
                    for k, v in zip(tab.keys, tab.values):
                        if k is None or not _const(k):
                            return n
                        try:
                            if k.value == n.slice.value and type(k.value) is type(n.slice.value):
                                hit = v
                        except Exception:
                            return n
                elif isinstance(n.slice.value, int) and not isinstance(n.slice.value, bool) and -len(tab.elts) <= n.slice.value < len(tab.elts) \
                        and not any(isinstance(x, ast.Starred) for x in tab.elts):
                    hit = tab.elts[n.slice.value]
                if hit is None:
                    return n
                ok = me.stable_ref(hit, local) or (isinstance(hit, ast.Tuple) and hit.elts and all(me.stable_ref(x, local) for x in hit.elts))
                if not ok:
                    return n
                hit = copy.deepcopy(hit)
                if from_module:
                    for x in ast.walk(hit):
                        if isinstance(x, ast.Lambda):
                            x._from_module = True
                me.changed = True
                return ast.copy_location(hit, n)

            def visit_BinOp(self, n):
                self.generic_visit(n)
                if _const(n.left) and _const(n.right) and isinstance(n.left.value, str):
                    try:
                        if isinstance(n.op, ast.Add) and isinstance(n.right.value, str):
                            me.changed = True
                            return ast.copy_location(ast.Constant(n.left.value + n.right.value), n)
                        if isinstance(n.op, ast.Mod) and isinstance(n.right.value, (str, int)) and not isinstance(n.right.value, bool):
                            me.changed = True
                            return ast.copy_location(ast.Constant(n.left.value % n.right.value), n)
                    except Exception:
                        return n
                if isinstance(n.op, ast.Mod) and _const(n.left) and isinstance(n.left.value, str) and isinstance(n.right, ast.Tuple) \
                        and all(_const(x) and isinstance(x.value, (str, int)) and not isinstance(x.value, bool) for x in n.right.elts):
                    try:
                        me.changed = True
                        return ast.copy_location(ast.Constant(n.left.value % tuple(x.value for x in n.right.elts)), n)
                    except Exception:
                        return n
                return n

            def _comp(self, n):
                self.generic_visit(n)
                if len(n.generators) != 1 or n.generators[0].is_async:
                    return n
                g = n.generators[0]
                t = me.const_table(g.iter, local)
                if t is None or isinstance(t[0], ast.Dict):
                    return n
                tab, from_module = t
                tg = g.target
                names = [tg.id] if isinstance(tg, ast.Name) else [x.id for x in tg.elts] if isinstance(tg, (ast.Tuple, ast.List)) and \
                    all(isinstance(x, ast.Name) for x in tg.elts) else None
                if names is None or len(tab.elts) > 40:
                    return n
                rows = []
                for r in tab.elts:
                    if isinstance(tg, ast.Name):
                        vals = [r]
                    elif isinstance(r, (ast.Tuple, ast.List)) and len(r.elts) == len(names):
                        vals = list(r.elts)
                    else:
                        return n
                    if not all(_const(v) for v in vals):
                        return n          # (only constants: a row element is copied to each use of the loop variable)
                    rows.append(dict(zip(names, vals)))
                out_items = []
                for m in rows:
                    keep = True
                    for c in g.ifs:
                        c2 = me.fold_expr(Subst(m).visit(copy.deepcopy(c)), local)
                        if not _const(c2):
                            return n
                        keep = keep and bool(c2.value)
                    if not keep:
                        continue
                    if isinstance(n, ast.DictComp):
                        out_items.append((Subst(m).visit(copy.deepcopy(n.key)), Subst(m).visit(copy.deepcopy(n.value))))
                    else:
                        out_items.append(Subst(m).visit(copy.deepcopy(n.elt)))
                me.changed = True
                if isinstance(n, ast.DictComp):
                    # a later equal key replaces an earlier one in a comprehension and in a display alike
                    new = ast.Dict([k for k, _ in out_items], [v for _, v in out_items])
                elif isinstance(n, ast.ListComp):
                    new = ast.List(out_items, ast.Load())
                else:
                    return n
                return me.fold_expr(ast.copy_location(new, n), local)

            visit_ListComp = visit_DictComp = _comp

            def visit_IfExp(self, n):
                self.generic_visit(n)
                if _const(n.test):
                    me.changed = True
                    return n.body if n.test.value else n.orelse
                if me.truthy_ref(n.test, local):
                    me.changed = True
                    return n.body
                return n

            def visit_Call(self, n):
                self.generic_visit(n)
                fn = n.func
                if n.keywords or any(isinstance(a, ast.Starred) for a in n.args):
                    return n
                if isinstance(fn, ast.Attribute) and fn.attr == 'get' and 1 <= len(n.args) <= 2 and _const(n.args[0]) \
                        and (len(n.args) == 1 or me._pure(n.args[1], local)):
                    t = me.const_table(fn.value, local)
                    if t is not None and isinstance(t[0], ast.Dict) and all(k is not None and _const(k) for k in t[0].keys):
                        hit = None
                        try:
                            for k, v in zip(t[0].keys, t[0].values):
                                if k.value == n.args[0].value and type(k.value) is type(n.args[0].value):
                                    hit = v
                        except Exception:
                            return n
                        if hit is None:
                            me.changed = True
                            return ast.copy_location(copy.deepcopy(n.args[1]) if len(n.args) == 2 else ast.Constant(None), n)
                        if me.stable_ref(hit, local) or (isinstance(hit, ast.Tuple) and hit.elts and all(me.stable_ref(x, local) for x in hit.elts)):
                            hit = copy.deepcopy(hit)
                            if t[1]:
                                for x in ast.walk(hit):
                                    if isinstance(x, ast.Lambda):
                                        x._from_module = True
                            me.changed = True
                            return ast.copy_location(hit, n)
                    return n
                if isinstance(fn, ast.Attribute) and isinstance(fn.value, ast.Name) and fn.value.id == 'operator' \
                        and 'operator' not in local and me._is_stdlib_operator() and len(n.args) == 2:
                    if OPERATOR_CMP.get(fn.attr):
                        me.changed = True
                        return ast.copy_location(ast.Compare(n.args[0], [OPERATOR_CMP[fn.attr]()], [n.args[1]]), n)
                    if fn.attr in OPERATOR_BIN:
                        me.changed = True
                        return ast.copy_location(ast.BinOp(n.args[0], OPERATOR_BIN[fn.attr](), n.args[1]), n)
                r = me._helper(n, local)
                if r is not None:
                    h, binds, bound = r
                    hb = _strip_doc(h.node.body)
                    calls_nothing = hb and isinstance(hb[0], ast.Return) and hb[0].value is not None and \
                        not any(isinstance(x, (ast.Call, ast.Await, ast.Yield, ast.YieldFrom, ast.NamedExpr)) for x in ast.walk(hb[0].value))
                    if len(hb) == 1 and isinstance(hb[0], ast.Return) and hb[0].value is not None and not stores(h.node) \
                            and all(isinstance(a, (ast.Name, ast.Constant)) or me.stable_ref(a, local) or
                                    (calls_nothing and isinstance(a, ast.Attribute) and me._pure(a, local)) for _nm, a in binds):
                        # a helper that is one expression: written in place, wherever the call stands (its parameters are plain
                        # references here, so nothing is evaluated twice or out of turn)
                        body = copy.deepcopy(hb[0].value)
                        free = free_names(body) - {nm for nm, _a in binds} - ({h.posparams[0]} if bound and h.posparams else set())
                        is_local_fn = '.<locals>.' in h.qn and h.qn.rsplit('.<locals>.', 1)[0] == me.qn
                        if is_local_fn or not (free & local):      # (a local function reads the caller's own variables)
                            m = dict(binds)
                            if bound and h.posparams:
                                m[h.posparams[0]] = ast.Name('self', ast.Load())
                            body = Subst(m).visit(body)
                            me.changed = True
                            me.inlined += 1
                            me.via.append(h.qn)
                            return ast.copy_location(body, n)
                if isinstance(fn, ast.Name) and fn.id == 'getattr' and 'getattr' not in local and 'getattr' not in me.mod.syms and len(n.args) == 2 \
                        and _const(n.args[1]) and isinstance(n.args[1].value, str) and n.args[1].value.isidentifier() \
                        and not n.args[1].value.startswith('__'):
                    me.changed = True
                    return ast.copy_location(ast.Attribute(n.args[0], n.args[1].value, ast.Load()), n)
                if isinstance(fn, ast.IfExp) and me.truthy_ref(fn.body, local) and me.truthy_ref(fn.orelse, local) and \
                        all(me._pure(a, local) for a in n.args):
                    # (A if c else B)(args) is A(args) if c else B(args): the arguments are plain references
                    me.changed = True
                    new = ast.IfExp(fn.test, ast.Call(fn.body, [copy.deepcopy(a) for a in n.args], []),
                                    ast.Call(fn.orelse, [copy.deepcopy(a) for a in n.args], []))
                    return self.visit(ast.fix_missing_locations(ast.copy_location(new, n)))
                if isinstance(fn, ast.Lambda):
                    a = fn.args
                    if a.vararg or a.kwarg or a.kwonlyargs or a.defaults or len(a.args) + len(a.posonlyargs) != len(n.args):
                        return n
                    names = [x.arg for x in a.posonlyargs + a.args]
                    # an argument is copied to each use of its parameter: it must be a plain reference, or used exactly once
                    # as the first thing the body evaluates - we keep to plain references and constants
                    for nm, arg in zip(names, n.args):
                        if not (isinstance(arg, (ast.Name, ast.Constant)) or me.stable_ref(arg, local)):
                            return n
                    # the body's other free names are read from the scope the lambda was written in; when that is the
                    # module (a table entry) a local of the same name in this function would capture them
                    if getattr(fn, '_from_module', False) and (free_names(fn.body) - set(names)) & local:
                        return n
                    body = copy.deepcopy(fn.body)
                    s = Subst(dict(zip(names, n.args)))
                    body = s.visit(body)
                    me.changed = True
                    return ast.copy_location(body, n)
                return n
        return T().visit(e)

    # ---- statement steps -----------------------------------------------------------------------------------------------------
    def block(self, stmts, local):
        out = []
        for s in stmts:
            if isinstance(s, SCOPES):
                out.append(s)
                continue
            if isinstance(s, (ast.Assign, ast.Return, ast.Expr)) and s.value is not None:
                s.value = self.fold_expr(s.value, local)     # (a one-expression helper is written in place here, whole value or not)
            elif isinstance(s, ast.If):
                s.test = self.fold_expr(s.test, local)
            hoisted = self.hoist(s, local)
            if hoisted is not None:
                self.changed = True
                out.extend(self.block(hoisted, local))
                continue
            if isinstance(s, ast.If):
                s.test = self.fold_expr(s.test, local)
                s.body = self.block(s.body, local) or [ast.copy_location(ast.Pass(), s)]
                s.orelse = self.block(s.orelse, local)
                if _const(s.test):
                    self.changed = True
                    out.extend(s.body if s.test.value else s.orelse)
                    continue
                if self.truthy_ref(s.test, local):
                    self.changed = True
                    out.extend(s.body)
                    continue
                out.append(s)
                continue
            inl = self.inline_site(s, local)
            if inl is not None:
                self.changed = True
                out.extend(inl)
                continue
            if isinstance(s, ast.For):
                u = self.unroll(s, local)
                if u is not None:
                    self.changed = True
                    out.extend(self.block(u, local))
                    continue
                u = self.unroll_rows(s, local, out)
                if u is not None:
                    self.changed = True
                    out.extend(self.block(u, local))
                    continue
            for fld, val in ast.iter_fields(s):
                if isinstance(val, list) and val and isinstance(val[0], ast.stmt):
                    setattr(s, fld, self.block(val, local))
                elif isinstance(val, list) and val and isinstance(val[0], ast.ExceptHandler):
                    for h in val:
                        h.body = self.block(h.body, local)
                elif isinstance(val, ast.expr):
                    setattr(s, fld, self.fold_expr(val, local))
                elif isinstance(val, list) and val and isinstance(val[0], ast.expr) and fld != 'targets':
                    setattr(s, fld, [self.fold_expr(v, local) for v in val])
            out.append(s)
        # what follows a return / raise / break / continue in its own block is never run
        for k, st_ in enumerate(out):
            if isinstance(st_, (ast.Return, ast.Raise, ast.Break, ast.Continue)) and k + 1 < len(out):
                if getattr(self, 'gate_open', False) or self.via or self.inlined or not self.only_after_inlining:
                    out = out[:k + 1]
                    self.changed = True
                break
        # a lone `pass` left behind in a block that has other statements
        if len(out) > 1:
            out = [s for s in out if not isinstance(s, ast.Pass)] or out[:1]
        return out

    # ---- private helpers called as a whole statement ------------------------------------------------------------------------
    def _helper(self, call, local):
        fn = call.func
        if any(isinstance(a, ast.Starred) for a in call.args) or any(k.arg is None for k in call.keywords):
            return None
        h = None
        bound = False
        if isinstance(fn, ast.Attribute) and isinstance(fn.value, ast.Name) and fn.value.id == 'self' and 'self' in _params(self.f.args)[:1] \
                and self.cls is not None:
            h = self.p.lookup_method(self.cls.qn, fn.attr)
            bound = True
            # dynamic dispatch: the receiver may be an instance of a subclass that has its own method of this name
            if h is not None and any(fn.attr in self.p.classes[q].methods for q in self.p.subclasses(self.cls.qn) if q in self.p.classes):
                h = None
        elif isinstance(fn, ast.Name) and fn.id not in local:
            sy = self.mod.syms.get(fn.id)
            if sy is not None and sy.kind == 'func':
                h = self.p.funcs.get(sy.target)
        elif isinstance(fn, ast.Name):
            # a local function of this function: defined once in its body, before the call, and only ever called
            defs = [d for d in _own(self.f) if isinstance(d, ast.FunctionDef) and d.name == fn.id]
            if len(defs) == 1 and stores(self.f).get(fn.id) == 1 and self._defined_before(defs[0], call) and not defs[0].decorator_list \
                    and not defs[0].args.defaults and not defs[0].args.kw_defaults:
                refs = [n for n in ast.walk(self.f) if isinstance(n, ast.Name) and n.id == fn.id]
                called = {id(c.func) for c in ast.walk(self.f) if isinstance(c, ast.Call)}
                if all(id(n) in called for n in refs):
                    h = Func(self.qn + '.<locals>.' + fn.id, defs[0], self.mod)
        if h is not None and (h.vararg or h.kwarg) and not self._only_forwards(h):
            return None
        if h is None or not self.allow(h.qn) or h.name.startswith('__') or h.mod is not self.mod \
                or h.is_static or h.is_classmethod or getattr(h.node, 'decorator_list', None) or h.qn in self.stack:
            return None
        if self.inlined >= 12 or len(self.stack) >= 3:
            return None
        body = _strip_doc(h.node.body)
        if len(body) > 25 or any(isinstance(n, (ast.Yield, ast.YieldFrom, ast.Await, ast.Global, ast.Nonlocal)) for n in _own(h.node)):
            return None
        hown = set(stores(h.node)) | set(h.params)
        for n in _own(h.node):
            if isinstance(n, ast.Lambda) and not (free_names(n) & hown):
                continue                  # a lambda that reads nothing of the helper's: the same function wherever it is written
            if isinstance(n, SCOPES):
                return None               # closures over the helper's own locals: left alone
        pos = list(h.posparams)
        m = []
        if bound:
            if not pos:
                return None
            pos = pos[1:]
        if len(call.args) > len(pos) and not h.vararg:
            return None
        got = {}
        for nm, a in zip(pos, call.args):
            got[nm] = a
        extra_pos = list(call.args[len(pos):])
        extra_kw = []
        for k in call.keywords:
            if k.arg in got:
                return None
            if k.arg not in h.params:
                if not h.kwarg:
                    return None
                extra_kw.append(k)
                continue
            got[k.arg] = k.value
        # evaluation order: positional arguments, then keywords, as written; defaults are constants
        order = [nm for nm, _ in zip(pos, call.args)] + ['*%d' % i for i in range(len(extra_pos))] + [k.arg if k.arg in got else '**' + k.arg for k in call.keywords]
        for i, a in enumerate(extra_pos):
            got['*%d' % i] = a
        for k in extra_kw:
            got['**' + k.arg] = k.value
        for nm in h.params[1 if bound else 0:]:
            if nm not in got:
                d = h.defaults.get(nm)
                if d is None or not _const(d):
                    return None
                got[nm] = d
                order.append(nm)
        return h, [(nm, got[nm]) for nm in order], bound

    def _only_forwards(self, h):
        """*args / **kwargs of the helper are only ever handed on: f(*args, **kwargs)"""
        parents = {}
        for n in ast.walk(h.node):
            for c in ast.iter_child_nodes(n):
                parents[id(c)] = n
        for n in ast.walk(h.node):
            if isinstance(n, ast.Name) and n.id in (h.vararg, h.kwarg):
                par = parents.get(id(n))
                if n.id == h.vararg and isinstance(par, ast.Starred) and isinstance(parents.get(id(par)), ast.Call) and par in parents[id(par)].args \
                        and isinstance(n.ctx, ast.Load):
                    continue
                if n.id == h.kwarg and isinstance(par, ast.keyword) and par.arg is None and isinstance(n.ctx, ast.Load):
                    continue
                return False
        return True

    def _defined_before(self, d, call):
        """the call stands in a statement that follows the def in the def's own block (so the def has run whenever the call does)"""
        for owner in ast.walk(self.f):
            blocks = [getattr(owner, fld, None) for fld in ('body', 'orelse', 'finalbody')]
            blocks += [h.body for h in getattr(owner, 'handlers', []) or []]
            for blk in blocks:
                if isinstance(blk, list) and any(b is d for b in blk):
                    i = [k for k, b in enumerate(blk) if b is d][0]
                    return any(any(x is call for x in ast.walk(st)) for st in blk[i + 1:])
        return False

    def _pure(self, e, local):
        """evaluating it does nothing and cannot be affected by a call made in between: a constant, a name, an attribute chain of
        names, a stable reference, a display / arithmetic / comparison of such"""
        if isinstance(e, (ast.Constant, ast.Name)) or self.stable_ref(e, local):
            return True
        if isinstance(e, ast.Attribute):
            return self._pure(e.value, local)
        if isinstance(e, (ast.Tuple, ast.List)):
            return all(self._pure(x, local) for x in e.elts)
        if isinstance(e, ast.UnaryOp) and isinstance(e.op, ast.Not):
            return self._pure(e.operand, local)
        if isinstance(e, ast.Compare) and all(isinstance(o, (ast.Is, ast.IsNot)) for o in e.ops):
            return self._pure(e.left, local) and all(self._pure(c, local) for c in e.comparators)
        return False

    def _first_helper_call(self, e, local, pred=None):
        """the first call of a new helper the expression evaluates (or the first node satisfying `pred`), if everything evaluated
        before it is pure and it is evaluated unconditionally -> (parent node, field, index or None, node)"""
        found = []
        if pred is None:
            pred = lambda c: isinstance(c, ast.Call) and self._helper(c, local) is not None and \
                all(self._pure(a, local) for a in c.args) and all(self._pure(k.value, local) for k in c.keywords)

        def order(n):
            # children in evaluation order, with a flag: is the child evaluated whenever n is?
            if isinstance(n, ast.Call):
                return [(n, 'func', None, True)] + [(n, 'args', i, True) for i in range(len(n.args))] + \
                       [(k, 'value', None, True) for k in n.keywords]
            if isinstance(n, ast.Attribute):
                return [(n, 'value', None, True)]
            if isinstance(n, ast.Subscript):
                return [(n, 'value', None, True), (n, 'slice', None, True)]
            if isinstance(n, ast.BinOp):
                return [(n, 'left', None, True), (n, 'right', None, True)]
            if isinstance(n, ast.UnaryOp):
                return [(n, 'operand', None, True)]
            if isinstance(n, ast.Compare):
                return [(n, 'left', None, True), (n, 'comparators', 0, True)] + [(n, 'comparators', i, False) for i in range(1, len(n.comparators))]
            if isinstance(n, ast.BoolOp):
                return [(n, 'values', 0, True)] + [(n, 'values', i, False) for i in range(1, len(n.values))]
            if isinstance(n, ast.IfExp):
                return [(n, 'test', None, True), (n, 'body', None, False), (n, 'orelse', None, False)]
            if isinstance(n, (ast.Tuple, ast.List, ast.Set)):
                return [(n, 'elts', i, True) for i in range(len(n.elts))]
            if isinstance(n, ast.Dict):
                out = []
                for i in range(len(n.keys)):
                    if n.keys[i] is None:
                        return None
                    out += [(n, 'keys', i, True), (n, 'values', i, True)]
                return out
            if isinstance(n, ast.JoinedStr):
                return [(n, 'values', i, True) for i in range(len(n.values))]
            if isinstance(n, ast.FormattedValue):
                return [(n, 'value', None, True)]
            if isinstance(n, (ast.Constant, ast.Name)):
                return []
            return None            # anything else (comprehension, lambda, starred, await, walrus ...): not entered

        def get(parent, fld, idx):
            v = getattr(parent, fld)
            return v[idx] if idx is not None else v

        def walk(n):
            """-> 'found' | 'pure' | 'stop'"""
            ch = order(n)
            if ch is None:
                return 'stop'
            for parent, fld, idx, always in ch:
                c = get(parent, fld, idx)
                if isinstance(c, ast.keyword):
                    continue
                if not always:
                    # evaluated only sometimes: nothing in it may be hoisted, and nothing after it either unless it is pure
                    if not self._pure(c, local):
                        return 'stop'
                    continue
                if pred(c):
                    found.append((parent, fld, idx, c))
                    return 'found'
                r = walk(c)
                if r != 'pure':
                    return r
            if isinstance(n, ast.Call):
                return 'stop'        # a call that is not a helper: it may do anything; what follows it must stay where it is
            if isinstance(n, (ast.Subscript, ast.BinOp, ast.Compare)) and not self._pure(n, local):
                return 'stop'        # may run user code (__getitem__, __add__, __eq__): order matters after it
            return 'pure'
        r = walk(e) if not (isinstance(e, ast.Call) and self._helper(e, local) is not None and pred is None) else 'stop'
        return found[0] if found else None

    def hoist(self, s, local):
        """a helper call in the middle of `x = ...`, `return ...`, `<expr>` or the test of an `if`, evaluated first and always:
        bound to a fresh local just before the statement (where inline_site then reads the helper in place)"""
        if isinstance(s, (ast.Assign, ast.Return, ast.Expr)):
            root, fld = s, 'value'
        elif isinstance(s, ast.AugAssign) and isinstance(s.target, ast.Name):
            root, fld = s, 'value'           # x += E: x is a local, nothing E does can change what was read from it
        elif isinstance(s, ast.If):
            root, fld = s, 'test'
        else:
            return None
        e = getattr(root, fld)
        if e is None or self.inlined >= 12:
            return None
        whole = isinstance(s, (ast.If, ast.AugAssign))
        if isinstance(e, ast.Call) and self._helper(e, local) is not None and not whole:
            return None                      # the whole value: inline_site's business
        if isinstance(e, ast.Call) and self._helper(e, local) is not None and whole:
            parent, f2, idx, call = root, fld, None, e
        else:
            hit = self._first_helper_call(e, local)
            if hit is None:
                return None
            parent, f2, idx, call = hit
        self.hoisted = getattr(self, 'hoisted', 0) + 1
        tmp = 'value__h%d' % self.hoisted
        while tmp in local or any(isinstance(n, ast.Name) and n.id == tmp for n in ast.walk(self.f)):
            self.hoisted += 1
            tmp = 'value__h%d' % self.hoisted
        name = ast.copy_location(ast.Name(tmp, ast.Load()), call)
        if idx is None:
            setattr(parent, f2, name)
        else:
            getattr(parent, f2)[idx] = name
        a = ast.copy_location(ast.Assign([ast.Name(tmp, ast.Store())], call), s)
        ast.fix_missing_locations(a)
        return [a, s]

    def inline_site(self, s, local):
        """`self._h(args)` / `x = self._h(args)` / `return self._h(args)` as a whole statement -> the helper's body in place"""
        if isinstance(s, ast.Expr) and isinstance(s.value, ast.Call):
            call, how = s.value, 'expr'
        elif isinstance(s, ast.Assign) and isinstance(s.value, ast.Call):
            call, how = s.value, 'assign'
        elif isinstance(s, ast.Return) and isinstance(s.value, ast.Call):
            call, how = s.value, 'return'
        else:
            return None
        r = self._helper(call, local)
        if r is None:
            return None
        h, binds, bound = r
        hnode = copy.deepcopy(h.node)
        body = _strip_doc(hnode.body)
        rets = [n for n in _own(hnode) if isinstance(n, ast.Return)]
        tail = body[-1] if body and isinstance(body[-1], ast.Return) else None
        tree = None
        if how != 'return' and any(x is not tail for x in rets):
            # returns in the middle: when they sit in if / else arms only (not in loops, try or with), the body is rewritten so
            # that each return becomes the end of its arm - `if c: return a` + rest  ->  `if c: <a> else: rest`
            tree = _returns_to_arms(body)
            if tree is None:
                return None
        if how == 'assign' and tree is None and (tail is None or tail.value is None):
            return None
        hstores = stores(hnode)
        hlocals = set(hstores) - set(h.params)
        # names of the caller the helper's own locals (and rebound parameters) would collide with
        caller_names = set(local) | {n.id for n in ast.walk(self.f) if isinstance(n, ast.Name)}
        self.inlined += 1
        k = self.inlined
        helper_names = {n.id for n in ast.walk(hnode) if isinstance(n, ast.Name)} | set(h.params)
        taken = set(caller_names) | helper_names

        def fresh(base):
            i = k
            while '%s__%d' % (base, i) in taken:
                i += 1
            taken.add('%s__%d' % (base, i))
            return '%s__%d' % (base, i)
        ren = {}
        for nm in sorted(hlocals):
            if nm in caller_names:
                ren[nm] = fresh(nm)
        pre = []
        sub = {}
        star, dstar = [], []
        for nm, arg in binds:
            if nm.startswith('*'):
                simple = isinstance(arg, (ast.Name, ast.Constant)) or self.stable_ref(arg, local)
                if simple:
                    val = copy.deepcopy(arg)
                else:
                    tmp = fresh('arg')
                    pre.append(ast.copy_location(ast.Assign([ast.Name(tmp, ast.Store())], copy.deepcopy(arg)), s))
                    pre[-1]._temp = True
                    val = ast.Name(tmp, ast.Load())
                if nm.startswith('**'):
                    dstar.append(ast.keyword(nm[2:], val))
                else:
                    star.append(val)
                continue
            simple = isinstance(arg, (ast.Name, ast.Constant)) or self.stable_ref(arg, local) or \
                (isinstance(arg, ast.Tuple) and arg.elts and all(isinstance(e, (ast.Name, ast.Constant)) or self.stable_ref(e, local) for e in arg.elts))
            if simple and not hstores.get(nm) and not (isinstance(arg, ast.Name) and arg.id in hlocals and arg.id not in ren):
                sub[nm] = arg
            else:
                tmp = nm if (nm not in caller_names and nm not in hlocals) else fresh(nm)
                ren[nm] = tmp
                pre.append(ast.copy_location(ast.Assign([ast.Name(tmp, ast.Store())], copy.deepcopy(arg)), s))
                pre[-1]._temp = True
        if ren:
            seen_ids = set()
            for root in [hnode] + list(tree or []):
                for n in ast.walk(root):
                    if isinstance(n, ast.Name) and n.id in ren and id(n) not in seen_ids:
                        seen_ids.add(id(n))
                        n.id = ren[n.id]
                    elif isinstance(n, ast.ExceptHandler) and n.name in ren and id(n) not in seen_ids:
                        seen_ids.add(id(n))
                        n.name = ren[n.name]
        if h.vararg or h.kwarg:
            class Splice(ast.NodeTransformer):
                def visit_Call(self2, n):
                    self2.generic_visit(n)
                    args = []
                    for a in n.args:
                        if isinstance(a, ast.Starred) and isinstance(a.value, ast.Name) and a.value.id == ren.get(h.vararg, h.vararg) and h.vararg:
                            args += [copy.deepcopy(x) for x in star]
                        else:
                            args.append(a)
                    kws = []
                    for k in n.keywords:
                        if k.arg is None and isinstance(k.value, ast.Name) and h.kwarg and k.value.id == ren.get(h.kwarg, h.kwarg):
                            kws += [copy.deepcopy(x) for x in dstar]
                        else:
                            kws.append(k)
                    n.args, n.keywords = args, kws
                    return n
            for root in ([hnode] + list(tree or [])):
                Splice().visit(root)
        if tree is not None:
            res = fresh('result')
            tg = s.targets[0] if how == 'assign' and len(s.targets) == 1 else None
            direct = None
            if isinstance(tg, ast.Name):
                direct = tg
            elif isinstance(tg, (ast.Tuple, ast.List)) and tg.elts and all(isinstance(e, ast.Name) for e in tg.elts):
                rv = [n.value for st_ in tree for n in ast.walk(st_) if isinstance(n, ast.Return)]
                if rv and all(isinstance(v, ast.Tuple) and len(v.elts) == len(tg.elts) and not any(isinstance(e, ast.Starred) for e in v.elts) for v in rv):
                    direct = tg
            # the names being bound must not be read by the helper's own code under another meaning
            if direct is not None:
                tnames = {e.id for e in ([direct] if isinstance(direct, ast.Name) else direct.elts)}
                if tnames & {ren.get(x, x) for x in helper_names}:
                    direct = None
            body = _arms_to_assign([Subst(sub).visit(b) for b in tree], (direct if direct is not None else res) if how == 'assign' else None)
            out = pre + body
            if how == 'assign' and direct is None:
                out.append(ast.copy_location(ast.Assign(s.targets, ast.Name(res, ast.Load())), s))
                out[-1]._temp_use = True
            for st in out:
                ast.fix_missing_locations(st)
                for n in ast.walk(st):
                    n._via_helper = h.qn
            self.via.append(h.qn)
            return out
        body = [Subst(sub).visit(b) for b in body]
        out = pre
        if how == 'return':
            out = out + body
            if not body or not isinstance(body[-1], (ast.Return, ast.Raise)):
                out.append(ast.copy_location(ast.Return(ast.Constant(None)), s))
        elif how == 'expr':
            if tail is not None:
                body = body[:-1] + ([ast.copy_location(ast.Expr(tail.value), tail)] if tail.value is not None and not isinstance(tail.value, (ast.Name, ast.Constant)) else [])
            out = out + body
        else:
            out = out + body[:-1] + [ast.copy_location(ast.Assign(s.targets, tail.value), s)]
        for st in out:
            for n in ast.walk(st):
                n._via_helper = h.qn
        self.via.append(h.qn)
        return out or [ast.copy_location(ast.Pass(), s)]

    def dispatch_to_chain(self, stmts, local):
        """x = TABLE[E] with E a plain reference and TABLE a constant table of function references: the if / elif chain that picks
        the entry (keys with the same entry grouped), ending in `raise KeyError(E)`"""
        for i, st in enumerate(stmts):
            tab_e = key_e = None
            default = 'raise'
            if isinstance(st, ast.Assign) and len(st.targets) == 1 and isinstance(st.targets[0], ast.Name):
                v_ = st.value
                if isinstance(v_, ast.Subscript) and not _const(v_.slice) and self._pure(v_.slice, local):
                    tab_e, key_e = v_.value, v_.slice
                elif isinstance(v_, ast.Call) and isinstance(v_.func, ast.Attribute) and v_.func.attr == 'get' and not v_.keywords and \
                        1 <= len(v_.args) <= 2 and not _const(v_.args[0]) and self._pure(v_.args[0], local) and \
                        (len(v_.args) == 1 or _const(v_.args[1]) or self.stable_ref(v_.args[1], local)):
                    tab_e, key_e = v_.func.value, v_.args[0]
                    default = v_.args[1] if len(v_.args) == 2 else ast.Constant(None)
            if tab_e is not None:
                t = self.const_table(tab_e, local)
                if t is not None and isinstance(t[0], ast.Dict) and 1 <= len(t[0].keys) <= 12 and \
                        all(k is not None and _const(k) and isinstance(k.value, (str, int)) for k in t[0].keys) and \
                        all(self.stable_ref(v, local) for v in t[0].values):
                    groups = []
                    for k, v in zip(t[0].keys, t[0].values):
                        d = ast.dump(v)
                        for g in groups:
                            if g[0] == d:
                                g[2].append(k)
                                break
                        else:
                            groups.append([d, v, [k]])
                    E = key_e
                    if default == 'raise':
                        chain = [ast.copy_location(ast.Raise(ast.Call(ast.Name('KeyError', ast.Load()), [copy.deepcopy(E)], []), None), st)]
                    else:
                        chain = [ast.copy_location(ast.Assign([copy.deepcopy(st.targets[0])], copy.deepcopy(default)), st)]
                    for d, v, ks in reversed(groups):
                        if len(ks) == 1:
                            test = ast.Compare(copy.deepcopy(E), [ast.Eq()], [copy.deepcopy(ks[0])])
                        else:
                            test = ast.Compare(copy.deepcopy(E), [ast.In()], [ast.Tuple([copy.deepcopy(k) for k in ks], ast.Load())])
                        val = copy.deepcopy(v)
                        if t[1]:
                            for x in ast.walk(val):
                                if isinstance(x, ast.Lambda):
                                    x._from_module = True
                        chain = [ast.copy_location(ast.If(test, [ast.copy_location(ast.Assign([copy.deepcopy(st.targets[0])], val), st)], chain), st)]
                    ast.fix_missing_locations(chain[0])
                    stmts[i:i + 1] = chain
                    self.changed = True
                    return True
            for fld, val in ast.iter_fields(st):
                if isinstance(val, list) and val and isinstance(val[0], ast.stmt) and not isinstance(st, SCOPES):
                    if self.dispatch_to_chain(val, local):
                        return True
                elif isinstance(val, list) and val and isinstance(val[0], ast.ExceptHandler):
                    for hd in val:
                        if self.dispatch_to_chain(hd.body, local):
                            return True
        return False

    def sink_into_arms(self, stmts):
        """if / elif / else every arm of which ends by giving one of our fresh locals a constant, followed by statements that use it:
        those statements (up to the last use; at most three) are repeated at the end of each arm, where the local's value is known"""
        for i, st in enumerate(stmts):
            if isinstance(st, ast.If) and i + 1 < len(stmts):
                arms = []

                def collect(n):
                    arms.append(n.body)
                    if len(n.orelse) == 1 and isinstance(n.orelse[0], ast.If):
                        collect(n.orelse[0])
                    else:
                        arms.append(n.orelse)
                collect(st)
                # arms that never reach what follows (they end in raise / return) take no copy
                arms = [a for a in arms if not (a and isinstance(a[-1], (ast.Raise, ast.Return)))]
                lcl = set(stores(self.f)) | set(_params(self.f.args))

                def cheap(e):
                    # a comparison of plain references with constants: nothing happens when it is evaluated
                    return isinstance(e, ast.Compare) and self._pure(e.left, lcl) and all(_const(c) for c in e.comparators)
                simple_use = False
                if i + 1 < len(stmts):
                    nx = stmts[i + 1]
                    tst = nx.test if isinstance(nx, ast.If) else nx.value if isinstance(nx, (ast.Assign, ast.Return)) else None
                    if isinstance(tst, ast.UnaryOp) and isinstance(tst.op, ast.Not):
                        tst = tst.operand
                    simple_use = isinstance(tst, ast.Name)
                if 1 <= len(arms) <= 8 and all(a and isinstance(a[-1], ast.Assign) and len(a[-1].targets) == 1 and isinstance(a[-1].targets[0], ast.Name)
                                              and (_const(a[-1].value) or self.stable_ref(a[-1].value, lcl) or (simple_use and cheap(a[-1].value)))
                                              for a in arms):
                    t = arms[0][-1].targets[0].id
                    n_stores = sum(1 for n in ast.walk(self.f) if isinstance(n, ast.Name) and n.id == t and isinstance(n.ctx, (ast.Store, ast.Del)))
                    if t not in _params(self.f.args) and n_stores == len(arms) and all(a[-1].targets[0].id == t for a in arms):
                        rest = stmts[i + 1:]
                        uses = [j for j, r in enumerate(rest) if any(isinstance(n, ast.Name) and n.id == t for n in ast.walk(r))]
                        later_stores = any(isinstance(n, ast.Name) and n.id == t and isinstance(n.ctx, ast.Store) for r in rest for n in ast.walk(r))
                        everywhere = [n for n in ast.walk(self.f) if isinstance(n, ast.Name) and n.id == t and isinstance(n.ctx, ast.Load)]
                        inside = [n for r in rest for n in ast.walk(r) if isinstance(n, ast.Name) and n.id == t and isinstance(n.ctx, ast.Load)]
                        has_cheap = any(not (_const(a[-1].value) or self.stable_ref(a[-1].value, lcl)) for a in arms)
                        if has_cheap and not (uses == [0] and len(inside) == 1 and simple_use):
                            continue
                        # (statements that return / break / continue are repeated like any other: S(t) after the chain is S(v) in each arm)
                        if uses and uses[-1] <= 3 and not later_stores and len(everywhere) == len(inside):
                            moved = rest[:uses[-1] + 1]
                            for a in arms:
                                c = a[-1].value
                                a.pop()
                                a.extend(Subst({t: c}).visit(copy.deepcopy(m)) for m in moved)
                            del stmts[i + 1:i + 2 + uses[-1]]
                            self.changed = True
                            return True
            for fld, val in ast.iter_fields(st):
                if isinstance(val, list) and val and isinstance(val[0], ast.stmt) and not isinstance(st, SCOPES):
                    if self.sink_into_arms(val):
                        return True
                elif isinstance(val, list) and val and isinstance(val[0], ast.ExceptHandler):
                    for hd in val:
                        if self.sink_into_arms(hd.body):
                            return True
        return False

    def propagate_in_block(self, stmts, local):
        """`x = <constant or function reference>` : in the statements that follow in the same block, up to the next binding of x, x
        is written as what it is bound to"""
        for i, st in enumerate(stmts):
            choice = isinstance(st, ast.Assign) and isinstance(st.value, ast.IfExp) and self.truthy_ref(st.value.body, local) and \
                self.truthy_ref(st.value.orelse, local) and isinstance(st.value.test, ast.Compare) and self._pure(st.value.test.left, local) and \
                all(_const(c) for c in st.value.test.comparators) and len(st.targets) == 1 and isinstance(st.targets[0], ast.Name) and \
                i + 1 < len(stmts) and sum(1 for n in ast.walk(self.f) if isinstance(n, ast.Name) and n.id == st.targets[0].id) == 2 and \
                sum(1 for n in ast.walk(stmts[i + 1]) if isinstance(n, ast.Name) and n.id == st.targets[0].id and isinstance(n.ctx, ast.Load)) == 1 and \
                not any(isinstance(n, SCOPES + COMPS + (ast.For, ast.While)) for n in ast.walk(stmts[i + 1]))
            if choice:
                # f = A if <plain comparison> else B, used once in the next statement: written there (the comparison of a plain
                # reference with a constant can be made a little later without anything noticing)
                x = st.targets[0].id
                stmts[i + 1] = Subst({x: st.value}).visit(stmts[i + 1])
                del stmts[i]
                self.changed = True
                return True
            if isinstance(st, ast.Assign) and len(st.targets) == 1 and isinstance(st.targets[0], ast.Name) and \
                    (self.stable_ref(st.value, local)) and st.targets[0].id not in _params(self.f.args):
                x = st.targets[0].id
                if isinstance(st.value, ast.Name) and st.value.id == x:
                    continue
                did = False
                for nxt in stmts[i + 1:]:
                    stores_x = any(isinstance(n, ast.Name) and n.id == x and isinstance(n.ctx, (ast.Store, ast.Del)) for n in ast.walk(nxt))
                    loads = [n for n in ast.walk(nxt) if isinstance(n, ast.Name) and n.id == x and isinstance(n.ctx, ast.Load)]
                    if stores_x or any(isinstance(n, SCOPES + COMPS) for n in ast.walk(nxt) if n is not nxt) and loads:
                        break
                    if loads:
                        sub = Subst({x: st.value})
                        idx = stmts.index(nxt)
                        stmts[idx] = sub.visit(nxt)
                        did = did or sub.count > 0
                if did:
                    self.changed = True
                    return True
            for fld, val in ast.iter_fields(st):
                if isinstance(val, list) and val and isinstance(val[0], ast.stmt) and not isinstance(st, SCOPES):
                    if self.propagate_in_block(val, local):
                        return True
                elif isinstance(val, list) and val and isinstance(val[0], ast.ExceptHandler):
                    for hd in val:
                        if self.propagate_in_block(hd.body, local):
                            return True
        return False

    def drop_dead_stores(self, local):
        """`x = <constant or function reference>` where x is read nowhere in the function"""
        loaded = {n.id for n in ast.walk(self.f) if isinstance(n, ast.Name) and isinstance(n.ctx, (ast.Load, ast.Del))}
        loaded |= {n.target.id for n in ast.walk(self.f) if isinstance(n, ast.AugAssign) and isinstance(n.target, ast.Name)}   # x += 1 reads x
        params = set(_params(self.f.args))
        did = False
        for st in list(ast.walk(self.f)):
            if isinstance(st, ast.Assign) and len(st.targets) == 1 and isinstance(st.targets[0], ast.Name) and st.targets[0].id not in loaded \
                    and st.targets[0].id not in params and (self.stable_ref(st.value, local) or self._const_display(st.value, local)) and not any(
                        isinstance(n, (ast.Global, ast.Nonlocal)) and st.targets[0].id in n.names for n in ast.walk(self.f)):
                self._drop(st)
                did = True
        if did:
            self.changed = True
        return did

    def _const_display(self, v, local):
        if isinstance(v, ast.Dict):
            return all(k is not None and self.stable_ref(k, local) for k in v.keys) and all(self.stable_ref(x, local) for x in v.values)
        if isinstance(v, (ast.Tuple, ast.List)):
            return all(self.stable_ref(x, local) or self._const_display(x, local) for x in v.elts)
        return False

    def rename_copied_temps(self):
        """`x = t` (or `a, b = (t, u)`) where t is one of our fresh locals read nowhere else and x is bound nowhere else: t is
        simply called x from the start"""
        counts = stores(self.f)
        params = set(_params(self.f.args))
        names = [n for n in ast.walk(self.f) if isinstance(n, ast.Name)]
        for st in ast.walk(self.f):
            if not (isinstance(st, ast.Assign) and len(st.targets) == 1):
                continue
            tg, val = st.targets[0], st.value
            if isinstance(tg, ast.Name) and isinstance(val, ast.Name):
                pairs = [(tg.id, val.id)]
            elif isinstance(tg, (ast.Tuple, ast.List)) and isinstance(val, (ast.Tuple, ast.List)) and len(tg.elts) == len(val.elts) and tg.elts \
                    and all(isinstance(a, ast.Name) and isinstance(b, ast.Name) for a, b in zip(tg.elts, val.elts)):
                pairs = [(a.id, b.id) for a, b in zip(tg.elts, val.elts)]
            else:
                continue
            if len({x for x, _ in pairs}) != len(pairs) or len({t for _, t in pairs}) != len(pairs):
                continue
            order = {id(n): i for i, n in enumerate(ast.walk(self.f))}
            # ast.walk is breadth-first: use a depth-first numbering instead
            order = {}

            def number(n):
                order[id(n)] = len(order)
                for c in ast.iter_child_nodes(n):
                    number(c)
            number(self.f)
            ok = True
            for x, t in pairs:
                # t is one of our fresh locals, bound only before the copy; x is bound only by the copy: from its first binding on t
                # can simply be called x
                t_stores = [n for n in names if n.id == t and isinstance(n.ctx, (ast.Store, ast.Del))]
                if not ('__' in t and t not in params and x not in params and counts.get(x) == 1 and t_stores
                        and all(order[id(n)] < order[id(st)] for n in t_stores)):
                    ok = False
                # (in a loop the next pass binds t again before the copy: x, bound only by the copy, must not be looked at ahead of it)
                if any(n.id == x and isinstance(n.ctx, ast.Load) and order[id(n)] < order[id(st)] for n in names):
                    ok = False
            if not ok:
                continue
            m = dict((t, x) for x, t in pairs)
            for n in names:
                if n.id in m:
                    n.id = m[n.id]
            # the copy itself is now x = x
            self._drop(st)
            self.changed = True
            return True
        return False

    def _drop(self, st):
        for owner in ast.walk(self.f):
            for fld in ('body', 'orelse', 'finalbody'):
                blk = getattr(owner, fld, None)
                if isinstance(blk, list) and any(b is st for b in blk):
                    blk[:] = [b for b in blk if b is not st] or [ast.copy_location(ast.Pass(), st)]
                    return
            if isinstance(owner, ast.Try):
                for hd in owner.handlers:
                    if any(b is st for b in hd.body):
                        hd.body[:] = [b for b in hd.body if b is not st] or [ast.copy_location(ast.Pass(), st)]
                        return

    def forward_temps(self, stmts):
        """`t = E` directly followed by `X = t` / `return t` where t is read nowhere else: the value is written in place (an
        assignment evaluates its right-hand side first, so nothing is reordered)"""
        for i in range(len(stmts) - 1):
            a, b = stmts[i], stmts[i + 1]
            if not (isinstance(a, ast.Assign) and len(a.targets) == 1 and isinstance(a.targets[0], ast.Name) and '__' in a.targets[0].id or
                    (isinstance(a, ast.Assign) and len(a.targets) == 1 and isinstance(a.targets[0], ast.Name) and getattr(a, '_temp', False))):
                continue
            t = a.targets[0].id
            uses = [n for n in ast.walk(self.f) if isinstance(n, ast.Name) and n.id == t]
            if len(uses) != 2:
                continue
            if isinstance(b, (ast.Assign, ast.Return)) and isinstance(b.value, ast.Name) and b.value.id == t:
                b.value = a.value
                del stmts[i]
                self.changed = True
                return True
            # ... or is the first thing the next statement evaluates that is not a plain reference
            if isinstance(b, (ast.Assign, ast.Return, ast.Expr)) and b.value is not None and not isinstance(b.value, ast.Name):
                lcl = set(stores(self.f)) | set(_params(self.f.args))
                hit = self._first_helper_call(b.value, lcl, pred=lambda c: isinstance(c, ast.Name) and c.id == t)
                if hit is not None:
                    parent, fld, idx, node = hit
                    if idx is None:
                        setattr(parent, fld, a.value)
                    else:
                        getattr(parent, fld)[idx] = a.value
                    del stmts[i]
                    self.changed = True
                    return True
            # ... or is the function the next statement calls (the callee is evaluated before its arguments)
            if isinstance(b, (ast.Assign, ast.Return, ast.Expr)) and isinstance(b.value, ast.Call) and isinstance(b.value.func, ast.Name) \
                    and b.value.func.id == t:
                b.value.func = a.value
                del stmts[i]
                self.changed = True
                return True
        for st in stmts:
            for fld, val in ast.iter_fields(st):
                if isinstance(val, list) and val and isinstance(val[0], ast.stmt) and not isinstance(st, SCOPES):
                    if self.forward_temps(val):
                        return True
                elif isinstance(val, list) and val and isinstance(val[0], ast.ExceptHandler):
                    for hd in val:
                        if self.forward_temps(hd.body):
                            return True
        return False

    def _calls_new_helper(self):
        counts = stores(self.f)
        local = set(counts) | set(_params(self.f.args))
        vocab = vocabulary()
        for st in ast.walk(self.f):
            if isinstance(st, ast.Call) and self._helper(st, local) is not None:
                return True
            # or mentions a new function as a value (a dispatch table of bound methods, a strategy handed on)
            if isinstance(st, ast.Attribute) and isinstance(st.ctx, ast.Load) and isinstance(st.value, ast.Name) and st.value.id == 'self' \
                    and self.cls is not None:
                hm = self.p.lookup_method(self.cls.qn, st.attr)
                if hm is not None and self.allow(hm.qn) and hm.mod is self.mod:
                    return True
            if isinstance(st, ast.Name) and isinstance(st.ctx, ast.Load) and st.id not in local:
                sy = self.mod.syms.get(st.id)
                if sy is not None and sy.kind == 'func' and self.allow(sy.target) and sy.target in dict.keys(self.p.funcs) \
                        and self.p.funcs[sy.target].mod is self.mod:
                    return True
            # or reads a table that is new: code replaced by a lookup
            if isinstance(st, ast.Name) and isinstance(st.ctx, ast.Load) and st.id not in local and st.id in self.mod.consts \
                    and 'const:%s.%s' % (self.mod.name, st.id) not in vocab and self.const_table(st, local) is not None:
                self.via.append('%s.%s' % (self.mod.name, st.id))
                return True
            if isinstance(st, ast.Attribute) and isinstance(st.ctx, ast.Load) and isinstance(st.value, ast.Name) and st.attr.isupper() \
                    and self.const_table(st, local) is not None:
                owner = None
                cq = self.cls.qn if (self.cls is not None and st.value.id in ('self', 'cls')) else None
                if cq is None:
                    sy = self.mod.syms.get(st.value.id)
                    cq = sy.target if sy is not None and sy.kind == 'class' else None
                for q in (self.p.mro(cq) if cq else ()):
                    c = self.p.classes.get(q)
                    if c is not None and any(isinstance(b, ast.Assign) and any(isinstance(t, ast.Name) and t.id == st.attr for t in b.targets) for b in c.node.body):
                        owner = q
                        break
                if owner and 'const:%s.%s' % (owner, st.attr) not in vocab:
                    self.via.append('%s.%s' % (owner, st.attr))
                    return True
        return False

    def _table(self, it, local, stmts_before):
        """the literal rows `it` iterates over: [(element, ...)] and whether it is a module-level table"""
        if isinstance(it, ast.Call) and isinstance(it.func, ast.Attribute) and it.func.attr == 'items' and not it.args and not it.keywords:
            d = self._table_value(it.func.value, local)
            if d is not None and isinstance(d[0], ast.Dict) and all(k is not None for k in d[0].keys):
                return [(k, v) for k, v in zip(d[0].keys, d[0].values)], d[1]
            return None
        d = self._table_value(it, local)
        if d is None or not isinstance(d[0], (ast.Tuple, ast.List)):
            return None
        rows = []
        for r in d[0].elts:
            if not isinstance(r, (ast.Tuple, ast.List)):
                return None
            rows.append(tuple(r.elts))
        return rows, d[1]

    def _table_value(self, e, local):
        return self.const_table(e, local)

    def unroll(self, s, local):
        """for TARGETS in TABLE: if TEST: BODY; break   [else: ELSE]   ->   if TEST1: BODY1 elif TEST2: BODY2 ... else: ELSE"""
        if not (len(s.body) == 1 and isinstance(s.body[0], ast.If) and not s.body[0].orelse):
            return None
        inner = s.body[0]
        if not inner.body or not isinstance(inner.body[-1], (ast.Break, ast.Return)):
            return None
        ends_in_break = isinstance(inner.body[-1], ast.Break)
        for n in ast.walk(inner):
            if isinstance(n, (ast.Continue,)) or (isinstance(n, ast.Break) and n is not inner.body[-1]):
                return None
            if isinstance(n, (ast.For, ast.While)):
                return None
        t = self._table(s.iter, local, None)
        if t is None:
            return None
        rows, from_module = t
        if not rows:
            return None
        tg = s.target
        names = [tg.id] if isinstance(tg, ast.Name) else [e.id for e in tg.elts] if isinstance(tg, (ast.Tuple, ast.List)) and \
            all(isinstance(e, ast.Name) for e in tg.elts) else None
        if names is None:
            return None
        # the loop variables must not be looked at once the loop is over
        for n in _own(self.f):
            if isinstance(n, ast.Name) and n.id in names and not any(n is x for x in ast.walk(s)):
                return None
        chain = None
        for row in reversed(rows):
            if isinstance(tg, ast.Name):
                return None
            if len(row) != len(names):
                return None
            for e in row:
                if not self.stable_ref(e, local):
                    return None
            m = {}
            for nm, e in zip(names, row):
                e = copy.deepcopy(e)
                if from_module:
                    for x in ast.walk(e):
                        if isinstance(x, ast.Lambda):
                            x._from_module = True
                m[nm] = e
            test = Subst(m).visit(copy.deepcopy(inner.test))
            body = [Subst(m).visit(copy.deepcopy(b)) for b in (inner.body[:-1] if ends_in_break else inner.body)]
            if not body:
                body = [ast.copy_location(ast.Pass(), inner)]
            node = ast.copy_location(ast.If(test, body, chain if chain is not None else [copy.deepcopy(x) for x in s.orelse]), inner)
            chain = [node]
        return chain

    def unroll_rows(self, s, local, before):
        """for (a, b, ...) in ((x1, y1, ...), (x2, y2, ...)): BODY   over a display of at most six rows written in place (or bound
        to a local by the statement just before and used for nothing else), BODY without break / continue / else: the cells that
        are not constants or function references are bound to fresh locals first, in the order the display evaluates them, then
        BODY is repeated once per row.  Only where a new helper is involved (the program-wide gate), to leave plain loops alone."""
        if s.orelse or not isinstance(s.target, (ast.Tuple, ast.List)) or not all(isinstance(e, ast.Name) for e in s.target.elts):
            return None
        rows_node = None
        drop_prev = False
        if isinstance(s.iter, (ast.Tuple, ast.List)):
            rows_node = s.iter
        elif isinstance(s.iter, ast.Name) and before and isinstance(before[-1], ast.Assign) and len(before[-1].targets) == 1 \
                and isinstance(before[-1].targets[0], ast.Name) and before[-1].targets[0].id == s.iter.id \
                and isinstance(before[-1].value, (ast.Tuple, ast.List)):
            uses = [n for n in ast.walk(self.f) if isinstance(n, ast.Name) and n.id == s.iter.id]
            if len(uses) == 2 and stores(self.f).get(s.iter.id) == 1:
                rows_node = before[-1].value
                drop_prev = True
        if rows_node is None or not (1 <= len(rows_node.elts) <= 6):
            return None
        names = [e.id for e in s.target.elts]
        if not all(isinstance(r, (ast.Tuple, ast.List)) and len(r.elts) == len(names) and not any(isinstance(c, ast.Starred) for c in r.elts)
                   for r in rows_node.elts):
            return None
        for n in ast.walk(ast.Module(s.body, [])):
            if isinstance(n, (ast.Break, ast.Continue, ast.Yield, ast.YieldFrom)):
                return None
        # the body must call a new helper (or the row must hold one): otherwise the loop is left as written
        if not any(isinstance(n, ast.Call) and self._helper(n, local | set(names)) is not None for st in s.body for n in ast.walk(st)) and \
                not any(self._mentions_new(c, local) for r in rows_node.elts for c in r.elts):
            return None
        # loop variables must not be looked at after the loop
        inside = {id(n) for n in ast.walk(s)}
        if any(isinstance(n, ast.Name) and n.id in names and id(n) not in inside for n in ast.walk(self.f)):
            return None
        if any(isinstance(n, ast.Name) and n.id in names and isinstance(n.ctx, (ast.Store, ast.Del)) for st in s.body for n in ast.walk(st)):
            return None
        self.unrolled = getattr(self, 'unrolled', 0) + 1
        pre, bodies = [], []
        for ri, r in enumerate(rows_node.elts):
            m = {}
            for nm, c in zip(names, r.elts):
                if _const(c) or self.stable_ref(c, local):
                    m[nm] = c
                else:
                    # (whatever the cell is: the display evaluates every cell, in this order, before the first pass)
                    tmp = '%s__r%d_%d' % (nm, self.unrolled, ri + 1)
                    a = ast.copy_location(ast.Assign([ast.Name(tmp, ast.Store())], copy.deepcopy(c)), s)
                    pre.append(a)
                    m[nm] = ast.Name(tmp, ast.Load())
            bodies += [Subst(m).visit(copy.deepcopy(st)) for st in s.body]
        if drop_prev:
            before.pop()
        out = pre + bodies
        for st in out:
            ast.fix_missing_locations(st)
        return out

    def _mentions_new(self, c, local):
        if isinstance(c, ast.Attribute) and isinstance(c.value, ast.Name) and c.value.id == 'self' and self.cls is not None:
            hm = self.p.lookup_method(self.cls.qn, c.attr)
            return hm is not None and self.allow(hm.qn)
        if isinstance(c, ast.Name) and c.id not in local:
            sy = self.mod.syms.get(c.id)
            return sy is not None and sy.kind == 'func' and self.allow(sy.target)
        return False

    def propagate(self, local_counts):
        """replace single-assignment locals bound to stable references by what they are bound to"""
        done = False

        def scan(stmts):
            nonlocal done
            for i, s in enumerate(stmts):
                if done:
                    return
                if isinstance(s, ast.Assign) and len(s.targets) == 1:
                    tg, val = s.targets[0], s.value
                    pairs = None
                    if isinstance(tg, ast.Name):
                        pairs = [(tg.id, val)]
                    elif isinstance(tg, (ast.Tuple, ast.List)) and isinstance(val, (ast.Tuple, ast.List)) and len(tg.elts) == len(val.elts) \
                            and all(isinstance(e, ast.Name) for e in tg.elts) and not any(isinstance(e, ast.Starred) for e in val.elts):
                        pairs = [(e.id, v) for e, v in zip(tg.elts, val.elts)]
                    if pairs and all(local_counts.get(n) == 1 for n, _ in pairs):
                        local = set(local_counts)
                        ok = all(self.stable_ref(v, local) or self._literal_table(v, local) for _, v in pairs)
                        # every read must come after the binding, in this block
                        if ok:
                            later = set()
                            for t in stmts[i + 1:]:
                                later |= {id(x) for x in ast.walk(t)}
                            for n in ast.walk(self.f):
                                if isinstance(n, ast.Name) and isinstance(n.ctx, ast.Load) and n.id in dict(pairs) and id(n) not in later:
                                    ok = False
                        if ok:
                            m = dict(pairs)
                            sub = Subst(m)
                            stmts[i + 1:] = [sub.visit(t) for t in stmts[i + 1:]]
                            del stmts[i]
                            if not stmts:
                                stmts.append(ast.copy_location(ast.Pass(), s))
                            done = True
                            self.changed = True
                            return
                for fld, val in ast.iter_fields(s):
                    if isinstance(val, list) and val and isinstance(val[0], ast.stmt) and not isinstance(s, SCOPES):
                        scan(val)
                    elif isinstance(val, list) and val and isinstance(val[0], ast.ExceptHandler):
                        for h in val:
                            scan(h.body)
        scan(self.f.body)
        return done

    def _literal_table(self, v, local):
        """a tuple / list of rows of stable references (a local dispatch table)"""
        return isinstance(v, (ast.Tuple, ast.List)) and v.elts and all(
            isinstance(r, (ast.Tuple, ast.List)) and r.elts and all(self.stable_ref(e, local) for e in r.elts) for r in v.elts)

    def run(self):
        if self.only_after_inlining:
            # the program-wide pass: a function in which no new helper is called is left exactly as it was written
            if not self._calls_new_helper():
                return self.f
            self.gate_open = True
        for _ in range(40):
            self.changed = False
            counts = stores(self.f)
            for a in _params(self.f.args):
                counts[a] = counts.get(a, 0) + 1
            local = set(counts)
            self.f.body = self.block(self.f.body, local) or [ast.Pass()]
            counts = stores(self.f)
            for a in _params(self.f.args):
                counts[a] = counts.get(a, 0) + 1
            self.propagate(counts)
            while self.forward_temps(self.f.body):
                pass
            while self.rename_copied_temps():
                pass
            if self.via or self.inlined or not self.only_after_inlining or getattr(self, 'gate_open', False):
                guard = 0
                lc0 = set(stores(self.f)) | set(_params(self.f.args))
                while guard < 10 and self.dispatch_to_chain(self.f.body, lc0):
                    guard += 1
                guard = 0
                while guard < 20 and self.sink_into_arms(self.f.body):
                    guard += 1
                guard = 0
                lc = set(stores(self.f)) | set(_params(self.f.args))
                while guard < 40 and self.propagate_in_block(self.f.body, lc):
                    guard += 1
                self.drop_dead_stores(lc)
            # a local function nothing refers to any more
            used = {n.id for n in ast.walk(self.f) if isinstance(n, ast.Name)}
            for d in [d for d in _own(self.f) if isinstance(d, ast.FunctionDef) and d.name not in used and any(q.endswith('.' + d.name) for q in self.via)]:
                self._drop(d)
                self.changed = True
            if not self.changed:
                break
        ast.fix_missing_locations(self.f)
        return self.f


def renumber(fnode):
    """A rewritten function holds statements from several places of the file.  Rules order constructs of one function by line
    number; so the statements are numbered again, one line each in the order they now stand (from the def line on), and the line
    each node came from is kept in `_src_lineno` for reports."""
    counter = [getattr(fnode, 'lineno', 1)]

    def expr_nodes(st):
        # nodes of the statement that are not part of a nested statement
        stack = [c for c in ast.iter_child_nodes(st) if not isinstance(c, ast.stmt)]
        while stack:
            n = stack.pop()
            yield n
            if isinstance(n, ast.ExceptHandler):
                stack.extend(c for c in ast.iter_child_nodes(n) if not isinstance(c, ast.stmt))
                continue
            stack.extend(c for c in ast.iter_child_nodes(n) if not isinstance(c, ast.stmt))

    def visit(stmts):
        for st in stmts:
            counter[0] += 1
            for n in [st] + list(expr_nodes(st)):
                if hasattr(n, 'lineno'):
                    if not hasattr(n, '_src_lineno'):
                        n._src_lineno = n.lineno
                    n.lineno = counter[0]
                    if hasattr(n, 'end_lineno'):
                        n.end_lineno = counter[0]
            for fld in ('body', 'orelse', 'finalbody'):
                b = getattr(st, fld, None)
                if isinstance(b, list) and b and isinstance(b[0], ast.stmt):
                    visit(b)
                if fld == 'body':
                    for hd in getattr(st, 'handlers', []) or []:
                        counter[0] += 1
                        if hasattr(hd, 'lineno'):
                            if not hasattr(hd, '_src_lineno'):
                                hd._src_lineno = hd.lineno
                            hd.lineno = counter[0]
                        visit(hd.body)
                        hd.end_lineno = counter[0]
            for case in getattr(st, 'cases', []) or []:
                visit(case.body)
            if hasattr(st, 'end_lineno'):
                st.end_lineno = counter[0]
    visit(fnode.body)


_VOCAB = None


def vocabulary():
    """qualified names of the functions of the tree the rules were written against (sa/vocabulary.json, names only).  A function
    that is not among them is new: it is read in place, at its call sites, so that code moved into a helper is seen where it runs."""
    global _VOCAB
    if _VOCAB is None:
        import json
        import os
        path = os.path.join(os.path.dirname(os.path.abspath(__file__)), 'vocabulary.json')
        try:
            d = json.load(open(path))
            _VOCAB = frozenset(d['functions']) | frozenset('const:' + c for c in d.get('constants', []))
        except (OSError, ValueError, KeyError) as e:
            from .model import AnalysisError
            raise AnalysisError('sa/vocabulary.json is missing or unreadable: %s' % e)
    return _VOCAB


def normalise(p):
    """The program-wide pass, run once when a tree is loaded: in every function, calls (as whole statements) of functions that are
    not in the vocabulary are replaced by the helper's body, and the result is simplified.  The function's tree is changed in place,
    so the call graph, the effect summaries and every rule read the same thing.  On the tree the vocabulary was taken from
    this does nothing at all."""
    vocab = vocabulary()
    def new_constants():
        for m in p.modules.values():
            for b in m.tree.body:
                if isinstance(b, ast.Assign) and any(isinstance(t, ast.Name) and 'const:%s.%s' % (m.name, t.id) not in vocab for t in b.targets):
                    return True
        for c in p.classes.values():
            for b in c.node.body:
                if isinstance(b, ast.Assign) and any(isinstance(t, ast.Name) and 'const:%s.%s' % (c.qn, t.id) not in vocab for t in b.targets):
                    return True
        return False
    if all(q in vocab for q in p.funcs) and not new_constants():
        return []
    done = []
    for made in _materialise_factories(p, vocab):
        done.append(made)
    for qn, f in sorted(p.funcs.items()):
        d = _undecorate(p, f, vocab)
        if d:
            f.inlined = [d]
            done.append((qn, [d]))
    # new functions first, twice (a helper that calls a helper), so that a caller reads them in the form they end up in
    order = [(qn, f) for qn, f in sorted(p.funcs.items()) if qn not in vocab] * 2 + [(qn, f) for qn, f in sorted(p.funcs.items()) if qn in vocab]
    for qn, f in order:
        if isinstance(f.node, ast.Lambda) or f.parent is not None:
            continue
        try:
            work = copy.deepcopy(f.node)
            sim = Simplifier(p, f.mod, f.cls, work, qn=qn, only_after_inlining=True)
            sim.stack = {qn}
            before = ast.dump(work)
            work = sim.run()
            if (sim.via or getattr(sim, 'gate_open', False)) and ast.dump(work) != before:
                renumber(work)
                f.node.body = work.body
                f.inlined = list(sim.via) or ['(rewritten)']
                done.append((qn, list(sim.via)))
        except RecursionError:
            continue
    if done:
        _drop_unreferenced(p, {h for _q, via in done for h in via}, vocab)
    return done


def _materialise_factories(p, vocab):
    """class body:  NAME = factory(<constants>)   with a new module-level factory of the plain kind

        def factory(k, ...):
            def inner(self, ...): BODY            (no defaults reading the factory's parameters)
            inner.__name__ = ... ; inner.__doc__ = ...     (only stores into attributes of inner)
            return inner

    is read as  def NAME(self, ...): BODY[constants for k, ...]  - a method of the class like any other."""
    out = []
    for c in list(p.classes.values()):
        for i, b in enumerate(list(c.node.body)):
            if not (isinstance(b, ast.Assign) and len(b.targets) == 1 and isinstance(b.targets[0], ast.Name) and isinstance(b.value, ast.Call)
                    and isinstance(b.value.func, ast.Name) and not b.value.keywords and all(_const(a) for a in b.value.args)):
                continue
            sy = c.mod.syms.get(b.value.func.id)
            if sy is None or sy.kind != 'func' or sy.target in vocab:
                continue
            F = p.funcs.get(sy.target)
            if F is None or F.mod is not c.mod or F.cls is not None or F.vararg or F.kwarg or len(F.posparams) != len(b.value.args):
                continue
            body = _strip_doc(F.node.body)
            if not body or not isinstance(body[0], ast.FunctionDef) or not isinstance(body[-1], ast.Return) or \
                    not (isinstance(body[-1].value, ast.Name) and body[-1].value.id == body[0].name):
                continue
            inner = body[0]
            ok = not inner.decorator_list and not inner.args.defaults and not inner.args.kw_defaults
            for st in body[1:-1]:
                # only `inner.attr = <expression>` in between
                if not (isinstance(st, ast.Assign) and len(st.targets) == 1 and isinstance(st.targets[0], ast.Attribute)
                        and isinstance(st.targets[0].value, ast.Name) and st.targets[0].value.id == inner.name):
                    ok = False
            if not ok or (set(stores(inner)) & set(F.posparams)):
                continue
            name = b.targets[0].id
            qn = c.qn + '.' + name
            if qn in dict.keys(p.funcs) or name in c.methods:
                continue
            sub = Subst(dict(zip(F.posparams, b.value.args)))
            new = ast.FunctionDef(name=name, args=copy.deepcopy(inner.args), body=[sub.visit(copy.deepcopy(x)) for x in inner.body],
                                  decorator_list=[], returns=None, type_comment=None, type_params=[])
            ast.copy_location(new, b)
            ast.fix_missing_locations(new)
            for n in ast.walk(new):
                if hasattr(n, 'lineno'):
                    n.lineno = b.lineno
                    n.end_lineno = getattr(b, 'end_lineno', b.lineno)
            # fold what the constants make foldable (getattr(self, 'calc_min') -> self.calc_min)
            sim = Simplifier(p, c.mod, c, new, qn=qn)
            sim.stack = {qn}
            new = sim.run()
            c.node.body[c.node.body.index(b)] = new
            fobj = Func(qn, new, c.mod, c, None)
            fobj.inlined = [F.qn]
            p.funcs[qn] = fobj
            c.methods[name] = fobj
            bm = getattr(p, '_bymeth', None)
            if bm is not None:
                bm[name].add(fobj)
            out.append((qn, [F.qn]))
    return out


def _undecorate(p, f, vocab):
    """@guard  def f(params): BODY   with a new module-level decorator of the plain wrapping kind

        def guard(fn):
            @functools.wraps(fn)                  (optional)
            def inner(params):                    (the same parameters as f)
                PRE
                return fn(params)
            return inner

    is read as  def f(params): PRE; BODY  -> the decorator's qualified name, or None"""
    node = f.node
    if isinstance(node, ast.Lambda) or len(getattr(node, 'decorator_list', [])) != 1 or not isinstance(node.decorator_list[0], ast.Name):
        return None
    sy = f.mod.syms.get(node.decorator_list[0].id)
    if sy is None or sy.kind != 'func' or sy.target in vocab:
        return None
    D = p.funcs.get(sy.target)
    if D is None or D.mod is not f.mod or D.cls is not None or len(D.params) != 1 or D.vararg or D.kwarg:
        return None
    body = _strip_doc(D.node.body)
    if len(body) != 2 or not isinstance(body[0], ast.FunctionDef) or not isinstance(body[1], ast.Return) or \
            not (isinstance(body[1].value, ast.Name) and body[1].value.id == body[0].name):
        return None
    g = body[0]
    fn = D.params[0]
    for d in g.decorator_list:
        if not (isinstance(d, ast.Call) and ast.unparse(d.func) in ('functools.wraps', 'wraps') and len(d.args) == 1
                and isinstance(d.args[0], ast.Name) and d.args[0].id == fn):
            return None
    if ast.dump(g.args) != ast.dump(node.args):
        return None                       # the wrapper must take exactly what the function takes
    gb = _strip_doc(g.body)
    if not gb or not isinstance(gb[-1], ast.Return) or not isinstance(gb[-1].value, ast.Call):
        return None
    call = gb[-1].value
    names = _params(g.args)
    # every parameter handed on once, under its own name: positionally in order, then by keyword name=name
    npos = len(call.args)
    if not (isinstance(call.func, ast.Name) and call.func.id == fn and npos <= len(names)
            and all(isinstance(a, ast.Name) and a.id == nm for a, nm in zip(call.args, names))
            and sorted(k.arg or '' for k in call.keywords) == sorted(names[npos:])
            and all(k.arg is not None and isinstance(k.value, ast.Name) and k.value.id == k.arg for k in call.keywords)):
        return None
    if g.args.vararg or g.args.kwarg or g.args.kwonlyargs or g.args.posonlyargs:
        return None
    pre = gb[:-1]
    if any(isinstance(n, ast.Name) and n.id == fn for st in pre for n in ast.walk(st)):
        return None                       # the wrapped function is used for something else than the final call
    if any(isinstance(n, (ast.Yield, ast.YieldFrom, ast.Await, ast.Global, ast.Nonlocal) + SCOPES) for st in pre for n in ast.walk(st)):
        return None
    pre_stores = set()
    for st in pre:
        pre_stores |= {n.id for n in ast.walk(st) if isinstance(n, ast.Name) and isinstance(n.ctx, (ast.Store, ast.Del))}
    if pre_stores:
        return None                       # (a wrapper with locals of its own: left alone)
    doc = node.body[:1] if node.body and node.body is not _strip_doc(node.body) and len(_strip_doc(node.body)) != len(node.body) else []
    node.body = doc + [copy.deepcopy(st) for st in pre] + _strip_doc(node.body)
    node.decorator_list = []
    f.node.body = node.body
    return D.qn


def _drop_unreferenced(p, inlined, vocab):
    """A new helper that has been read in place at every one of its call sites and is mentioned nowhere else is not part of the
    program any more (rules that go through all methods of a class would otherwise meet a function nobody calls, whose parameters
    have no call site to be resolved at).  One that is still mentioned anywhere - an uninlined call, a reference as a value, an
    `__all__` string - stays."""
    for qn in sorted(inlined, key=len, reverse=True):
        h = p.funcs.get(qn) if qn in dict.keys(p.funcs) else None
        if h is None or qn in vocab:
            # a local function: its def was removed from the parent's body if nothing refers to it
            if h is None:
                continue
        name = h.name
        mentioned = False
        for m in p.modules.values():
            for n in ast.walk(m.tree):
                if n is h.node:
                    continue
                if isinstance(n, ast.Name) and n.id == name or isinstance(n, ast.Attribute) and n.attr == name or \
                        isinstance(n, ast.Constant) and n.value == name or isinstance(n, ast.alias) and n.name == name:
                    if not any(x is n for x in ast.walk(h.node)):
                        mentioned = True
                        break
            if mentioned:
                break
        if mentioned:
            continue
        # is the def still in its parent's body?
        owners = [h.mod.tree] + [c.node for c in p.classes.values() if c.mod is h.mod] + [f.node for f in p.funcs.values() if f.mod is h.mod and f is not h]
        for o in owners:
            body = getattr(o, 'body', None)
            if isinstance(body, list) and any(b is h.node for b in body):
                body[:] = [b for b in body if b is not h.node] or [ast.Pass()]
        for q in [q for q in list(dict.keys(p.funcs)) if q == qn or q.startswith(qn + '.<locals>.')]:
            del p.funcs[q]
        if h.cls is not None and h.cls.methods.get(name) is h:
            del h.cls.methods[name]
        if h.cls is None and h.parent is None and h.mod.syms.get(name) is not None and h.mod.syms[name].target == qn:
            del h.mod.syms[name]
        bm = getattr(p, '_bymeth', None)
        if bm is not None and name in bm:
            bm[name].discard(h)


def _has_return(st):
    stack = [st]
    while stack:
        n = stack.pop()
        if isinstance(n, ast.Return):
            return True
        if isinstance(n, SCOPES):
            continue
        stack.extend(ast.iter_child_nodes(n))
    return False


def _returns_to_arms(stmts, depth=0):
    """statement list in which every return ends an arm of an if / else tree (the statements after an `if` that returns are
    moved into its other arm; where both arms fall through they are repeated in each).  None when a return sits in a loop, a
    try or a with, or when the repetition would get out of hand."""
    if depth > 6:
        return None
    for i, st in enumerate(stmts):
        if not _has_return(st):
            continue
        if isinstance(st, ast.Return):
            return stmts[:i + 1]
        if isinstance(st, ast.Try) and i == len(stmts) - 1 and not any(_has_return(x) for x in st.finalbody) and not st.orelse:
            # the last statement: a return at the end of the try body or of a handler ends that path of the function
            b = _returns_to_arms(st.body, depth + 1)
            hs = [_returns_to_arms(h.body, depth + 1) for h in st.handlers]
            if b is None or any(h is None for h in hs):
                return None
            st.body = b
            for h, hb in zip(st.handlers, hs):
                h.body = hb
            return stmts
        if not isinstance(st, ast.If):
            return None
        rest = stmts[i + 1:]
        if len(rest) > 12 and _has_return(ast.Module(st.body, [])) and _has_return(ast.Module(st.orelse, [])) and depth > 2:
            return None
        a = _returns_to_arms(st.body + copy.deepcopy(rest), depth + 1)
        b = _returns_to_arms(st.orelse + rest, depth + 1)
        if a is None or b is None:
            return None
        new = ast.copy_location(ast.If(st.test, a or [ast.Pass()], b), st)
        return stmts[:i] + [new]
    return stmts


def _target_node(target):
    if isinstance(target, str):
        return ast.Name(target, ast.Store())
    return copy.deepcopy(target)


def _arms_to_assign(stmts, target):
    """the returns of an if / else tree (see _returns_to_arms) become `target = value` (or the bare value, evaluated for its
    effects, when there is no target); an arm that falls off the end yields None"""
    out = []
    for st in stmts:
        if isinstance(st, ast.Return):
            if target is not None:
                out.append(ast.copy_location(ast.Assign([_target_node(target)], st.value or ast.Constant(None)), st))
            elif st.value is not None and not isinstance(st.value, (ast.Name, ast.Constant)):
                out.append(ast.copy_location(ast.Expr(st.value), st))
            return out or [ast.copy_location(ast.Pass(), st)]
        if isinstance(st, ast.If) and _has_return(st):
            st.body = _arms_to_assign(st.body, target)
            st.orelse = _arms_to_assign(st.orelse, target) if (st.orelse or target is not None) else st.orelse
            out.append(st)
            return out
        if isinstance(st, ast.Try) and _has_return(st):
            st.body = _arms_to_assign(st.body, target)
            for h in st.handlers:
                h.body = _arms_to_assign(h.body, target)
            out.append(st)
            return out
        out.append(st)
    if target is not None:
        tn = _target_node(target)
        if isinstance(tn, (ast.Tuple, ast.List)):
            return None if False else out + [ast.Assign([tn], ast.Constant(None))]      # (unpacking None fails, as it did)
        out.append(ast.Assign([tn], ast.Constant(None)))
    return out


def _strip_doc(body):
    if body and isinstance(body[0], ast.Expr) and isinstance(body[0].value, ast.Constant) and isinstance(body[0].value.value, str):
        return body[1:]
    return body


def _delegation(p, f, root):
    """(helper Func, {helper parameter: argument expression}) when f's whole body is `return helper(...)`"""
    body = _strip_doc(f.node.body)
    if not (len(body) == 1 and isinstance(body[0], ast.Return) and isinstance(body[0].value, ast.Call)):
        return None
    call = body[0].value
    if any(isinstance(a, ast.Starred) for a in call.args) or any(k.arg is None for k in call.keywords):
        return None
    fn = call.func
    h = None
    bound = False
    if isinstance(fn, ast.Attribute) and isinstance(fn.value, ast.Name) and fn.value.id == 'self' and f.cls is not None:
        h = p.lookup_method(root or f.cls.qn, fn.attr)
        bound = True
        if h is not None and any(fn.attr in p.classes[q].methods for q in p.subclasses(root or f.cls.qn) if q in p.classes):
            h = None                      # overridden below: which body runs depends on the receiver
    elif isinstance(fn, ast.Name) and fn.id not in stores(f.node) and fn.id not in _params(f.node.args):
        s = f.mod.syms.get(fn.id)
        if s is not None and s.kind == 'func':
            h = p.funcs.get(s.target)
    if h is None or h is f or h.mod is not f.mod or h.vararg or h.kwarg or h.is_static or h.is_classmethod:
        return None
    if getattr(h.node, 'decorator_list', None):
        return None
    if any(isinstance(n, (ast.Yield, ast.YieldFrom, ast.Await)) for n in _own(h.node)):
        return None
    pos = list(h.posparams)
    m = {}
    if bound:
        if not pos:
            return None
        m[pos[0]] = ast.Name('self', ast.Load())
        pos = pos[1:]
    if len(call.args) > len(pos):
        return None
    for nm, a in zip(pos, call.args):
        m[nm] = a
    for k in call.keywords:
        if k.arg in m or k.arg not in h.params:
            return None
        m[k.arg] = k.value
    for nm in h.params:
        if nm not in m:
            if nm not in h.defaults:
                return None
            d = h.defaults[nm]
            if not _const(d):
                return None
            m[nm] = d
    return h, m


def _inline(p, f, root):
    d = _delegation(p, f, root)
    if d is None:
        return None
    h, m = d
    hnode = copy.deepcopy(h.node)
    hstores = stores(hnode)
    wparams = set(_params(f.node.args))
    sub = {}
    pre = []
    for nm, arg in m.items():
        identical = isinstance(arg, ast.Name) and arg.id == nm
        if identical:
            continue
        simple = isinstance(arg, (ast.Name, ast.Constant, ast.Lambda)) or \
            (isinstance(arg, ast.Attribute) and isinstance(arg.value, ast.Name)) or \
            (isinstance(arg, (ast.Tuple, ast.List)) and all(isinstance(e, (ast.Name, ast.Constant, ast.Lambda)) or
                                                            (isinstance(e, ast.Attribute) and isinstance(e.value, ast.Name)) for e in arg.elts))
        if not simple:
            return None
        if hstores.get(nm):
            pre.append(ast.Assign([ast.Name(nm, ast.Store())], copy.deepcopy(arg)))      # the helper rebinds its parameter
        else:
            sub[nm] = arg
    # capture: what the arguments read must not be a name the helper binds for itself
    reads = set()
    for arg in list(sub.values()) + [a.value for a in pre]:
        reads |= free_names(arg)
    helper_locals = set(hstores) | {nm for nm in h.params if nm in sub}
    if reads & helper_locals:
        return None
    body = _strip_doc(hnode.body)
    s = Subst(sub)
    body = [s.visit(b) for b in body]
    for a in pre:
        ast.copy_location(a, body[0])
    node = ast.FunctionDef(name=f.node.name, args=copy.deepcopy(f.node.args), body=pre + body, decorator_list=[], returns=None,
                           type_comment=None, type_params=[])
    ast.copy_location(node, f.node)
    ast.fix_missing_locations(node)
    return node, h


def flat(p, f, root=None):
    """f as the rules should read it: a Func whose tree is the specialised body (f itself when there is nothing to do)"""
    cache = p.__dict__.setdefault('_flat_cache', {})
    key = (f.qn, root)
    if key in cache:
        return cache[key]
    out = f
    try:
        seen = 0
        node, via = None, []
        cur = f
        base = copy.deepcopy(f.node)
        while seen < 3:
            r = _inline(p, Func(f.qn, base, f.mod, f.cls), root) if seen else _inline(p, f, root)
            if r is None:
                break
            base, h = r
            via.append(h.qn)
            node = base
            seen += 1
        work = node if node is not None else copy.deepcopy(f.node)
        before = ast.dump(work)
        sim = Simplifier(p, f.mod, f.cls if root is None else p.classes.get(root, f.cls), work, qn=f.qn)
        sim.stack = {f.qn} | set(via)
        work = sim.run()
        via = via + sim.via
        if node is not None or ast.dump(work) != before:
            renumber(work)
            g = Func(f.qn + '[specialised]', work, f.mod, f.cls, None)
            g.name = f.name
            g.original = f
            g.via = via
            p.funcs.views[g.qn] = g
            out = g
    except RecursionError:
        out = f
    cache[key] = out
    return out
