"""E1 - program model and call graph for /repo/tdda.

Pure syntax: modules are parsed with ``ast``; nothing is imported.  The model
can be built from the working tree or from an in-memory ``{relpath: source}``
overlay (used by the self-test mutants), so that no scratch copy is needed.
"""
import ast
import builtins
import collections
import os
import re
import symtable

REPO = os.environ.get('VERIF_REPO', '/repo')
PKG = 'tdda'

EXCLUDED_DIRS = {'tests', 'testutils', 'examples', 'deprecated', 'buildutils',
                 'dev', 'testdata', 'testexamples', 'testgentest', 'init',
                 '__pycache__'}
EXCLUDED_FILES = {'CHANGES.py', 'examples.py', 'examples_utils.py',
                  'testconfig.py', 'writabletestcase.py'}


class AnalysisError(Exception):
    """An anchor vanished or a construct has a shape no rule can interpret."""


def in_scope(rel):
    parts = rel.split('/')
    if any(p.startswith('test') for p in parts[1:]):
        return False
    if any(p in EXCLUDED_DIRS for p in parts):
        return False
    if parts[-1] in EXCLUDED_FILES:
        return False
    return True


def read_tree(root=None, overlay=None):
    """{relpath: source} for every in-scope module of the package."""
    root = root or REPO
    out = {}
    base = os.path.join(root, PKG)
    for dp, dn, fn in os.walk(base):
        dn[:] = sorted(d for d in dn if d not in EXCLUDED_DIRS)
        for f in sorted(fn):
            if not f.endswith('.py'):
                continue
            rel = os.path.relpath(os.path.join(dp, f), root)
            if in_scope(rel):
                with open(os.path.join(dp, f), encoding='utf-8') as fh:
                    out[rel] = fh.read()
    if overlay:
        out.update(overlay)
    return out


class Sym:
    __slots__ = ('kind', 'target')

    def __init__(self, kind, target):
        self.kind = kind        # func | class | mod | ext | const
        self.target = target

    def __repr__(self):
        return 'Sym(%s,%s)' % (self.kind, self.target)


class Module:
    def __init__(self, name, rel, src):
        self.name = name
        self.rel = rel
        self.src = src
        self.tree = ast.parse(src, rel)
        self.syms = {}
        self.consts = {}       # module-level NAME -> ast expr (single assignment)
        self.is_pkg = rel.endswith('__init__.py')
        self.lines = src.splitlines()


class Class:
    def __init__(self, qn, node, mod):
        self.qn = qn
        self.name = node.name
        self.node = node
        self.mod = mod
        self.bases = []        # qn or None (external)
        self.base_exprs = [ast.unparse(b) for b in node.bases]
        self.methods = {}
        self.fields = {}       # attr -> set(class qn) from self.attr = K(...)
        self.attrs_assigned = set()

    def __repr__(self):
        return '<Class %s>' % self.qn


class Func:
    def __init__(self, qn, node, mod, cls=None, parent=None):
        self.qn = qn
        self.name = node.name if hasattr(node, 'name') else '<lambda>'
        self.node = node
        self.mod = mod
        self.cls = cls
        self.parent = parent
        a = node.args
        self.posparams = [x.arg for x in a.posonlyargs + a.args]
        self.kwonly = [x.arg for x in a.kwonlyargs]
        self.vararg = a.vararg.arg if a.vararg else None
        self.kwarg = a.kwarg.arg if a.kwarg else None
        nd = len(a.defaults)
        self.defaults = {}
        if nd:
            for p, d in zip(self.posparams[-nd:], a.defaults):
                self.defaults[p] = d
        for p, d in zip(a.kwonlyargs, a.kw_defaults):
            if d is not None:
                self.defaults[p.arg] = d
        self.is_method = cls is not None and parent is None
        self.is_static = any(isinstance(d, ast.Name) and d.id == 'staticmethod'
                             for d in getattr(node, 'decorator_list', []))
        self.is_classmethod = any(isinstance(d, ast.Name) and d.id == 'classmethod'
                                  for d in getattr(node, 'decorator_list', []))

    @property
    def params(self):
        return self.posparams + self.kwonly

    @property
    def rel(self):
        return self.mod.rel

    @property
    def short(self):
        return self.qn[len(self.mod.name) + 1:]

    def __repr__(self):
        return '<Func %s>' % self.qn


# Method names that also exist on builtin / pandas / regex / file / cursor /
# argparse objects: never resolved by unique-name CHA.
_DENY = set()
for _t in (str, bytes, list, dict, set, tuple, int, float):
    _DENY |= set(dir(_t))
_DENY |= set(dir(re.compile('')))
_DENY |= {'group', 'groups', 'start', 'end', 'span', 'write', 'read', 'close',
          'readlines', 'readline', 'flush', 'seek', 'execute', 'fetchall',
          'fetchone', 'commit', 'cursor', 'add_argument', 'parse_known_args',
          'parse_args', 'print_help', 'getoption', 'addoption', 'feed',
          'most_common', 'total_seconds', 'strftime', 'isoformat', 'date',
          'item', 'sum', 'min', 'max', 'any', 'all', 'apply', 'map', 'astype',
          'to_csv', 'to_parquet', 'to_dict', 'to_json', 'to_frame', 'round',
          'equals', 'isnull', 'notnull', 'dropna', 'unique', 'nunique',
          'reset_index', 'sort_values', 'rename', 'drop', 'head', 'tail',
          'load', 'loads', 'dump', 'dumps', 'match', 'search', 'compile',
          'info', 'warning', 'error', 'debug', 'fail', 'run', 'main',
          'set', 'add', 'save', 'name', 'type', 'find', 'describe', 'query',
          'filter', 'select', 'first', 'last', 'diff', 'compare', 'transform',
          'resolve', 'exists', 'open', 'connect', 'insert_one', 'insert',
          'create_collection', 'drop_collection'}


class _Funcs(dict):
    """qualified name -> Func.  Specialised views (sa.specialise.flat) are found by name but are not members: iterating over
    the program's functions never meets the same source twice."""

    def __init__(self):
        super().__init__()
        self.views = {}

    def __missing__(self, k):
        return self.views[k]


class Program:
    def __init__(self, sources):
        self.sources = sources
        self.modules = {}
        self.funcs = _Funcs()
        self.classes = {}
        self.parse_errors = []
        for rel, src in sorted(sources.items()):
            name = rel[:-3].replace('/', '.')
            if name.endswith('.__init__'):
                name = name[:-9]
            try:
                self.modules[name] = Module(name, rel, src)
            except SyntaxError as e:
                self.parse_errors.append((rel, str(e)))
        if self.parse_errors:
            raise AnalysisError('modules do not parse: %r' % self.parse_errors)
        self._index()
        for _ in range(3):
            for m in self.modules.values():
                self._imports(m, m.tree.body)
        self._hierarchy()
        self._fields()
        self._bymeth = collections.defaultdict(set)
        for f in self.funcs.values():
            if f.is_method:
                self._bymeth[f.name].add(f)
        self._calls_cache = {}
        self._ret_ctor_cache = {}
        # functions that are new with respect to the rules' vocabulary are read in place (sa/specialise.py)
        from .specialise import normalise
        self.normalised = normalise(self)
        if self.normalised:
            self._calls_cache = {}
            self._ret_ctor_cache = {}
            self._fields()

    @classmethod
    def load(cls, root=None, overlay=None):
        return cls(read_tree(root, overlay))

    # ------------------------------------------------------------------ index
    def _index(self):
        for m in self.modules.values():
            self._index_body(m, m.tree.body, m.name, None, None, top=True)

    def _index_body(self, m, body, prefix, cls, parent, top=False):
        for n in body:
            if isinstance(n, (ast.FunctionDef, ast.AsyncFunctionDef)):
                qn = prefix + '.' + n.name
                f = Func(qn, n, m, cls=cls if parent is None else None, parent=parent)
                if parent is not None:
                    f.cls = parent.cls   # nested function sees enclosing self
                    f.is_method = False
                self.funcs[qn] = f
                if top:
                    m.syms[n.name] = Sym('func', qn)
                if cls is not None and parent is None:
                    cls.methods[n.name] = f
                self._index_nested(m, n, qn, f)
            elif isinstance(n, ast.ClassDef):
                qn = prefix + '.' + n.name
                c = Class(qn, n, m)
                self.classes[qn] = c
                if top:
                    m.syms[n.name] = Sym('class', qn)
                self._index_body(m, n.body, qn, c, None)
            elif isinstance(n, (ast.If, ast.Try)) and top:
                blocks = [n.body, n.orelse]
                if isinstance(n, ast.If) and isinstance(n.test, ast.Name) and isinstance(m.consts.get(n.test.id), ast.Constant) \
                        and isinstance(m.consts[n.test.id].value, bool):
                    # `if FLAG:` on a module constant assigned once above: only the branch taken defines names
                    blocks = [n.body if m.consts[n.test.id].value else n.orelse]
                if isinstance(n, ast.Try):
                    blocks += [h.body for h in n.handlers] + [n.finalbody]
                for b in blocks:
                    self._index_body(m, b, prefix, cls, parent, top=True)
            elif isinstance(n, ast.Assign) and top:
                if len(n.targets) == 1 and isinstance(n.targets[0], ast.Name):
                    nm = n.targets[0].id
                    if nm in m.consts:
                        m.consts[nm] = None      # reassigned: not a constant
                    else:
                        m.consts[nm] = n.value
                    if isinstance(n.value, ast.Lambda):
                        qn = prefix + '.' + nm
                        self.funcs[qn] = Func(qn, n.value, m)
                        self.funcs[qn].name = nm
                        m.syms[nm] = Sym('func', qn)

    def _index_nested(self, m, fnode, prefix, parent):
        for n in ast.walk(fnode):
            if n is fnode:
                continue
        # only direct nested defs (one level is all tdda uses)
        for n in self._direct_nested(fnode):
            qn = prefix + '.<locals>.' + n.name
            f = Func(qn, n, m, cls=None, parent=parent)
            f.cls = parent.cls
            self.funcs[qn] = f
            self._index_nested(m, n, qn, f)

    @staticmethod
    def _direct_nested(fnode):
        out = []
        stack = list(fnode.body)
        while stack:
            n = stack.pop()
            if isinstance(n, (ast.FunctionDef, ast.AsyncFunctionDef)):
                out.append(n)
                continue
            if isinstance(n, (ast.ClassDef, ast.Lambda)):
                continue
            stack.extend(ast.iter_child_nodes(n))
        return out

    # ---------------------------------------------------------------- imports
    def _imports(self, m, body):
        for n in body:
            if isinstance(n, ast.Import):
                for a in n.names:
                    if a.asname:
                        tgt = a.name
                        m.syms[a.asname] = Sym('mod' if tgt in self.modules else 'ext', tgt)
                    else:
                        top = a.name.split('.')[0]
                        m.syms[top] = Sym('mod' if top in self.modules else 'ext', top)
            elif isinstance(n, ast.ImportFrom):
                base = n.module or ''
                if n.level:
                    parts = m.name.split('.')
                    if not m.is_pkg:
                        parts = parts[:-1]
                    up = n.level - 1
                    if up:
                        parts = parts[:-up]
                    base = '.'.join(parts + ([n.module] if n.module else []))
                for a in n.names:
                    if a.name == '*':
                        src = self.modules.get(base)
                        if src is not None:
                            for k, v in src.syms.items():
                                if not k.startswith('_'):
                                    m.syms.setdefault(k, v)
                            for k, v in src.consts.items():
                                if not k.startswith('_') and k not in m.syms:
                                    m.syms[k] = Sym('const', base + '.' + k)
                        continue
                    nm = a.asname or a.name
                    tgt = base + '.' + a.name
                    if tgt in self.modules:
                        m.syms[nm] = Sym('mod', tgt)
                    elif base in self.modules:
                        s = self.modules[base].syms.get(a.name)
                        if s is not None:
                            m.syms[nm] = s
                        elif a.name in self.modules[base].consts:
                            m.syms[nm] = Sym('const', tgt)
                        else:
                            m.syms.setdefault(nm, Sym('const', tgt))
                    else:
                        m.syms[nm] = Sym('ext', tgt)
            elif isinstance(n, (ast.If, ast.Try)):
                blocks = [n.body, n.orelse]
                if isinstance(n, ast.Try):
                    blocks += [h.body for h in n.handlers] + [n.finalbody]
                for b in blocks:
                    self._imports(m, b)

    # -------------------------------------------------------------- hierarchy
    def resolve_expr(self, mod, expr):
        """Sym for a Name / dotted Attribute evaluated at module scope."""
        if isinstance(expr, ast.Name):
            return mod.syms.get(expr.id)
        if isinstance(expr, ast.Attribute):
            b = self.resolve_expr(mod, expr.value)
            if b is None:
                return None
            if b.kind == 'mod':
                tm = self.modules.get(b.target)
                if tm is not None:
                    s = tm.syms.get(expr.attr)
                    if s is not None:
                        return s
                    if expr.attr in tm.consts:
                        return Sym('const', b.target + '.' + expr.attr)
                sub = b.target + '.' + expr.attr
                if sub in self.modules:
                    return Sym('mod', sub)
                return Sym('ext', sub)
            if b.kind == 'ext':
                return Sym('ext', b.target + '.' + expr.attr)
            if b.kind == 'class':
                f = self.lookup_method(b.target, expr.attr)
                if f is not None:
                    return Sym('func', f.qn)
        return None

    def _hierarchy(self):
        for c in self.classes.values():
            for b in c.node.bases:
                s = self.resolve_expr(c.mod, b)
                c.bases.append(s.target if s is not None and s.kind == 'class' else None)
        self._mro = {}
        self._subs = collections.defaultdict(set)
        for q in self.classes:
            for a in self.mro(q)[1:]:
                self._subs[a].add(q)

    def mro(self, q):
        if q in self._mro:
            return self._mro[q]
        seqs = [[q]]
        c = self.classes.get(q)
        bases = [b for b in (c.bases if c else []) if b]
        for b in bases:
            seqs.append(list(self.mro(b)))
        seqs.append(list(bases))
        # C3 merge
        out = []
        seqs = [s for s in seqs if s]
        while seqs:
            for s in seqs:
                h = s[0]
                if not any(h in t[1:] for t in seqs):
                    break
            else:
                h = seqs[0][0]     # inconsistent: fall back
            out.append(h)
            seqs = [[x for x in s if x != h] for s in seqs]
            seqs = [s for s in seqs if s]
        self._mro[q] = out
        return out

    def subclasses(self, q):
        return self._subs.get(q, set())

    def lookup_method(self, cq, name, after=None):
        m = self.mro(cq)
        if after is not None and after in m:
            m = m[m.index(after) + 1:]
        for k in m:
            c = self.classes.get(k)
            if c is not None and name in c.methods:
                return c.methods[name]
        return None

    def external_bases(self, cq):
        out = []
        for k in self.mro(cq):
            c = self.classes.get(k)
            if c:
                for b, e in zip(c.bases, c.base_exprs):
                    if b is None:
                        out.append(e)
        return out

    def _fields(self):
        for c in self.classes.values():
            for f in c.methods.values():
                for n in ast.walk(f.node):
                    if isinstance(n, (ast.Assign, ast.AugAssign, ast.AnnAssign)):
                        tgts = n.targets if isinstance(n, ast.Assign) else [n.target]
                        for t in tgts:
                            for x in ast.walk(t):
                                if (isinstance(x, ast.Attribute) and isinstance(x.value, ast.Name)
                                        and x.value.id == 'self' and isinstance(x.ctx, ast.Store)):
                                    c.attrs_assigned.add(x.attr)
                        if isinstance(n, ast.Assign) and isinstance(n.value, ast.Call):
                            s = self.resolve_expr(c.mod, n.value.func)
                            if s is not None and s.kind == 'class':
                                for t in n.targets:
                                    if (isinstance(t, ast.Attribute) and isinstance(t.value, ast.Name)
                                            and t.value.id == 'self'):
                                        c.fields.setdefault(t.attr, set()).add(s.target)

    def field_types(self, cq, attr):
        out = set()
        for k in [cq] + list(self.mro(cq)) + list(self.subclasses(cq)):
            c = self.classes.get(k)
            if c is not None:
                out |= c.fields.get(attr, set())
        return out

    # ---------------------------------------------------------------- lookups
    def cls(self, name):
        """Class by simple name (must be unique) or qualified name."""
        if name in self.classes:
            return self.classes[name]
        hits = [c for c in self.classes.values() if c.name == name]
        if len(hits) != 1:
            raise AnalysisError('class %r: %d definitions in scope' % (name, len(hits)))
        return hits[0]

    def fn(self, name):
        """Function by qualified name or by unique dotted suffix."""
        if name in self.funcs:
            return self.funcs[name]
        hits = [f for q, f in self.funcs.items() if q.endswith('.' + name)]
        if len(hits) != 1:
            raise AnalysisError('function %r: %d definitions in scope' % (name, len(hits)))
        return hits[0]

    def has_fn(self, name):
        try:
            self.fn(name)
            return True
        except AnalysisError:
            return False

    def method(self, clsname, name):
        c = self.cls(clsname)
        f = self.lookup_method(c.qn, name)
        if f is None:
            raise AnalysisError('method %s.%s not found' % (clsname, name))
        return f

    def mod(self, name):
        if name not in self.modules:
            raise AnalysisError('module %r not in scope' % name)
        return self.modules[name]

    def const(self, mod, name, depth=0):
        """Fold a module-level constant to a Python value (or raise)."""
        m = mod if isinstance(mod, Module) else self.mod(mod)
        e = m.consts.get(name)
        if e is None:
            s = m.syms.get(name)
            if s is not None and s.kind == 'const' and depth < 4:
                tm, _, tn = s.target.rpartition('.')
                if tm in self.modules:
                    return self.const(self.modules[tm], tn, depth + 1)
            raise AnalysisError('constant %s.%s not found' % (m.name, name))
        return self.fold(m, e, depth)

    def fold(self, m, e, depth=0):
        """Constant folding over literals, module constants, + | and tuples."""
        if isinstance(e, ast.Constant):
            return e.value
        if isinstance(e, (ast.Tuple, ast.List)):
            vals = [self.fold(m, x, depth) for x in e.elts]
            return tuple(vals) if isinstance(e, ast.Tuple) else vals
        if isinstance(e, ast.Set):
            return set(self.fold(m, x, depth) for x in e.elts)
        if isinstance(e, ast.Dict):
            return {self.fold(m, k, depth): self.fold(m, v, depth)
                    for k, v in zip(e.keys, e.values)}
        if isinstance(e, ast.Name):
            if e.id in ('True', 'False', 'None'):
                return {'True': True, 'False': False, 'None': None}[e.id]
            if depth > 6:
                raise AnalysisError('constant folding too deep at %s' % e.id)
            return self.const(m, e.id, depth + 1)
        if isinstance(e, ast.Attribute):
            s = self.resolve_expr(m, e)
            if s is not None and s.kind == 'const':
                tm, _, tn = s.target.rpartition('.')
                return self.const(tm, tn, depth + 1)
            if ast.unparse(e) in ('re.UNICODE', 're.U'):
                return re.UNICODE
            if ast.unparse(e) in ('re.DOTALL', 're.S'):
                return re.DOTALL
            if ast.unparse(e) in ('re.IGNORECASE', 're.I'):
                return re.IGNORECASE
            if ast.unparse(e) in ('re.MULTILINE', 're.M'):
                return re.MULTILINE
            raise AnalysisError('cannot fold %s' % ast.unparse(e))
        if isinstance(e, ast.BinOp):
            a = self.fold(m, e.left, depth)
            b = self.fold(m, e.right, depth)
            if isinstance(e.op, ast.Add):
                return a + b
            if isinstance(e.op, ast.BitOr):
                return a | b
            if isinstance(e.op, ast.Mult):
                return a * b
            if isinstance(e.op, ast.Sub):
                return a - b
            if isinstance(e.op, ast.Mod) and isinstance(a, str):
                return a % b
        if isinstance(e, ast.UnaryOp) and isinstance(e.op, ast.USub):
            return -self.fold(m, e.operand, depth)
        if isinstance(e, ast.UnaryOp) and isinstance(e.op, ast.Not):
            return not self.fold(m, e.operand, depth)
        if isinstance(e, ast.JoinedStr):
            out = ''
            for v in e.values:
                if isinstance(v, ast.Constant):
                    out += v.value
                else:
                    out += str(self.fold(m, v.value, depth))
            return out
        raise AnalysisError('cannot fold %s' % ast.unparse(e)[:60])

    # --------------------------------------------------------- call resolution
    def owner_class(self, f):
        """The class whose body (transitively) contains f, or None."""
        g = f
        while g is not None:
            if g.cls is not None:
                return g.cls
            g = g.parent
        return None

    def local_types(self, f):
        """name -> set(class qn) for locals bound by constructor calls."""
        key = ('lt', f.qn)
        if key in self._calls_cache:
            return self._calls_cache[key]
        out = collections.defaultdict(set)
        for n in ast.walk(f.node):
            val = None
            tgts = []
            if isinstance(n, ast.Assign) and isinstance(n.value, ast.Call):
                val = n.value
                tgts = [t for t in n.targets if isinstance(t, ast.Name)]
            elif isinstance(n, ast.With):
                for it in n.items:
                    if isinstance(it.context_expr, ast.Call) and isinstance(it.optional_vars, ast.Name):
                        for k in self._ctor_classes(f, it.context_expr):
                            out[it.optional_vars.id].add(k)
                continue
            if isinstance(n, ast.Assign) and isinstance(n.value, ast.Call):
                # a, b = helper(...) where every return of helper is a tuple: each name gets the classes built in its position
                for t in n.targets:
                    if isinstance(t, (ast.Tuple, ast.List)) and all(isinstance(e, ast.Name) for e in t.elts):
                        pos = self._tuple_ctor_returns(f, n.value, len(t.elts))
                        for e, ks in zip(t.elts, pos or ()):
                            out[e.id] |= ks
            if val is None or not tgts:
                continue
            for k in self._ctor_classes(f, val):
                for t in tgts:
                    out[t.id].add(k)
        # plain copies: x = y and a, b = (x, y) hand the classes on
        copies = []
        for n in ast.walk(f.node):
            if isinstance(n, ast.Assign):
                for t in n.targets:
                    if isinstance(t, ast.Name) and isinstance(n.value, ast.Name):
                        copies.append((t.id, n.value.id))
                    elif isinstance(t, (ast.Tuple, ast.List)) and isinstance(n.value, (ast.Tuple, ast.List)) and len(t.elts) == len(n.value.elts):
                        for a, b in zip(t.elts, n.value.elts):
                            if isinstance(a, ast.Name) and isinstance(b, ast.Name):
                                copies.append((a.id, b.id))
        for _ in range(4):
            grew = False
            for a, b in copies:
                if out.get(b) and not out[b] <= out[a]:
                    out[a] |= out[b]
                    grew = True
            if not grew:
                break
        self._calls_cache[key] = out
        return out

    def _tuple_ctor_returns(self, f, call, arity):
        s = self.resolve_expr(f.mod, call.func)
        if s is None or s.kind != 'func':
            return None
        g = self.funcs.get(s.target)
        if g is None or g is f:
            return None
        rets = [r for r in ast.walk(g.node) if isinstance(r, ast.Return) and r.value is not None]
        if not rets or not all(isinstance(r.value, ast.Tuple) and len(r.value.elts) == arity for r in rets):
            return None
        lt = self.local_types(g)
        out = [set() for _ in range(arity)]
        for r in rets:
            for i, e in enumerate(r.value.elts):
                if isinstance(e, ast.Call):
                    out[i] |= self._ctor_classes(g, e, depth=1)
                elif isinstance(e, ast.Name):
                    out[i] |= lt.get(e.id, set())
        return out

    def _ctor_classes(self, f, call, depth=0):
        s = self.resolve_expr(f.mod, call.func)
        if s is not None and s.kind == 'class':
            return {s.target}
        if s is not None and s.kind == 'func' and depth == 0:
            return self.returns_ctor(self.funcs[s.target])
        return set()

    def returns_ctor(self, g):
        """Classes K such that every ``return`` of g is ``K(...)`` (one level)."""
        if g.qn in self._ret_ctor_cache:
            return self._ret_ctor_cache[g.qn]
        self._ret_ctor_cache[g.qn] = set()
        ks = set()
        ok = True
        lt = None
        for n in ast.walk(g.node):
            if isinstance(n, ast.Return) and n.value is not None:
                v = n.value
                if isinstance(v, ast.Call):
                    k = self._ctor_classes(g, v, depth=1)
                    if k:
                        ks |= k
                        continue
                if isinstance(v, ast.Name):
                    if lt is None:
                        lt = self.local_types(g)
                    if lt.get(v.id):
                        ks |= lt[v.id]
                        continue
                ok = False
        res = ks if ok else set()
        self._ret_ctor_cache[g.qn] = res
        return res

    HANDLER_BASE = 'DatabaseHandler'
    HANDLER_IMPLS = ('SQLDatabaseHandler', 'MongoDBDatabaseHandler')

    def _self_targets(self, owner, name, ctx):
        """Resolve self.name() for a method defined in class ``owner``."""
        ts = []
        cands = [ctx] if ctx else [owner.qn] + sorted(self.subclasses(owner.qn))
        for c in cands:
            t = self.lookup_method(c, name)
            if t is not None:
                if t not in ts:
                    ts.append(t)
            elif any(k.rsplit('.', 1)[-1] == self.HANDLER_BASE for k in self.mro(c)):
                for h in self.HANDLER_IMPLS:
                    try:
                        hc = self.cls(h)
                    except AnalysisError:
                        continue
                    t = self.lookup_method(hc.qn, name)
                    if t is not None and t not in ts:
                        ts.append(t)
        return ts

    def resolve_call(self, f, call, ctx=None):
        """-> (targets:[(Func, ctx')], kind)

        kind: resolved | builtin | external | localvar | self? | field? |
              opaque | cha | other
        """
        fn = call.func
        owner = self.owner_class(f)
        mod = f.mod
        if isinstance(fn, ast.Name):
            nm = fn.id
            if self._is_local(f, nm):
                tab = INDIRECT.get((f.name, nm))
                if tab:
                    return self._indirect(tab, ctx), 'resolved'
                return [], 'localvar'
            s = mod.syms.get(nm)
            if s is not None:
                if s.kind == 'func':
                    return [(self.funcs[s.target], self._ambient(f, call, ctx))], 'resolved'
                if s.kind == 'class':
                    init = self.lookup_method(s.target, '__init__')
                    return ([(init, s.target)] if init else []), 'resolved'
                if s.kind == 'ext':
                    return [], 'external'
            if hasattr(builtins, nm):
                return [], 'builtin'
            return [], 'name?'
        if isinstance(fn, ast.Attribute):
            v = fn.value
            # super().m()
            if (isinstance(v, ast.Call) and isinstance(v.func, ast.Name) and v.func.id == 'super'
                    and owner is not None):
                start = ctx or owner.qn
                t = self.lookup_method(start, fn.attr, after=owner.qn)
                return ([(t, ctx)] if t else []), ('resolved' if t else 'external')
            if isinstance(v, ast.Name) and v.id in ('self', 'cls') and owner is not None \
                    and not self._shadowed_self(f, v.id):
                tab = INDIRECT.get((f.name, 'self.' + fn.attr))
                if tab:
                    return self._indirect(tab, ctx), 'resolved'
                ts = self._self_targets(owner, fn.attr, ctx)
                if ts:
                    return [(t, ctx) for t in ts], 'resolved'
                fts = self.field_types(ctx or owner.qn, fn.attr)
                if fts:     # self.x(...) where self.x = K() -> __call__
                    out = []
                    for k in sorted(fts):
                        t = self.lookup_method(k, '__call__')
                        if t:
                            out.append((t, k))
                    return out, 'resolved'
                return [], 'self?'
            if (isinstance(v, ast.Attribute) and isinstance(v.value, ast.Name)
                    and v.value.id == 'self' and owner is not None):
                fts = self.field_types(ctx or owner.qn, v.attr)
                if fts:
                    out = []
                    for k in sorted(fts):
                        ts = self._self_targets(self.classes[k], fn.attr, k)
                        out += [(t, k) for t in ts]
                    if out:
                        return out, 'resolved'
                    return [], 'field?'
            s = self.resolve_expr(mod, fn)
            if s is not None and not (isinstance(v, ast.Name) and self._is_local(f, v.id)):
                if s.kind == 'func':
                    g = self.funcs[s.target]
                    # Class.m(self, ...) keeps the context
                    keep = ctx if (g.is_method and call.args and isinstance(call.args[0], ast.Name)
                                   and call.args[0].id == 'self') else None
                    if not g.is_method:
                        keep = self._ambient(f, call, ctx)
                    return [(g, keep)], 'resolved'
                if s.kind == 'class':
                    init = self.lookup_method(s.target, '__init__')
                    return ([(init, s.target)] if init else []), 'resolved'
                if s.kind == 'ext':
                    return [], 'external'
            # typed local receiver
            if isinstance(v, ast.Name):
                lt = self.local_types(f).get(v.id)
                if lt:
                    out = []
                    for k in sorted(lt):
                        ts = self._self_targets(self.classes[k], fn.attr, k)
                        out += [(t, k) for t in ts]
                    if out:
                        return out, 'resolved'
            # constructor receiver: K(...).m()
            if isinstance(v, ast.Call):
                ks = self._ctor_classes(f, v)
                out = []
                for k in sorted(ks):
                    ts = self._self_targets(self.classes[k], fn.attr, k)
                    out += [(t, k) for t in ts]
                if out:
                    return out, 'resolved'
            # unique-name class-hierarchy fallback (low confidence)
            if fn.attr not in _DENY:
                c = self._bymeth.get(fn.attr)
                if c:
                    roots = {self.mro(self.owner_class(x).qn)[-1] for x in c}
                    if len(roots) <= 2:
                        return [(x, self.owner_class(x).qn if not self.subclasses(self.owner_class(x).qn) else None)
                                for x in sorted(c, key=lambda z: z.qn)], 'cha'
            return [], 'opaque'
        return [], 'other'

    def _ambient(self, f, call, ctx):
        """Context handed to a plain function: the class of a typed object
        (or of self) that appears among the arguments.  Plain functions such
        as base.verify receive bound methods of one verifier object; carrying
        its class keeps the database drivers out of the pandas closure."""
        lt = None
        for a in list(call.args) + [k.value for k in call.keywords]:
            for x in ast.walk(a):
                if isinstance(x, ast.Name):
                    if x.id == 'self' and ctx:
                        return ctx
                    if lt is None:
                        lt = self.local_types(f)
                    ks = lt.get(x.id)
                    if ks and len(ks) == 1:
                        return next(iter(ks))
        # a plain function that merely forwards its own parameters keeps ctx
        if not self.owner_class(f) and ctx:
            return ctx
        return None

    def _indirect(self, tab, ctx=None):
        out = []
        for q in tab:
            try:
                if '::' in q:            # dict-valued registry: Class::method -> values
                    cn, mn = q.split('::')
                    out += [(g, ctx) for g in self.registry_methods(cn, mn, ctx)]
                elif q.startswith('!'):     # constructor of an unrelated class
                    cn, mn = q[1:].rsplit('.', 1)
                    out.append((self.method(cn, mn), self.cls(cn).qn))
                else:
                    if q.count('.') == 1 and q.split('.')[0][:1].isupper():
                        g = self.method(*q.split('.'))
                        if ctx and self.lookup_method(ctx, g.name) is not g:
                            continue
                    else:
                        g = self.fn(q)
                    out.append((g, ctx if g.cls is not None else None))
            except AnalysisError:
                continue
        return out

    def registry_methods(self, clsname, methname, ctx=None):
        """Methods named as ``self.X`` values in the dict returned by a method."""
        f = self.method(clsname, methname)
        out = []
        cands = [ctx] if ctx else [f.cls.qn] + sorted(self.subclasses(f.cls.qn))
        for n in ast.walk(f.node):
            if isinstance(n, ast.Dict):
                for v in n.values:
                    if (isinstance(v, ast.Attribute) and isinstance(v.value, ast.Name)
                            and v.value.id == 'self'):
                        for c in cands:
                            g = self.lookup_method(c, v.attr)
                            if g is not None and g not in out:
                                out.append(g)
        return out

    def _shadowed_self(self, f, nm):
        g = f
        while g is not None:
            if g.posparams and g.posparams[0] == nm:
                return False
            if nm in g.params:
                return False
            g = g.parent
        return True

    def _is_local(self, f, nm):
        key = ('loc', f.qn)
        if key not in self._calls_cache:
            names = set(f.params)
            if f.vararg:
                names.add(f.vararg)
            if f.kwarg:
                names.add(f.kwarg)
            body = f.node.body if isinstance(f.node.body, list) else [f.node.body]
            stack = list(body)
            while stack:
                n = stack.pop()
                if isinstance(n, (ast.FunctionDef, ast.AsyncFunctionDef, ast.ClassDef)):
                    names.add(n.name)
                    continue
                if isinstance(n, ast.Lambda):
                    continue
                if isinstance(n, ast.Name) and isinstance(n.ctx, ast.Store):
                    names.add(n.id)
                if isinstance(n, (ast.Import, ast.ImportFrom)):
                    for a in n.names:
                        names.add((a.asname or a.name).split('.')[0])
                if isinstance(n, ast.Global):
                    for x in n.names:
                        names.discard(x)
                stack.extend(ast.iter_child_nodes(n))
            self._calls_cache[key] = names
        if nm in self._calls_cache[key]:
            # locally imported names resolve like module symbols
            return not self._local_import(f, nm)
        if f.parent is not None:
            return self._is_local(f.parent, nm)
        return False

    def _local_import(self, f, nm):
        for n in ast.walk(f.node):
            if isinstance(n, (ast.Import, ast.ImportFrom)):
                for a in n.names:
                    if (a.asname or a.name).split('.')[0] == nm:
                        self._imports(f.mod, [n])
                        return True
        return False

    def own_nodes(self, f):
        """AST nodes of f excluding nested function/class bodies (lambdas included)."""
        body = f.node.body if isinstance(f.node.body, list) else [f.node.body]
        stack = list(body)
        # default expressions and decorators belong to the enclosing scope; skip
        while stack:
            n = stack.pop()
            if isinstance(n, (ast.FunctionDef, ast.AsyncFunctionDef, ast.ClassDef)):
                continue
            yield n
            stack.extend(ast.iter_child_nodes(n))

    def calls(self, f, ctx=None):
        """[(call_node, [(Func, ctx')], kind)] for every call in f's own body."""
        key = (f.qn, ctx)
        if key in self._calls_cache:
            return self._calls_cache[key]
        out = []
        callfuncs = set()
        owner = self.owner_class(f)
        for n in self.own_nodes(f):
            if isinstance(n, ast.Call):
                ts, kind = self.resolve_call(f, n, ctx)
                out.append((n, ts, kind))
                callfuncs.add(id(n.func))
        # address-taken methods: self.m passed as a value (e.g. get_cached_value(..., self.calc_min))
        if owner is not None:
            for n in self.own_nodes(f):
                if isinstance(n, ast.Attribute) and id(n) not in callfuncs and isinstance(n.ctx, ast.Load) \
                        and isinstance(n.value, ast.Name) and n.value.id == 'self' and not self._shadowed_self(f, 'self'):
                    ts = self._self_targets(owner, n.attr, ctx)
                    if ts:
                        out.append((n, [(t, ctx) for t in ts], 'ref'))
        out.sort(key=lambda x: (x[0].lineno, x[0].col_offset))
        # nested defs are reachable from their parent
        self._calls_cache[key] = out
        return out

    def nested(self, f):
        pre = f.qn + '.<locals>.'
        return [g for q, g in self.funcs.items()
                if q.startswith(pre) and '.<locals>.' not in q[len(pre):]]

    def reach(self, roots, use_cha=True):
        """Closure over (Func, ctx) pairs.  roots: iterable of Func or (Func, ctx)."""
        seen = {}
        work = []
        for r in roots:
            if isinstance(r, tuple):
                work.append(r + (None,))
            else:
                c = r.cls.qn if (r.cls is not None and not self.subclasses(r.cls.qn)) else None
                work.append((r, c, None))
        while work:
            f, ctx, via = work.pop()
            key = (f.qn, ctx)
            if key in seen:
                continue
            seen[key] = via
            for g in self.nested(f):
                work.append((g, ctx, key))
            for call, ts, kind in self.calls(f, ctx):
                if kind == 'cha' and not use_cha:
                    continue
                for g, c2 in ts:
                    work.append((g, c2, key))
        return seen

    def chain(self, seen, key):
        out = []
        while key is not None:
            out.append(key[0] + ('' if key[1] is None else '@' + key[1].rsplit('.', 1)[-1]))
            key = seen.get(key)
        return list(reversed(out))

    def stats(self):
        c = collections.Counter()
        for f in self.funcs.values():
            for call, ts, kind in self.calls(f, None):
                c[kind] += 1
        return dict(c)


# Frozen indirect-call table: (function name, callee expression) -> targets.
# Each entry confirmed by reading the pinned tree; "Class::method" means the
# bound methods that are values of the dict returned by that method.
INDIRECT = {
    ('verify', 'verify'): ['BaseConstraintVerifier::verifiers'],
    ('verify', 'VerificationClass'): ['!Verification.__init__', '!PandasVerification.__init__',
                                      '!PandasDetection.__init__', '!DatabaseVerification.__init__'],
    ('verify', 'detected_records_writer'): ['PandasConstraintVerifier.write_detected_records',
                                           'DatabaseConstraintVerifier.write_detected_records'],
    ('detect', 'detected_records_writer'): ['PandasConstraintVerifier.write_detected_records'],
    ('__init__', 'self.check_fn'): ['Extractor.check_for_failures'],
    ('extract', 'self.check_fn'): ['Extractor.check_for_failures'],
}


def unparse(n):
    return ast.unparse(n)


def norm(n):
    """Normalised statement text: the stable part of a finding key."""
    s = ast.unparse(n) if isinstance(n, ast.AST) else str(n)
    s = ' '.join(s.split())
    return s[:120]
