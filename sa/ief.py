"""E3 - internal-error freedom: UNDEF, UNBOUND, ARITY, NONEITER.

Always scoped by reachability from a property's roots (see Program.reach).
"""
import ast
import builtins
import symtable

from .flow import Walker, World, GuardMap, compiler_unbound, names_in_target, _mentions
from .model import norm

PY3_NAMES = {}   # module name -> {name: bool}
PY2_ONLY_METHODS = {'iteritems', 'iterkeys', 'itervalues', 'has_key'}


def py3_truth(prog, mod, test):
    """Fold tests on sys.version_info for Python 3: True / False / None."""
    if isinstance(test, ast.UnaryOp) and isinstance(test.op, ast.Not):
        v = py3_truth(prog, mod, test.operand)
        return None if v is None else (not v)
    if isinstance(test, ast.BoolOp):
        vals = [py3_truth(prog, mod, v) for v in test.values]
        if isinstance(test.op, ast.And):
            if any(v is False for v in vals):
                return False
            return True if all(v is True for v in vals) else None
        if any(v is True for v in vals):
            return True
        return False if all(v is False for v in vals) else None
    if isinstance(test, ast.Name):
        e = mod.consts.get(test.id)
        if e is not None and not isinstance(e, ast.Name):
            return py3_truth(prog, mod, e)
        return None
    if isinstance(test, ast.Compare) and len(test.ops) == 1:
        t = ast.unparse(test.left)
        if t in ('sys.version_info[0]', 'sys.version_info.major') and isinstance(test.comparators[0], ast.Constant):
            c = test.comparators[0].value
            op = test.ops[0]
            v = 3
            return {ast.Lt: v < c, ast.LtE: v <= c, ast.Gt: v > c, ast.GtE: v >= c,
                    ast.Eq: v == c, ast.NotEq: v != c}.get(type(op))
    return None


_mn_cache = {}


def module_names(mod):
    """Every name bound at module level (any statement kind)."""
    c = _mn_cache.get(mod.rel)
    if c is not None and c[0] is mod:
        return c[1]
    out = _module_names(mod)
    _mn_cache[mod.rel] = (mod, out)
    return out


def _module_names(mod):
    out = set()
    stack = list(mod.tree.body)
    while stack:
        n = stack.pop()
        if isinstance(n, (ast.FunctionDef, ast.AsyncFunctionDef, ast.ClassDef)):
            out.add(n.name)
            continue
        if isinstance(n, (ast.Import, ast.ImportFrom)):
            for a in n.names:
                if a.name != '*':
                    out.add((a.asname or a.name).split('.')[0])
            continue
        if isinstance(n, ast.Name) and isinstance(n.ctx, ast.Store):
            out.add(n.id)
        if isinstance(n, (ast.Lambda, ast.ListComp, ast.SetComp, ast.DictComp, ast.GeneratorExp)):
            continue
        stack.extend(ast.iter_child_nodes(n))
    # names declared global inside functions
    for n in ast.walk(mod.tree):
        if isinstance(n, ast.Global):
            out.update(n.names)
    out.update(mod.syms)
    return out


class _Scopes:
    """symtable lookup keyed by (name, lineno)."""

    def __init__(self, mod):
        self.tables = {}
        top = symtable.symtable(mod.src, mod.rel, 'exec')
        stack = [top]
        while stack:
            t = stack.pop()
            self.tables[(t.get_name(), t.get_lineno(), t.get_type())] = t
            stack.extend(t.get_children())

    def function(self, f):
        n = f.node
        name = 'lambda' if isinstance(n, ast.Lambda) else n.name
        line = n.lineno
        if getattr(n, 'decorator_list', None):
            line = min([line] + [d.lineno for d in n.decorator_list])
        for ln in (n.lineno, line):
            t = self.tables.get((name, ln, 'function'))
            if t is not None:
                return t
        return None


_scopes_cache = {}


def scopes(mod):
    if mod.rel not in _scopes_cache or _scopes_cache[mod.rel][0] is not mod:
        _scopes_cache[mod.rel] = (mod, _Scopes(mod))
    return _scopes_cache[mod.rel][1]


_fl_cache = {}


def _rewritten(f):
    """the function's tree is not its source text any more (new helpers read in place, sa/specialise.py): scopes and the
    compiler's view are taken from the tree"""
    return bool(getattr(f, 'inlined', None)) or f.qn.endswith('[specialised]')


def fn_locals(f):
    c = _fl_cache.get(f.qn)
    if c is not None and c[0] is f:
        return c[1]
    if _rewritten(f):
        from .specialise import stores, _params
        params = set(_params(f.node.args))
        r = (set(stores(f.node)) - params, params)
        _fl_cache[f.qn] = (f, r)
        return r
    t = scopes(f.mod).function(f)
    if t is None:
        r = (set(), set())
    else:
        locs = {s.get_name() for s in t.get_symbols() if s.is_local() and not s.is_parameter()}
        params = {s.get_name() for s in t.get_symbols() if s.is_parameter()}
        r = (locs, params)
    _fl_cache[f.qn] = (f, r)
    return r


def live_nodes(prog, f):
    """own nodes of f, skipping arms that are dead under Python 3."""
    body = f.node.body if isinstance(f.node.body, list) else [f.node.body]
    stack = list(body)
    while stack:
        n = stack.pop()
        if isinstance(n, (ast.FunctionDef, ast.AsyncFunctionDef, ast.ClassDef)):
            continue
        if isinstance(n, (ast.If, ast.IfExp)):
            v = py3_truth(prog, f.mod, n.test)
            if v is True:
                yield n.test
                stack.extend(n.body if isinstance(n.body, list) else [n.body])
                continue
            if v is False:
                stack.extend(n.orelse if isinstance(n.orelse, list) else [n.orelse])
                continue
        yield n
        stack.extend(ast.iter_child_nodes(n))


REDUCTIONS = {'sum', 'min', 'max', 'count', 'nunique', 'mean', 'any', 'all', 'prod', 'median'}


def unguarded_item_calls(prog, f):
    """`.item()` applied directly to a pandas reduction (x.sum().item()) with neither a hasattr guard nor an
    AttributeError handler around it.  (Contradiction rule: the repository guards .item() at its other sites.)"""
    from .flow import GuardMap
    out = []
    gm = None
    for n in live_nodes(prog, f):
        if not (isinstance(n, ast.Call) and isinstance(n.func, ast.Attribute) and n.func.attr == 'item' and not n.args):
            continue
        recv = n.func.value
        if not (isinstance(recv, ast.Call) and isinstance(recv.func, ast.Attribute) and recv.func.attr in REDUCTIONS):
            continue
        if gm is None:
            gm = GuardMap(f.node)
        ch = gm.chain(n) or ()
        ok = False
        for g in ch:
            if g.kind == 'if' and 'hasattr' in ast.unparse(g.test) and "'item'" in ast.unparse(g.test):
                ok = True
        if not ok and not _in_try_catching(f.node, n, ('AttributeError', 'Exception', 'BaseException')):
            out.append(n)
    return out


def _in_try_catching(fnode, node, names):
    for t in ast.walk(fnode):
        if isinstance(t, ast.Try) and any(x is node for b in t.body for x in ast.walk(b)):
            for h in t.handlers:
                if h.type is None:
                    return True
                hs = [h.type] if not isinstance(h.type, ast.Tuple) else h.type.elts
                if any(ast.unparse(x).split('.')[-1] in names for x in hs):
                    return True
    return False


def undef(prog, f):
    """Name loads that no scope defines -> [(node, name)]"""
    mod = f.mod
    mnames = module_names(mod)
    t = scopes(mod).function(f)
    out = []
    for n in live_nodes(prog, f):
        if isinstance(n, ast.Name) and isinstance(n.ctx, ast.Load):
            nm = n.id
            if nm in mnames or hasattr(builtins, nm) or nm in ('__file__', '__name__', '__doc__'):
                continue
            if _bound_in_enclosing(prog, f, nm):
                continue
            if _in_comprehension_scope(f, n):
                continue
            out.append((n, nm))
    return out


def _bound_in_enclosing(prog, f, nm):
    g = f
    while g is not None:
        locs, params = fn_locals(g)
        if nm in locs or nm in params:
            return True
        # lambda params inside
        g = g.parent
    return False


_comp_cache = {}


def _in_comprehension_scope(f, name_node):
    """Is name_node bound by an enclosing comprehension/lambda inside f?"""
    key = id(f.node)
    if key not in _comp_cache:
        bound = {}

        def rec(n, env):
            if isinstance(n, (ast.ListComp, ast.SetComp, ast.DictComp, ast.GeneratorExp)):
                env = set(env)
                for g in n.generators:
                    names_in_target(g.target, env)
                    for x in ast.walk(g.target):
                        pass
            elif isinstance(n, ast.Lambda):
                env = set(env)
                a = n.args
                for x in a.posonlyargs + a.args + a.kwonlyargs:
                    env.add(x.arg)
                if a.vararg:
                    env.add(a.vararg.arg)
                if a.kwarg:
                    env.add(a.kwarg.arg)
            if isinstance(n, ast.NamedExpr) and isinstance(n.target, ast.Name):
                env = set(env) | {n.target.id}
            if isinstance(n, ast.Name):
                bound[id(n)] = n.id in env
            for ch in ast.iter_child_nodes(n):
                rec(ch, env)
        rec(f.node, set())
        _comp_cache[key] = (f.node, bound)
    return _comp_cache[key][1].get(id(name_node), False)


class _DA(Walker):
    def __init__(self, f, locs, params, noreturn=()):
        super().__init__(f.node, params, noreturn)
        self.f = f
        self.locs = locs
        self.reports = {}     # name -> (node, weak)

    def expr(self, e, ws, stmt):
        for n in _loads(e):
            if n.id in self.locs:
                for w in ws:
                    if n.id not in w.asg:
                        old = self.reports.get(n.id)
                        if old is None or (old[1] and not w.weak):
                            self.reports[n.id] = (n, w.weak)


def _loads(e):
    out = []

    def rec(n, bound):
        if isinstance(n, ast.Lambda):
            return
        if isinstance(n, (ast.ListComp, ast.SetComp, ast.DictComp, ast.GeneratorExp)):
            b = set(bound)
            for g in n.generators:
                names_in_target(g.target, b)
            for g in n.generators:
                rec(g.iter, b)
                for i in g.ifs:
                    rec(i, b)
            for f in ('elt', 'key', 'value'):
                if hasattr(n, f):
                    rec(getattr(n, f), b)
            return
        if isinstance(n, ast.Name):
            if isinstance(n.ctx, ast.Load) and n.id not in bound:
                out.append(n)
            return
        for ch in ast.iter_child_nodes(n):
            rec(ch, bound)
    rec(e, set())
    return out


def unbound(prog, f, noreturn=()):
    """-> [(name, node, weak)] locals read on a path where never assigned."""
    if isinstance(f.node, ast.Lambda):
        return []
    locs, params = fn_locals(f)
    w = _DA(f, locs, params, noreturn)
    w.run()
    res = [(k, v[0], v[1]) for k, v in w.reports.items()]
    return res


_oracle_cache = {}


def oracle(mod):
    if mod.rel not in _oracle_cache or _oracle_cache[mod.rel][0] is not mod:
        _oracle_cache[mod.rel] = (mod, compiler_unbound(mod.src, mod.rel))
    return _oracle_cache[mod.rel][1]


def in_oracle(f, name):
    if _rewritten(f):
        try:
            o = compiler_unbound(ast.unparse(f.node), '<rewritten>')
        except SyntaxError:
            return True
        return any(nm == f.name and name in names for (nm, ln), names in o.items())
    o = oracle(f.mod)
    n = f.node
    lines = {n.lineno} | {d.lineno for d in getattr(n, 'decorator_list', [])}
    for (nm, ln), names in o.items():
        if nm == f.name and ln in lines and name in names:
            return True
    return False


def arity(prog, f, ctx=None):
    """-> [(call, target, message)]"""
    out = []
    for call, ts, kind in prog.calls(f, ctx):
        if kind != 'resolved' or not ts:
            continue
        if any(isinstance(a, ast.Starred) for a in call.args) or any(k.arg is None for k in call.keywords):
            continue
        msgs = []
        for g, c2 in ts:
            m = _bind_error(prog, f, call, g)
            msgs.append(m)
        if msgs and all(m is not None for m in msgs):
            out.append((call, ts[0][0], msgs[0]))
    return out


def _bind_error(prog, f, call, g):
    pos = list(g.posparams)
    bound_method = False
    if g.is_method and not g.is_static:
        fn = call.func
        unbound_form = False
        if isinstance(fn, ast.Attribute):
            s = prog.resolve_expr(f.mod, fn.value)
            if s is not None and s.kind == 'class' and not (isinstance(fn.value, ast.Name)
                                                             and prog._is_local(f, fn.value.id)):
                unbound_form = not g.is_classmethod
        if not unbound_form:
            bound_method = True
    if bound_method and pos:
        pos = pos[1:]
    npos = len(call.args)
    if npos > len(pos) and not g.vararg:
        return '%d positional arguments for %s%r' % (npos, g.short, tuple(pos))
    bound = set(pos[:npos])
    for k in call.keywords:
        if k.arg in bound:
            return 'argument %r given twice to %s' % (k.arg, g.short)
        if k.arg not in pos and k.arg not in g.kwonly and not g.kwarg:
            return 'unexpected keyword %r for %s' % (k.arg, g.short)
        bound.add(k.arg)
    for p in pos + g.kwonly:
        if p not in bound and p not in g.defaults:
            return 'missing argument %r of %s' % (p, g.short)
    return None


def may_return_none(f):
    """A function that returns a value on some path and nothing on another."""
    if isinstance(f.node, ast.Lambda):
        return None
    has_val = False
    bare = None
    for n in prog_own(f):
        if isinstance(n, ast.Return):
            if n.value is None or (isinstance(n.value, ast.Constant) and n.value.value is None):
                bare = bare or n
            else:
                has_val = True
        if isinstance(n, (ast.Yield, ast.YieldFrom)):
            return None
    if not has_val:
        return None
    if bare is not None:
        return bare
    w = Walker(f.node, f.params)
    w.run()
    for kind, node, ws in w.exits:
        if kind == 'fall' and any(not x.weak for x in ws):
            return f.node
    return None


def prog_own(f):
    stack = list(f.node.body)
    while stack:
        n = stack.pop()
        if isinstance(n, (ast.FunctionDef, ast.AsyncFunctionDef, ast.ClassDef, ast.Lambda)):
            continue
        yield n
        stack.extend(ast.iter_child_nodes(n))


def noneiter(prog, f, ctx=None):
    """Calls whose result is iterated / unpacked although the callee may return None."""
    out = []
    sites = {}
    for n in prog.own_nodes(f):
        if isinstance(n, (ast.For, ast.comprehension)) and isinstance(n.iter, ast.Call):
            sites[id(n.iter)] = 'iterated'
        if isinstance(n, ast.Assign) and isinstance(n.value, ast.Call) and \
                any(isinstance(t, (ast.Tuple, ast.List)) for t in n.targets):
            sites[id(n.value)] = 'unpacked'
    # x = call(...); ... for p in x:  with no test of x in between
    assigned = {}
    for n in prog.own_nodes(f):
        if isinstance(n, ast.Assign) and len(n.targets) == 1 and isinstance(n.targets[0], ast.Name):
            assigned.setdefault(n.targets[0].id, []).append(n.value)
    gm = None
    for n in prog.own_nodes(f):
        if isinstance(n, (ast.For, ast.comprehension)) and isinstance(n.iter, ast.Name):
            vals = assigned.get(n.iter.id, [])
            if len(vals) == 1 and isinstance(vals[0], ast.Call):
                if gm is None:
                    gm = GuardMap(f.node)
                ch = gm.chain(n.iter) or ()
                if any(g.kind == 'if' and _mentions(ast.unparse(g.test), n.iter.id) for g in ch):
                    continue
                sites[id(vals[0])] = 'assigned to %r and iterated without a None test' % n.iter.id
    if not sites:
        return out
    for call, ts, kind in prog.calls(f, ctx):
        if id(call) in sites and kind == 'resolved' and ts:
            wh = [may_return_none(g) for g, _ in ts]
            if all(w is not None for w in wh):
                out.append((call, ts[0][0], sites[id(call)], wh[0]))
    return out


def missing_self_methods(prog, f):
    """self.m(...) calls where no class of the family (bases, subclasses, their bases) defines or assigns m."""
    owner = prog.owner_class(f)
    if owner is None or isinstance(f.node, ast.Lambda):
        return []
    fam = set(prog.mro(owner.qn)) | prog.subclasses(owner.qn)
    for k in list(fam):
        fam |= set(prog.mro(k))
    avail = set()
    for k in fam:
        c = prog.classes.get(k)
        if c is None:
            continue
        if any(b is None for b in c.bases) and any(e not in ('object',) for e in c.base_exprs):
            return []          # external base class: its methods are unknown
        if '__getattr__' in c.methods:
            return []
        avail |= c.attrs_assigned | set(c.methods)
        for b in c.node.body:
            if isinstance(b, ast.Assign):
                avail |= {t.id for t in b.targets if isinstance(t, ast.Name)}
        for m in c.methods.values():
            src = ast.unparse(m.node)
            if '__dict__' in src or 'setattr(' in src:
                return []
    out = []
    for n in prog.own_nodes(f):
        if isinstance(n, ast.Call) and isinstance(n.func, ast.Attribute) and isinstance(n.func.value, ast.Name) and n.func.value.id == 'self' \
                and n.func.attr not in avail and not n.func.attr.startswith('__'):
            out.append((n, n.func.attr))
    return out


def first_item_sentinel(fnode, v):
    """The run-length idiom, checked as a shape:

        L = None
        for ...:
            ...
            if A == L:   <reads / updates V>
            else:        ...; L = A; V = <start>
        if L: <reads V>

    V is bound by the first pass through the else arm, and the if arm can run before that only when A == None.  True when every
    read of V in the function fits: inside the loop it is in the if arm (or after `V = ` in the else arm), outside the loop it is
    under a truth test of L; L is bound nowhere else.  What remains to be known by reading is that the items are never None."""
    own = []
    stack = list(fnode.body)
    while stack:
        n = stack.pop()
        own.append(n)
        if isinstance(n, (ast.FunctionDef, ast.AsyncFunctionDef, ast.Lambda, ast.ClassDef)):
            continue
        stack.extend(ast.iter_child_nodes(n))
    loops = [n for n in own if isinstance(n, ast.For)]
    for loop in loops:
        for st in loop.body:
            if not (isinstance(st, ast.If) and isinstance(st.test, ast.Compare) and len(st.test.ops) == 1 and isinstance(st.test.ops[0], ast.Eq)
                    and isinstance(st.test.left, ast.Name) and isinstance(st.test.comparators[0], ast.Name) and st.orelse):
                continue
            a, l = st.test.left.id, st.test.comparators[0].id
            binds_l = [x for x in st.orelse if isinstance(x, ast.Assign) and len(x.targets) == 1 and isinstance(x.targets[0], ast.Name)
                       and x.targets[0].id == l and isinstance(x.value, ast.Name) and x.value.id == a]
            binds_v = [x for x in st.orelse if isinstance(x, ast.Assign) and len(x.targets) == 1 and isinstance(x.targets[0], ast.Name)
                       and x.targets[0].id == v]
            if not binds_l or not binds_v:
                continue
            # L: `L = None` ahead of the loop in the function body, `L = A` in the else arm, nothing else
            l_stores = [x for x in own if isinstance(x, ast.Name) and x.id == l and isinstance(x.ctx, ast.Store)]
            init = [x for x in fnode.body if isinstance(x, ast.Assign) and len(x.targets) == 1 and isinstance(x.targets[0], ast.Name)
                    and x.targets[0].id == l and isinstance(x.value, ast.Constant) and x.value.value is None and x.lineno < loop.lineno]
            if len(init) != 1 or len(l_stores) != 1 + len(binds_l) or len(binds_l) != 1:
                continue
            a_stores_after = [x for s2 in st.orelse for x in ast.walk(s2) if isinstance(x, ast.Name) and x.id == a and isinstance(x.ctx, ast.Store)]
            if a_stores_after:
                continue
            in_if = {id(x) for s2 in st.body for x in ast.walk(s2)}
            after_bind = set()
            seen_bind = False
            for s2 in st.orelse:
                if seen_bind:
                    after_bind |= {id(x) for x in ast.walk(s2)}
                if s2 is binds_v[0]:
                    seen_bind = True
            in_loop = {id(x) for x in ast.walk(loop)}
            # names that are None until some pass of this loop binds them: a truth test of one means the loop body has run, and
            # its first pass took the else arm
            sentinels = set()
            for nm in {x.id for x in own if isinstance(x, ast.Name) and isinstance(x.ctx, ast.Store)}:
                st_all = [x for x in own if isinstance(x, ast.Name) and x.id == nm and isinstance(x.ctx, ast.Store)]
                ini = [x for x in fnode.body if isinstance(x, ast.Assign) and len(x.targets) == 1 and isinstance(x.targets[0], ast.Name)
                       and x.targets[0].id == nm and isinstance(x.value, ast.Constant) and x.value.value is None and x.lineno < loop.lineno]
                if len(ini) == 1 and all(id(x) in in_loop or x is ini[0].targets[0] for x in st_all) and len(st_all) > 1:
                    sentinels.add(nm)
            guarded = set()
            for g in own:
                if isinstance(g, ast.If) and isinstance(g.test, ast.Name) and g.test.id in sentinels:
                    guarded |= {id(x) for s2 in g.body for x in ast.walk(s2)}
            ok = True
            for x in own:
                if isinstance(x, ast.Name) and x.id == v and isinstance(x.ctx, ast.Load) or \
                        (isinstance(x, ast.AugAssign) and isinstance(x.target, ast.Name) and x.target.id == v):
                    ok = ok and (id(x) in guarded or (id(x) in in_loop and (id(x) in in_if or id(x) in after_bind)))
            if ok:
                return True
    return False


def run_ief(run, rule_prefix, roots, triage=None, noreturn=(), exclude_modules=(), use_cha=True, selfattr=False):
    """Evaluate the four IEF sub-rules on everything reachable from roots.

    One obligation per (function, sub-rule); violated obligations are keyed by
    the offending construct so that a different construct is a new violation.
    """
    prog = run.prog
    triage = triage or {}
    seen = prog.reach(roots, use_cha=use_cha)
    fns = {}
    for (qn, ctx), via in seen.items():
        fns.setdefault(qn, []).append((ctx, (qn, ctx)))
    rid = rule_prefix + '-IEF'
    run.rule(rid, 'no undefined name, no local read before assignment on a feasible if/else path, no call that cannot '
                  'bind its arguments, no iteration over a possibly-None result, no Python-2-only method call, in any function '
                  'reachable from the property\'s entry points')
    nchecked = 0
    for qn in sorted(fns):
        f = prog.funcs[qn]
        if f.mod.name in exclude_modules:
            continue
        nchecked += 1
        chain = prog.chain(seen, fns[qn][0][1])
        probs = []
        for node, nm in undef(prog, f):
            probs.append(('UNDEF', '%s' % nm, node, 'name %r is not defined in any scope' % nm))
        for nm, node, weak in unbound(prog, f, noreturn):
            if not in_oracle(f, nm):
                # we must never be less precise than the compiler
                run.note(rid, 'local %r: our walker reports it, CPython proves it bound - ignored' % nm, f, node)
                continue
            if weak:
                run.note(rid, 'local %r may be unbound only via a zero-iteration loop or an exception edge' % nm, f, node)
                continue
            probs.append(('UNBOUND', nm, node, 'local %r is read on a path on which it was never assigned' % nm))
        for node in live_nodes(prog, f):
            if isinstance(node, ast.Call) and isinstance(node.func, ast.Attribute) and node.func.attr in PY2_ONLY_METHODS \
                    and node.func.attr not in prog._bymeth:
                probs.append(('DENYAPI', node.func.attr, node,
                              '.%s() exists neither on Python 3 dicts nor on pandas >= 2 objects: AttributeError when this line runs' % node.func.attr))
        for node in unguarded_item_calls(prog, f):
            probs.append(('NOITEM', norm(node)[:50], node,
                          '.item() is called on the result of a pandas reduction without the guard the repository uses at its other '
                          '.item() sites (hasattr(x, "item") / except AttributeError / py_val): for nullable and Arrow-backed columns '
                          'the reduction returns a plain Python number: AttributeError when this line runs'))
        if selfattr:
            for node, nm in missing_self_methods(prog, f):
                probs.append(('NOMETHOD', nm, node, 'self.%s(...) is called but no class in the hierarchy defines %s: AttributeError when this line runs' % (nm, nm)))
        for ctx, key in fns[qn]:
            for call, g, msg in arity(prog, f, ctx):
                probs.append(('ARITY', norm(call)[:60], call, 'call cannot bind: ' + msg))
            for call, g, how, wh in noneiter(prog, f, ctx):
                probs.append(('NONEITER', norm(call)[:60], call,
                              'result of %s is %s but it can return None (line %s)' % (g.short, how, getattr(wh, 'lineno', '?'))))
        dedup = {}
        for kind, what, node, msg in probs:
            dedup[(kind, what)] = (node, msg)
        if not dedup:
            run.ob(rid, '%s::%s' % (f.rel, f.short), True, 'no internal-error construct', fn=f,
                   nontrivial=len(f.node.body) > 3 if isinstance(f.node.body, list) else False)
        for (kind, what), (node, msg) in sorted(dedup.items()):
            key = '%s::%s::%s:%s' % (f.rel, f.short, kind, what)
            tr = triage.get((f.short, kind, what))
            if not tr and kind == 'UNBOUND':
                # an idiom confirmed by reading for one function (or a local function of it): the shape is checked here
                tr = triage.get((f.short.split('.<locals>.')[0], kind, 'first-item-sentinel'))
                if tr and not first_item_sentinel(f.node, what):
                    tr = None
            if tr:
                run.note(rid, 'triaged %s in %s: %s' % (what, f.short, tr), f, node)
                run.ob(rid, key, True, 'triaged: ' + tr, fn=f, node=node)
                continue
            run.ob(rid, key, False, '%s in %s: %s' % (kind, f.short, msg), fn=f, node=node,
                   detail={'call_chain': chain})
    run.units.setdefault('ief_functions_checked', 0)
    run.units['ief_functions_checked'] = nchecked
    return seen
