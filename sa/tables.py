"""E4 - decision tables of verifiers / detectors: arm label -> comparator."""
import ast

from .flow import GuardMap

OPNAME = {ast.Gt: '>', ast.GtE: '>=', ast.Lt: '<', ast.LtE: '<=', ast.Eq: '==', ast.NotEq: '!='}
FLIP = {'>': '<', '>=': '<=', '<': '>', '<=': '>=', '==': '==', '!=': '!='}


def strip_not(e, pol):
    while isinstance(e, ast.UnaryOp) and isinstance(e.op, ast.Not):
        e, pol = e.operand, not pol
    return e, pol


def guard_facts(chain):
    """-> (positive string literals, markers) for a guard chain."""
    lits = set()
    marks = set()
    for g in chain:
        if g.kind != 'if':
            continue
        e, pol = strip_not(g.test, g.pol)
        parts = [e]
        if isinstance(e, ast.BoolOp):
            parts = list(e.values)         # not (A and B) is (not A) or (not B): each part with the polarity of the whole
        for q in parts:
            q, qpol = strip_not(q, pol)
            txt = ast.unparse(q)
            if isinstance(q, ast.Compare) and len(q.ops) == 1 and isinstance(q.comparators[0], ast.Constant) \
                    and isinstance(q.comparators[0].value, str):
                if isinstance(q.ops[0], ast.Eq) and qpol:
                    lits.add(q.comparators[0].value)
                    continue
                if isinstance(q.ops[0], ast.NotEq) and qpol:
                    marks.add('incompat')
                    continue
                if isinstance(q.ops[0], ast.Eq) and not qpol:
                    continue            # an else-side of an equality: no fact
            if 'compatible' in txt and not qpol:
                marks.add('incompat')
            elif 'type(' in txt and 'not in' in txt and qpol:
                marks.add('incompat')
            elif 'type(' in txt and ' in ' in txt and 'not in' not in txt and not qpol:
                marks.add('incompat')            # `type(x) in NUMERIC` is false
            elif qpol and ('datetime' in txt or 'date_cols' in txt or 'is_date' in txt):
                marks.add('date')
    return lits, marks


def comparator(e, roles=None):
    """Normalised comparator of a verdict expression."""
    if isinstance(e, ast.Constant):
        return repr(e.value)
    if isinstance(e, ast.Compare):
        ops = [OPNAME.get(type(o), '?') for o in e.ops]
        right = e.comparators[-1]
        rt = repr(right.value) if isinstance(right, ast.Constant) else 'BOUND'
        if len(ops) == 2 and ops[0] == ops[1] == '==':
            ops = ['==']
        return ' '.join(ops) + ' ' + rt
    if isinstance(e, ast.Call):
        fn = e.func
        name = fn.attr if isinstance(fn, ast.Attribute) else getattr(fn, 'id', '?')
        if name == 'detection_field' and len(e.args) >= 2:
            return comparator(e.args[1])
        return 'call:' + name
    if isinstance(e, ast.UnaryOp) and isinstance(e.op, ast.Invert):
        return '~' + comparator(e.operand)
    return 'expr:' + ast.unparse(e)[:40]


OPERATOR_FUNCS = {'gt': '>', 'ge': '>=', 'lt': '<', 'le': '<=', 'eq': '==', 'ne': '!='}


def _table_rows(s, pick, consts, gm):
    """Rows of a data-driven dispatch  `for (k, fn) in TABLE: if subject == k: <picked statement using fn(x, bound)>`:
    one row per table entry, the comparator taken from the entry's operator.* function."""
    if not (isinstance(s, ast.For) and len(s.body) == 1 and isinstance(s.body[0], ast.If) and consts):
        return None
    it = s.iter
    if isinstance(it, ast.Call) and isinstance(it.func, ast.Attribute) and it.func.attr == 'items':
        it = it.func.value
    if not (isinstance(it, ast.Name) and it.id in consts and isinstance(s.target, (ast.Tuple, ast.List)) and len(s.target.elts) == 2
            and all(isinstance(e, ast.Name) for e in s.target.elts)):
        return None
    kvar, fvar = s.target.elts[0].id, s.target.elts[1].id
    tab = consts[it.id]
    entries = []
    if isinstance(tab, ast.Dict):
        entries = list(zip(tab.keys, tab.values))
    elif isinstance(tab, (ast.Tuple, ast.List)):
        entries = [(e.elts[0], e.elts[1]) for e in tab.elts if isinstance(e, (ast.Tuple, ast.List)) and len(e.elts) == 2]
    picked = [(st, pick(st)) for st in s.body[0].body if pick(st) is not None]
    if not entries or len(picked) != 1:
        return None
    st, v = picked[0]
    calls = [c for c in ast.walk(v) if isinstance(c, ast.Call) and isinstance(c.func, ast.Name) and c.func.id == fvar and len(c.args) == 2]
    if len(calls) != 1:
        return None
    bound = calls[0].args[1]
    rt = repr(bound.value) if isinstance(bound, ast.Constant) else 'BOUND'
    _, marks = guard_facts(gm.chain(s) or ())
    rows = []
    for k, fn in entries:
        name = fn.attr if isinstance(fn, ast.Attribute) else getattr(fn, 'id', None)
        if not (isinstance(k, ast.Constant) and name in OPERATOR_FUNCS):
            return None
        rows.append(((k.value,), frozenset(marks), OPERATOR_FUNCS[name] + ' ' + rt, st))
    return rows


def _verdict_name(v):
    """the local name a picked value merely forwards: NAME, or detection_field(col, NAME)"""
    if isinstance(v, ast.Call) and getattr(v.func, 'id', getattr(v.func, 'attr', None)) == 'detection_field' and len(v.args) >= 2:
        v = v.args[1]
    return v.id if isinstance(v, ast.Name) else None


def _forwarded(fnode, gm, s, v, pick, depth=0):
    """(guard chain, verdict expression, statement) rows for a picked statement.  When the verdict is computed into a local first
    (`ok = c >= value` in each arm, one store of `ok` afterwards), the rows are the local's definitions, each under its own guards
    together with the store's."""
    name = _verdict_name(v)
    params = {a.arg for a in fnode.args.args + fnode.args.kwonlyargs}
    if name is None or name in params or depth > 3:
        return [(tuple(gm.chain(s) or ()), v, s)]
    defs = [d for d in ast.walk(fnode) if isinstance(d, ast.Assign) and len(d.targets) == 1 and isinstance(d.targets[0], ast.Name)
            and d.targets[0].id == name and d is not s and pick(d) is None and d.lineno < s.lineno]
    if not defs:
        return [(tuple(gm.chain(s) or ()), v, s)]
    out = []
    for d in defs:
        for chain, val, st in _forwarded(fnode, gm, d, d.value, pick, depth + 1):
            st._store = getattr(s, '_store', s)       # the statement that stores the verdict, for rules about the stored value
            out.append((tuple(chain) + tuple(gm.chain(s) or ()), val, st))
    return out


def table(fnode, pick, consts=None):
    """pick(stmt) -> verdict expression or None.  -> [(label, markers, comparator, stmt)]"""
    gm = GuardMap(fnode)
    rows = []
    stack = list(fnode.body)
    while stack:
        s = stack.pop(0)
        if isinstance(s, (ast.FunctionDef, ast.ClassDef)):
            continue
        tr = _table_rows(s, pick, consts, gm)
        if tr is not None:
            rows += tr
            continue
        v = pick(s)
        if v is not None:
            for chain, val, st in _forwarded(fnode, gm, s, v, pick):
                lits, marks = guard_facts(chain)
                label = tuple(sorted(lits)) if lits else (('incompat',) if 'incompat' in marks else ('else',))
                rows.append((label, frozenset(marks), comparator(val), st))
        for f in ('body', 'orelse', 'finalbody'):
            b = getattr(s, f, None)
            if isinstance(b, list):
                stack = [x for x in b if isinstance(x, ast.stmt)] + stack
        if isinstance(s, ast.Try):
            for h in s.handlers:
                stack = list(h.body) + stack
    return rows


def pick_result(name='result'):
    def pick(s):
        if isinstance(s, ast.Assign) and len(s.targets) == 1 and isinstance(s.targets[0], ast.Name) \
                and s.targets[0].id == name:
            return s.value
        return None
    return pick


def pick_store(attr='out_df'):
    def pick(s):
        if isinstance(s, ast.Assign) and len(s.targets) == 1 and isinstance(s.targets[0], ast.Subscript):
            t = s.targets[0].value
            if isinstance(t, ast.Attribute) and t.attr == attr:
                return s.value
        return None
    return pick
