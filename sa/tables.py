"""E4 - decision tables of verifiers / detectors: arm label -> comparator."""
import ast

from .flow import GuardMap

OPNAME = {ast.Gt: '>', ast.GtE: '>=', ast.Lt: '<', ast.LtE: '<=', ast.Eq: '==', ast.NotEq: '!='}
FLIP = {'>': '<', '>=': '<=', '<': '>', '<=': '>=', '==': '==', '!=': '!='}


def strip_not(e, pol):
    while isinstance(e, ast.UnaryOp) and isinstance(e.op, ast.Not):
        e, pol = e.operand, not pol
    return e, pol


def guard_facts(chain):
    """-> (positive string literals, markers) for a guard chain."""
    lits = set()
    marks = set()
    for g in chain:
        if g.kind != 'if':
            continue
        e, pol = strip_not(g.test, g.pol)
        parts = [e]
        if isinstance(e, ast.BoolOp) and isinstance(e.op, ast.Or) and pol:
            parts = list(e.values)
        elif isinstance(e, ast.BoolOp) and isinstance(e.op, ast.And) and pol:
            parts = list(e.values)
        for q in parts:
            q, qpol = strip_not(q, pol)
            txt = ast.unparse(q)
            if isinstance(q, ast.Compare) and len(q.ops) == 1 and isinstance(q.comparators[0], ast.Constant) \
                    and isinstance(q.comparators[0].value, str):
                if isinstance(q.ops[0], ast.Eq) and qpol:
                    lits.add(q.comparators[0].value)
                    continue
                if isinstance(q.ops[0], ast.NotEq) and qpol:
                    marks.add('incompat')
                    continue
                if isinstance(q.ops[0], ast.Eq) and not qpol:
                    continue            # an else-side of an equality: no fact
            if 'compatible' in txt and not qpol:
                marks.add('incompat')
            elif 'type(' in txt and 'not in' in txt and qpol:
                marks.add('incompat')
            elif qpol and ('datetime' in txt or 'date_cols' in txt or 'is_date' in txt):
                marks.add('date')
    return lits, marks


def comparator(e, roles=None):
    """Normalised comparator of a verdict expression."""
    if isinstance(e, ast.Constant):
        return repr(e.value)
    if isinstance(e, ast.Compare):
        ops = [OPNAME.get(type(o), '?') for o in e.ops]
        right = e.comparators[-1]
        rt = repr(right.value) if isinstance(right, ast.Constant) else 'BOUND'
        if len(ops) == 2 and ops[0] == ops[1] == '==':
            ops = ['==']
        return ' '.join(ops) + ' ' + rt
    if isinstance(e, ast.Call):
        fn = e.func
        name = fn.attr if isinstance(fn, ast.Attribute) else getattr(fn, 'id', '?')
        if name == 'detection_field' and len(e.args) >= 2:
            return comparator(e.args[1])
        return 'call:' + name
    if isinstance(e, ast.UnaryOp) and isinstance(e.op, ast.Invert):
        return '~' + comparator(e.operand)
    return 'expr:' + ast.unparse(e)[:40]


def table(fnode, pick):
    """pick(stmt) -> verdict expression or None.  -> [(label, markers, comparator, stmt)]"""
    gm = GuardMap(fnode)
    rows = []
    stack = list(fnode.body)
    while stack:
        s = stack.pop(0)
        if isinstance(s, (ast.FunctionDef, ast.ClassDef)):
            continue
        v = pick(s)
        if v is not None:
            lits, marks = guard_facts(gm.chain(s) or ())
            label = tuple(sorted(lits)) if lits else (('incompat',) if 'incompat' in marks else ('else',))
            rows.append((label, frozenset(marks), comparator(v), s))
        for f in ('body', 'orelse', 'finalbody'):
            b = getattr(s, f, None)
            if isinstance(b, list):
                stack = [x for x in b if isinstance(x, ast.stmt)] + stack
        if isinstance(s, ast.Try):
            for h in s.handlers:
                stack = list(h.body) + stack
    return rows


def pick_result(name='result'):
    def pick(s):
        if isinstance(s, ast.Assign) and len(s.targets) == 1 and isinstance(s.targets[0], ast.Name) \
                and s.targets[0].id == name:
            return s.value
        return None
    return pick


def pick_store(attr='out_df'):
    def pick(s):
        if isinstance(s, ast.Assign) and len(s.targets) == 1 and isinstance(s.targets[0], ast.Subscript):
            t = s.targets[0].value
            if isinstance(t, ast.Attribute) and t.attr == attr:
                return s.value
        return None
    return pick
