"""E5 - finite-domain abstract evaluation.

orderings domain: numeric symbols are known only by their sign (-1, 0, +1) and
the constraint lo <= hi; expressions are the comparisons with the constant 0
(and chained / boolean combinations) that the sign rules use.  Anything else
raises Unsupported (reported as ANALYSIS-ERROR).
"""
import ast


class Unsupported(Exception):
    pass


SIGN_STATES = [(-1, -1), (-1, 0), (-1, 1), (0, 0), (0, 1), (1, 1)]     # (sgn min, sgn max), min <= max


def _cmp(op, a, b):
    if isinstance(op, ast.Gt):
        return a > b
    if isinstance(op, ast.GtE):
        return a >= b
    if isinstance(op, ast.Lt):
        return a < b
    if isinstance(op, ast.LtE):
        return a <= b
    if isinstance(op, ast.Eq):
        return a == b
    if isinstance(op, ast.NotEq):
        return a != b
    raise Unsupported('comparison %r' % op)


def _val(e, env):
    if isinstance(e, ast.Constant) and e.value == 0 and not isinstance(e.value, bool):
        return ('z', 0)
    if isinstance(e, ast.Name) and e.id in env:
        return ('s', e.id)
    raise Unsupported('operand %s' % ast.unparse(e))


def eval_sign(e, env):
    """Truth of a boolean expression over symbols known by sign.  env: name -> sign,
    with env['#order'] = (lo_name, hi_name) meaning lo <= hi."""
    if isinstance(e, ast.BoolOp):
        vals = [eval_sign(v, env) for v in e.values]
        return all(vals) if isinstance(e.op, ast.And) else any(vals)
    if isinstance(e, ast.UnaryOp) and isinstance(e.op, ast.Not):
        return not eval_sign(e.operand, env)
    if isinstance(e, ast.Constant) and isinstance(e.value, bool):
        return e.value
    if isinstance(e, ast.Compare):
        operands = [e.left] + list(e.comparators)
        res = True
        for op, a, b in zip(e.ops, operands, operands[1:]):
            va, vb = _val(a, env), _val(b, env)
            if va[0] == 's' and vb[0] == 's':
                sa, sb = env[va[1]], env[vb[1]]
                if sa != sb:
                    r = _cmp(op, sa, sb)
                elif sa == 0:
                    r = _cmp(op, 0, 0)
                else:
                    # same non-zero sign: only the declared order lo <= hi is known
                    lo, hi = env.get('#order', (None, None))
                    if isinstance(op, ast.Eq) and len(e.ops) == 2:
                        # m == M == 0 pattern: decided by the comparison with 0 that follows
                        r = True
                    elif (va[1], vb[1]) == (lo, hi) and isinstance(op, ast.LtE):
                        r = True
                    elif (va[1], vb[1]) == (hi, lo) and isinstance(op, ast.GtE):
                        r = True
                    else:
                        raise Unsupported('relative order of %s and %s is not determined by signs' % (va[1], vb[1]))
            else:
                x = env[va[1]] if va[0] == 's' else 0
                y = env[vb[1]] if vb[0] == 's' else 0
                r = _cmp(op, x, y)
            res = res and r
        return res
    raise Unsupported('expression %s' % ast.unparse(e))


def eval_chain(stmt, env, leaf):
    """Evaluate an if/elif/else statement under env; leaf(stmts) -> value or None.
    Returns the value produced by the arm taken (None if no arm / no leaf)."""
    while True:
        if not isinstance(stmt, ast.If):
            raise Unsupported('not an if chain')
        if eval_sign(stmt.test, env):
            return leaf(stmt.body, env)
        if not stmt.orelse:
            return None
        if len(stmt.orelse) == 1 and isinstance(stmt.orelse[0], ast.If):
            stmt = stmt.orelse[0]
            continue
        return leaf(stmt.orelse, env)
