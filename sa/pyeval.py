"""Constant folding of the repo's *pure* helpers on constant arguments
(DESIGN E5/E8: "FDE with all inputs concrete").

A deliberately small interpreter for the statement and expression forms the
string helpers of tdda use.  It never calls exec/eval/import on repo code; the
only callables it will apply are the whitelisted pure builtins below and repo
functions, which it interprets itself.  Any other construct raises
Unsupported (reported as ANALYSIS-ERROR by the rules).
"""
import ast
import collections
import shlex
import json
import operator
import os
import re
import types

MAX_STEPS = 400000


class Unsupported(Exception):
    pass


class Raised(Unsupported):
    """The interpreted function executed a raise statement."""


def _is_generator(node):
    todo = list(node.body)
    while todo:
        n = todo.pop()
        if isinstance(n, (ast.Yield, ast.YieldFrom)):
            return True
        if isinstance(n, (ast.FunctionDef, ast.AsyncFunctionDef, ast.Lambda, ast.ClassDef)):
            continue
        todo.extend(ast.iter_child_nodes(n))
    return False


class _Return(Exception):
    def __init__(self, v):
        self.v = v


SAFE_BUILTINS = {
    'len': len, 'chr': chr, 'ord': ord, 'range': range, 'all': all, 'any': any, 'sorted': sorted, 'min': min, 'max': max,
    'str': str, 'int': int, 'list': list, 'tuple': tuple, 'set': set, 'frozenset': frozenset, 'bool': bool, 'repr': repr,
    'enumerate': enumerate, 'zip': zip, 'reversed': reversed, 'sum': sum, 'isinstance': isinstance, 'type': type,
    'dict': dict, 'abs': abs, 'OrderedDict': dict, 'bytes': bytes, 'float': float, 'round': round, 'divmod': divmod, 'map': map, 'filter': filter, 'namedtuple': collections.namedtuple, 'dir': dir, 'next': next, 'iter': iter, 'callable': callable, 'hash': hash, 'id': id, 'pow': pow,
    'Counter': collections.Counter, 'defaultdict': collections.defaultdict, 'ValueError': ValueError, 'KeyError': KeyError, 'TypeError': TypeError,
    'Exception': Exception, 'IndexError': IndexError, 'AttributeError': AttributeError, 'object': object,
}
SAFE_ATTR_CALLS = {
    're.escape': re.escape, 're.compile': re.compile, 're.match': re.match, 're.fullmatch': re.fullmatch, 're.search': re.search,
    're.sub': re.sub, 'json.dumps': json.dumps, 'json.loads': json.loads, 'json.load': (lambda f, **k: json.loads(f.read(), **k)), 'shlex.quote': shlex.quote, 'shlex.split': shlex.split, 'shlex.join': shlex.join,
    'os.path.splitext': os.path.splitext, 'os.path.basename': os.path.basename, 'os.path.dirname': os.path.dirname,
    'os.path.join': os.path.join, 'os.path.isabs': os.path.isabs, 'os.path.normpath': os.path.normpath,
}
for _n in ('ge', 'gt', 'le', 'lt', 'eq', 'ne', 'not_', 'truth', 'is_', 'is_not', 'add', 'sub', 'mul', 'truediv', 'floordiv', 'mod', 'neg',
           'and_', 'or_', 'xor', 'contains', 'itemgetter', 'getitem'):
    SAFE_ATTR_CALLS['operator.' + _n] = getattr(operator, _n)
import itertools as _itertools
import functools as _functools
PURE_IMPORTS = {}
for _n in ('groupby', 'chain', 'product', 'count', 'islice', 'zip_longest', 'repeat', 'accumulate', 'takewhile', 'dropwhile', 'starmap',
           'permutations', 'combinations', 'tee', 'cycle', 'compress', 'filterfalse'):
    PURE_IMPORTS['itertools.' + _n] = getattr(_itertools, _n)
for _n in ('reduce', 'partial'):
    PURE_IMPORTS['functools.' + _n] = getattr(_functools, _n)
for _n in ('ge', 'gt', 'le', 'lt', 'eq', 'ne', 'not_', 'truth', 'is_', 'is_not', 'add', 'sub', 'mul', 'truediv', 'floordiv', 'mod', 'neg',
           'and_', 'or_', 'xor', 'contains', 'itemgetter', 'attrgetter', 'getitem'):
    PURE_IMPORTS['operator.' + _n] = getattr(operator, _n)
for _n in ('OrderedDict', 'Counter', 'defaultdict', 'namedtuple', 'deque'):
    PURE_IMPORTS['collections.' + _n] = getattr(collections, _n) if _n != 'OrderedDict' else dict
SAFE_METHODS = {
    str: {'join', 'replace', 'startswith', 'endswith', 'lower', 'upper', 'strip', 'lstrip', 'rstrip', 'split', 'format', 'isdigit',
          'isdecimal', 'isalpha', 'isalnum', 'find', 'index', 'count', 'title', 'isupper', 'islower', 'splitlines', 'encode',
          'casefold', 'rfind', 'rsplit', 'partition', 'rpartition', 'isspace', 'isnumeric', 'zfill', 'capitalize', 'swapcase',
          'removeprefix', 'removesuffix', 'expandtabs', 'center', 'ljust', 'rjust'},
    bytes: {'decode', 'startswith', 'endswith', 'lower', 'upper', 'strip', 'split', 'replace', 'find', 'hex'},
    list: {'append', 'extend', 'index', 'count', 'copy', 'remove', 'insert', 'pop', 'sort', 'reverse', 'clear'},
    tuple: {'index', 'count', '__getitem__', '__contains__'},
    dict: {'get', 'keys', 'values', 'items', 'setdefault', 'update', 'pop', 'copy', '__getitem__', '__contains__'},
    types.MappingProxyType: {'get', 'keys', 'values', 'items'},
    set: {'add', 'union', 'intersection', 'difference', 'discard', 'remove', 'update', 'isdisjoint', 'issubset', 'issuperset'},
    type(re.compile('')): {'match', 'fullmatch', 'search', 'sub', 'findall', 'finditer', 'split', 'subn'},
    collections.Counter: {'most_common', 'elements', 'subtract', 'total'},
    frozenset: {'union', 'intersection', 'difference', 'isdisjoint', 'issubset', 'issuperset'},
}


class Obj:
    """An instance of a repo class: just an attribute bag."""

    def __init__(self, cls):
        self.cls = cls
        self.attrs = {}
        self.items = {}        # obj[key] for repo classes that derive from dict

    def __repr__(self):
        return '<%s %r>' % (self.cls.name if self.cls else 'obj', self.attrs)


class Model:
    """Base class for stand-in objects a rule hands to interpreted code (stub verifiers, result collectors):
    the interpreter may read and set their attributes, subscript them and call them."""


def pure_os(**extra):
    """A stand-in for the os module holding only the pure path algebra (posix flavour): nothing in it touches the file system.
    Rules add what an evaluation needs on top (exists=..., environ=...)."""
    import posixpath

    class _NS(Model):
        pass
    o = _NS()
    o.path = _NS()
    for nm in ('join', 'basename', 'dirname', 'split', 'splitext', 'isabs', 'normpath', 'relpath', 'commonprefix', 'sep'):
        setattr(o.path, nm, getattr(posixpath, nm))
    cwd = extra.pop('cwd', None)
    if cwd:
        o.path.abspath = lambda q: posixpath.normpath(posixpath.join(cwd, q))      # relative names resolve against the stated directory
        o.getcwd = lambda: cwd
    else:
        o.path.abspath = posixpath.normpath          # evaluations hand in absolute paths
    o.sep = '/'
    o.linesep = '\n'
    o.SEEK_SET, o.SEEK_CUR, o.SEEK_END = 0, 1, 2
    import os as _os
    o.PathLike = _os.PathLike
    o.fspath = _os.fspath
    o.fsdecode = _os.fsdecode
    for k, v in extra.items():
        tgt = o.path if k.startswith('path_') else o
        setattr(tgt, k[5:] if k.startswith('path_') else k, v)
    return o


class FakeFS(Model):
    """An in-memory stand-in for open(): files is {path: text or bytes}; reads come from it, writes are recorded in .written
    (path -> content) and become readable.  A missing path raises FileNotFoundError, as the real open does."""

    def __init__(self, files=None):
        self.files = dict(files or {})
        self.written = {}
        self.opened = []
        fs = self

        class Handle(Model):
            def __init__(self, path, mode, newline=None):
                self.path, self.mode, self.newline = path, mode, newline
                self.buf = b'' if 'b' in mode else ''
                self.pos = 0
                self.encoding = None

            def _content(self):
                c = fs.files[self.path]
                if isinstance(c, str) and 'b' in self.mode:
                    c = c.encode('utf-8')            # a text file opened in binary mode
                if isinstance(c, bytes) and 'b' not in self.mode:
                    c = c.decode(self.encoding or 'utf-8')
                if isinstance(c, str) and 'b' not in self.mode and self.newline is None:
                    c = c.replace('\r\n', '\n').replace('\r', '\n')      # text mode reads with universal newlines
                return c

            def read(self, n=-1):
                c = self._content()
                start = self.pos
                end = len(c) if n is None or n < 0 else min(len(c), start + n)
                self.pos = end
                return c[start:end]

            def seek(self, off, whence=0):
                size = len(self._content())
                new = off if whence == 0 else (self.pos + off if whence == 1 else size + off)
                if new < 0:
                    raise OSError(22, 'Invalid argument')
                self.pos = new
                return new

            def tell(self):
                return self.pos

            def readlines(self):
                c = self._content()
                return c.split('\n')[:-1] and [x + '\n' for x in c.split('\n')[:-1]] + ([c.split('\n')[-1]] if c.split('\n')[-1] else []) \
                    if isinstance(c, str) else c.splitlines(True)

            def __iter__(self):
                return iter(self.readlines())

            def write(self, data):
                if getattr(self, 'overlay', False):
                    # opened without truncation (os.open without O_TRUNC): what was there stays beyond what is written
                    self.buf = self.buf[:self.pos] + data + self.buf[self.pos + len(data):]
                    self.pos += len(data)
                else:
                    self.buf += data
                fs.written[self.path] = self.buf
                fs.files[self.path] = self.buf
                return len(data)

            def close(self):
                return None

            def __enter__(self):
                return self

            def __exit__(self, *a):
                return None

        self.encodings = {}

        def open_(path, mode='r', *a, **k):
            fs.opened.append((path, mode))
            fs.encodings.setdefault(path, []).append(k.get('encoding'))
            if 'w' in mode or 'a' in mode or 'x' in mode:
                h = Handle(path, mode)
                if 'a' in mode and path in fs.files:
                    h.buf = fs.files[path]
                fs.written[path] = h.buf
                fs.files[path] = h.buf
                return h
            if path not in fs.files:
                raise FileNotFoundError(2, 'No such file or directory', path)
            h = Handle(path, mode, k.get('newline'))
            h.encoding = k.get('encoding')
            return h
        open_._pyeval_model = True
        self.open = open_
        self.Handle = Handle

    def os(self, cwd=None, **extra):
        """the os stand-in whose file tests and removals act on this file system"""
        fs = self

        def remove(path):
            if path not in fs.files:
                raise FileNotFoundError(2, 'No such file or directory', path)
            del fs.files[path]
            fs.removed.append(path)
        fs.removed = getattr(fs, 'removed', [])
        dirs = lambda: {p_.rsplit('/', 1)[0] for p_ in fs.files}
        if cwd:
            extra['cwd'] = cwd
        def getsize(q):
            if q not in fs.files:
                raise FileNotFoundError(2, 'No such file or directory', q)
            c = fs.files[q]
            return len(c if isinstance(c, (bytes, bytearray)) else str(c).encode('utf-8'))
        O = dict(O_RDONLY=0, O_WRONLY=1, O_RDWR=2, O_CREAT=64, O_EXCL=128, O_TRUNC=512, O_APPEND=1024)

        class _Fd(Model):
            def __init__(self, path, flags):
                self.path, self.flags = path, flags

        def os_open(path, flags, mode=0o777, **k):
            if path not in fs.files and not flags & O['O_CREAT']:
                raise FileNotFoundError(2, 'No such file or directory', path)
            if path in fs.files and flags & O['O_EXCL'] and flags & O['O_CREAT']:
                raise FileExistsError(17, 'File exists', path)
            return _Fd(path, flags)

        def os_fdopen(fd, mode='r', *a, **k):
            if not isinstance(fd, _Fd):
                raise OSError(9, 'Bad file descriptor')
            fs.opened.append((fd.path, mode))
            h = fs.Handle(fd.path, mode, k.get('newline'))
            h.encoding = k.get('encoding')
            if fd.flags & (O['O_WRONLY'] | O['O_RDWR']):
                old = fs.files.get(fd.path)
                keep = old is not None and not fd.flags & O['O_TRUNC']
                h.buf = old if keep else (b'' if 'b' in mode else '')
                if fd.flags & O['O_APPEND']:
                    h.pos = len(h.buf)
                h.overlay = True
                fs.written[fd.path] = h.buf
                fs.files[fd.path] = h.buf
            elif fd.path not in fs.files:
                raise FileNotFoundError(2, 'No such file or directory', fd.path)
            return h
        extra.update(O)
        extra.update(open=os_open, fdopen=os_fdopen, close=lambda fd: None)
        return pure_os(name='posix', remove=remove, unlink=remove,
                       path_exists=lambda q: q in fs.files or q.rstrip('/') in dirs(), path_isfile=lambda q: q in fs.files,
                       path_isdir=lambda q: q.rstrip('/') in dirs() and q not in fs.files, path_getsize=getsize, **extra)


def pure_sys():
    """A stand-in for the sys module: just names for the standard streams (print(..., file=sys.stderr) in evaluated code)."""
    class _Sys(Model):
        stderr = '<stderr>'
        stdout = '<stdout>'
        argv = ['prog']
        version_info = (3, 12)
    return _Sys()


def _is_model(o):
    return isinstance(o, Model) or (isinstance(o, type) and issubclass(o, Model))


def _foreign(interp, o):
    """An object (or the module itself) of a standard-library module the rule has declared safe for this evaluation."""
    if not interp.safe_modules or o is None:
        return False
    if isinstance(o, types.ModuleType):
        return o.__name__ in interp.safe_modules
    mod = getattr(type(o), '__module__', '') if not isinstance(o, type) else getattr(o, '__module__', '')
    return mod in interp.safe_modules


class Interp:
    def __init__(self, prog, consts=None):
        self.safe_modules = set()  # names of standard-library modules whose objects the interpreted code may use (e.g. 'argparse')
        self.extra_names = {}     # bare name -> stand-in value / callable (e.g. a recording print)
        self.extra_calls = {}     # dotted name -> stand-in callable supplied by a rule (e.g. a base-class method of the stdlib)
        self.prog = prog
        self.steps = 0
        self.consts = consts or {}
        self.on_call = None       # hook(func, args, kwargs) -> (handled, value)
        self.modglobals = {}      # module name -> {global name: value} written through `global` statements

    # -------------------------------------------------------------- entry
    def call(self, f, args, kwargs=None, selfobj=None):
        kwargs = dict(kwargs or {})
        env = {}
        pos = list(f.posparams)
        if selfobj is not None and pos:
            env[pos[0]] = selfobj
            pos = pos[1:]
        if f.cls is not None and selfobj is not None:
            env['#super'] = (f.cls, selfobj)         # what a bare super() means inside this method
        if len(args) > len(pos) and not f.vararg:
            raise Unsupported('too many arguments for %s' % f.short)
        if f.vararg:
            env[f.vararg] = tuple(args[len(pos):])
        for p, a in zip(pos, args):
            env[p] = a
        for p in pos[len(args):] + f.kwonly:
            if p in kwargs:
                env[p] = kwargs.pop(p)
            elif p in f.defaults:
                env[p] = self.expr(f.defaults[p], {}, f.mod)
            else:
                raise Unsupported('missing argument %s of %s' % (p, f.short))
        if kwargs and not f.kwarg:
            raise Unsupported('unexpected keywords %s for %s' % (sorted(kwargs), f.short))
        if f.kwarg:
            env[f.kwarg] = dict(kwargs)
        if isinstance(f.node, ast.Lambda):
            return self.expr(f.node.body, env, f.mod)
        gen = _is_generator(f.node)
        if gen:
            env['#yield'] = []      # generators are run eagerly: sound for the side-effect-free generators of this code base
        try:
            self.block(f.node.body, env, f.mod)
        except _Return as r:
            return iter(env['#yield']) if gen else r.v
        return iter(env['#yield']) if gen else None

    def _modconst(self, mod, name):
        """a module-level constant: evaluated once per interpreter, as the module body is run once per process (a sentinel
        `_MISSING = object()` is the same object at every read)"""
        memo = self.__dict__.setdefault('_modconst_memo', {})
        k = (mod.name, name)
        if k not in memo:
            memo[k] = self.expr(mod.consts[name], {}, mod)
        return memo[k]

    def _class_env(self, c, upto):
        """names a class-level assignment may use: the class-level constants assigned before it"""
        env = {}
        for b in c.node.body:
            if b is upto:
                break
            if isinstance(b, ast.Assign) and len(b.targets) == 1 and isinstance(b.targets[0], ast.Name):
                try:
                    env[b.targets[0].id] = self.expr(b.value, env, c.mod)
                except Unsupported:
                    pass
        return env

    # --------------------------------------------------------- statements
    def block(self, stmts, env, mod):
        for s in stmts:
            try:
                self.stmt(s, env, mod)
            except (Unsupported, _Return, _Break, _Continue):
                raise
            except RecursionError:
                raise Unsupported('recursion too deep for the interpreter')
            except Exception as ex:
                if type(ex).__module__ not in ('builtins', 're', 'json.decoder', 'sre_constants', 're._constants'):
                    raise          # raised on purpose by a rule's stand-in (an exit marker, an AnalysisError): the rule's business
                # an operation of the evaluated code raised (a % with too few arguments, a missing key ...): so would the real code
                r = Raised('evaluated code raises %s: %s' % (type(ex).__name__, ex))
                r.excname = type(ex).__name__
                r.pyexc = ex
                raise r from None

    def stmt(self, s, env, mod):
        self.steps += 1
        if self.steps > getattr(self, 'max_steps', MAX_STEPS):
            raise Unsupported('evaluation budget exceeded')
        if isinstance(s, ast.Expr):
            if isinstance(s.value, ast.Constant):
                return
            self.expr(s.value, env, mod)
        elif isinstance(s, ast.Assign):
            v = self.expr(s.value, env, mod)
            for t in s.targets:
                self.assign(t, v, env, mod)
        elif isinstance(s, ast.AugAssign):
            cur = self.expr(ast.copy_location(_load(s.target), s), env, mod)
            rhs = self.expr(s.value, env, mod)
            # augmented assignment to a mutable container changes the object itself (every other name for it sees the change)
            if type(cur) is list and isinstance(s.op, ast.Add) and isinstance(rhs, (list, tuple, set, frozenset, dict, str, range)):
                cur.extend(rhs)
                v = cur
            elif type(cur) is list and isinstance(s.op, ast.Mult) and isinstance(rhs, int) and not isinstance(rhs, bool):
                cur *= rhs
                v = cur
            elif type(cur) is set and isinstance(rhs, (set, frozenset)) and isinstance(s.op, (ast.BitOr, ast.BitAnd, ast.Sub, ast.BitXor)):
                if isinstance(s.op, ast.BitOr):
                    cur |= rhs
                elif isinstance(s.op, ast.BitAnd):
                    cur &= rhs
                elif isinstance(s.op, ast.Sub):
                    cur -= rhs
                else:
                    cur ^= rhs
                v = cur
            elif type(cur) is dict and isinstance(s.op, ast.BitOr) and isinstance(rhs, dict):
                cur.update(rhs)
                v = cur
            else:
                v = self._binop(s.op, cur, rhs)
            self.assign(s.target, v, env, mod)
        elif isinstance(s, ast.Return):
            raise _Return(self.expr(s.value, env, mod) if s.value is not None else None)
        elif isinstance(s, ast.If):
            if self._truth(self.expr(s.test, env, mod)):
                self.block(s.body, env, mod)
            else:
                self.block(s.orelse, env, mod)
        elif isinstance(s, ast.For):
            for x in self._iter(self.expr(s.iter, env, mod)):
                self.assign(s.target, x, env, mod)
                try:
                    self.block(s.body, env, mod)
                except _Break:
                    break
                except _Continue:
                    continue
            else:
                self.block(s.orelse, env, mod)
        elif isinstance(s, ast.While):
            while self._truth(self.expr(s.test, env, mod)):
                try:
                    self.block(s.body, env, mod)
                except _Break:
                    break
                except _Continue:
                    continue
            else:
                self.block(s.orelse, env, mod)
        elif isinstance(s, ast.Break):
            raise _Break()
        elif isinstance(s, ast.Continue):
            raise _Continue()
        elif isinstance(s, ast.Assert):
            if not self.expr(s.test, env, mod):
                r = Raised('assertion of the interpreted function fails: %s' % ast.unparse(s.test))
                r.excname = 'AssertionError'
                r.pyexc = AssertionError(self.expr(s.msg, env, mod)) if s.msg is not None else AssertionError()
                raise r
        elif isinstance(s, ast.Pass):
            pass
        elif isinstance(s, (ast.Global, ast.Nonlocal)):
            if isinstance(s, ast.Nonlocal):
                raise Unsupported('nonlocal')
            env['#global'] = set(env.get('#global', ())) | set(s.names)
        elif isinstance(s, ast.With):
            # context managers are stand-ins supplied by the rule: bound as they are, left when the block is left
            opened = []
            for item in s.items:
                cm = self.expr(item.context_expr, env, mod)
                if isinstance(cm, Obj) and cm.cls is not None and self.prog.lookup_method(cm.cls.qn, '__exit__') is not None:
                    # a context manager class of the repository: its own __enter__ / __exit__ are evaluated
                    ent = self.prog.lookup_method(cm.cls.qn, '__enter__')
                    v = self.invoke(ent, [], {}, cm) if ent is not None else cm
                    opened.append(('#repo', cm))
                    if item.optional_vars is not None:
                        self.assign(item.optional_vars, v, env, mod)
                    continue
                if not (_is_model(cm) or _foreign(self, cm)):
                    raise Unsupported('with %s' % ast.unparse(item.context_expr)[:40])
                v = cm.__enter__() if hasattr(cm, '__enter__') else cm
                opened.append(cm)
                if item.optional_vars is not None:
                    self.assign(item.optional_vars, v, env, mod)
            try:
                self.block(s.body, env, mod)
            finally:
                for cm in reversed(opened):
                    if isinstance(cm, tuple) and cm[0] == '#repo':
                        self.invoke(self.prog.lookup_method(cm[1].cls.qn, '__exit__'), [None, None, None], {}, cm[1])
                    elif hasattr(cm, '__exit__'):
                        cm.__exit__(None, None, None)
        elif isinstance(s, ast.FunctionDef):
            env[s.name] = ('#def', s, env, mod, self._defaults(s.args, env, mod))
        elif isinstance(s, ast.Delete):
            for t in s.targets:
                if isinstance(t, ast.Subscript):
                    o = self.expr(t.value, env, mod)
                    if isinstance(t.slice, ast.Slice):
                        lo = self.expr(t.slice.lower, env, mod) if t.slice.lower else None
                        hi = self.expr(t.slice.upper, env, mod) if t.slice.upper else None
                        del o[lo:hi]
                    elif isinstance(o, Obj):
                        del o.items[self.expr(t.slice, env, mod)]
                    else:
                        del o[self.expr(t.slice, env, mod)]
                elif isinstance(t, ast.Name):
                    env.pop(t.id, None)
                else:
                    raise Unsupported('del %s' % type(t).__name__)
        elif isinstance(s, ast.Raise):
            r = Raised('interpreted function raises: %s' % ast.unparse(s)[:60])
            x = s.exc.func if isinstance(s.exc, ast.Call) else s.exc
            r.excname = x.id if isinstance(x, ast.Name) else (x.attr if isinstance(x, ast.Attribute) else None)
            if s.exc is None and '#exc' in env:
                r = env['#exc']
            elif s.exc is not None:
                # the exception object the handler will see: built with the arguments given (a plain Exception stands for
                # exception classes of the repository)
                import builtins
                klass = getattr(builtins, r.excname or '', None)
                if not (isinstance(klass, type) and issubclass(klass, BaseException)) or (r.excname in mod.syms):
                    klass = Exception
                try:
                    a_ = [self.expr(a, env, mod) for a in s.exc.args] if isinstance(s.exc, ast.Call) and not s.exc.keywords else []
                    r.pyexc = klass(*a_)
                except Unsupported:
                    raise
                except Exception:
                    r.pyexc = klass()
            raise r
        elif isinstance(s, ast.Try):
            try:
                try:
                    self.block(s.body, env, mod)
                except (_Return, _Break, _Continue):
                    raise
                except Exception as ex:
                    if isinstance(ex, Unsupported) and not isinstance(ex, Raised):
                        raise
                    if not isinstance(ex, Raised):
                        r = Raised('evaluated call raised %s: %s' % (type(ex).__name__, ex))
                        r.excname = type(ex).__name__
                        r.pyexc = ex
                        ex = r
                    h = _matching_handler(s.handlers, getattr(ex, 'excname', None))
                    if h is None:
                        raise ex
                    if h.name:
                        env[h.name] = getattr(ex, 'pyexc', ex)
                    saved = env.get('#exc')
                    env['#exc'] = ex
                    try:
                        self.block(h.body, env, mod)
                    finally:
                        env['#exc'] = saved
                else:
                    self.block(s.orelse, env, mod)
            finally:
                self.block(s.finalbody, env, mod)
        else:
            raise Unsupported('statement %s' % type(s).__name__)

    def assign(self, t, v, env, mod):
        if isinstance(t, ast.Name):
            if t.id in env.get('#global', ()):
                self.modglobals.setdefault(mod.name, {})[t.id] = v      # `global x` in the evaluated function
            else:
                env[t.id] = v
        elif isinstance(t, (ast.Tuple, ast.List)):
            vs = list(v)
            stars = [i for i, a in enumerate(t.elts) if isinstance(a, ast.Starred)]
            if len(stars) == 1 and len(vs) >= len(t.elts) - 1:
                i = stars[0]
                tail = len(t.elts) - i - 1
                mid = vs[i:len(vs) - tail]
                vs = vs[:i] + [mid] + vs[len(vs) - tail:]
                elts = [a.value if isinstance(a, ast.Starred) else a for a in t.elts]
            else:
                elts = t.elts
            if len(vs) != len(elts) or len(stars) > 1:
                r = Raised('cannot unpack %d values into %d targets' % (len(vs), len(elts)))
                r.excname = 'ValueError'
                raise r
            for a, b in zip(elts, vs):
                self.assign(a, b, env, mod)
        elif isinstance(t, ast.Attribute):
            o = self.expr(t.value, env, mod)
            if isinstance(o, Model):
                setattr(o, t.attr, v)
                return
            if not isinstance(o, Obj):
                raise Unsupported('attribute store on %r' % type(o).__name__)
            o.attrs[t.attr] = v
        elif isinstance(t, ast.Subscript):
            o = self.expr(t.value, env, mod)
            if isinstance(t.slice, ast.Slice) and isinstance(o, list):
                lo = self.expr(t.slice.lower, env, mod) if t.slice.lower else None
                hi = self.expr(t.slice.upper, env, mod) if t.slice.upper else None
                st = self.expr(t.slice.step, env, mod) if t.slice.step else None
                o[lo:hi:st] = list(self._iter(v))
            elif isinstance(o, (list, dict)):
                o[self.expr(t.slice, env, mod)] = v
            elif isinstance(o, Obj):
                o.items[self.expr(t.slice, env, mod)] = v
            elif isinstance(o, Model) or _foreign(self, o):
                o[self.expr(t.slice, env, mod)] = v
            else:
                raise Unsupported('subscript store on %s' % type(o).__name__)
        else:
            raise Unsupported('assignment target %s' % type(t).__name__)

    # -------------------------------------------------------- expressions
    def expr(self, e, env, mod):
        self.steps += 1
        if self.steps > getattr(self, 'max_steps', MAX_STEPS):
            raise Unsupported('evaluation budget exceeded')
        if isinstance(e, ast.Constant):
            return e.value
        if isinstance(e, (ast.Yield, ast.YieldFrom)):
            if '#yield' not in env:
                raise Unsupported('yield outside an evaluated generator')
            if isinstance(e, ast.Yield):
                env['#yield'].append(self.expr(e.value, env, mod) if e.value is not None else None)
            else:
                env['#yield'].extend(self.expr(e.value, env, mod))
            return None
        if isinstance(e, ast.Name):
            if e.id in env and e.id not in env.get('#global', ()):
                return env[e.id]
            if e.id in self.modglobals.get(mod.name, ()):
                return self.modglobals[mod.name][e.id]
            if e.id in self.consts:
                return self.consts[e.id]
            if e.id in ('True', 'False', 'None'):
                return {'True': True, 'False': False, 'None': None}[e.id]
            s = mod.syms.get(e.id)
            if s is not None and s.kind in ('func', 'class'):
                return ('#sym', s)
            if e.id in mod.consts and mod.consts[e.id] is not None:
                return self._modconst(mod, e.id)
            if s is not None and s.kind == 'const':
                tm, _, tn = s.target.rpartition('.')
                m2 = self.prog.modules.get(tm)
                if m2 is not None and m2.consts.get(tn) is not None:
                    return self._modconst(m2, tn)
            if e.id in self.extra_names:
                return self.extra_names[e.id]
            if s is not None and s.kind == 'ext' and s.target in PURE_IMPORTS:
                return PURE_IMPORTS[s.target]          # from itertools import groupby ...: pure helpers of the standard library
            if e.id in SAFE_BUILTINS:
                return SAFE_BUILTINS[e.id]
            raise Unsupported('name %s' % e.id)
        if isinstance(e, ast.JoinedStr):
            out = ''
            for v in e.values:
                if isinstance(v, ast.Constant):
                    out += v.value
                else:
                    x = self._proxy(self.expr(v.value, env, mod))
                    if v.conversion == ord('r'):
                        x = repr(x)
                    elif v.conversion == ord('s'):
                        x = str(x)
                    elif v.conversion == ord('a'):
                        x = ascii(x)
                    out += format(x, self.expr(v.format_spec, env, mod) if v.format_spec else '')
            return out
        if isinstance(e, (ast.Tuple, ast.List, ast.Set)):
            items = []
            for x in e.elts:
                if isinstance(x, ast.Starred):
                    items += list(self._iter(self.expr(x.value, env, mod)))
                else:
                    items.append(self.expr(x, env, mod))
            return tuple(items) if isinstance(e, ast.Tuple) else (items if isinstance(e, ast.List) else set(items))
        if isinstance(e, ast.Dict):
            out = {}
            for k, v in zip(e.keys, e.values):
                if k is None:
                    out.update(self.expr(v, env, mod))         # {**d}
                else:
                    out[self.expr(k, env, mod)] = self.expr(v, env, mod)
            return out
        if isinstance(e, ast.IfExp):
            return self.expr(e.body if self._truth(self.expr(e.test, env, mod)) else e.orelse, env, mod)
        if isinstance(e, ast.BoolOp):
            v = None
            for x in e.values:
                v = self.expr(x, env, mod)
                if isinstance(e.op, ast.And) and not self._truth(v):
                    return v
                if isinstance(e.op, ast.Or) and self._truth(v):
                    return v
            return v
        if isinstance(e, ast.UnaryOp):
            v = self.expr(e.operand, env, mod)
            if isinstance(e.op, ast.Not):
                return not self._truth(v)
            if isinstance(e.op, ast.USub):
                return -v
            if isinstance(e.op, ast.UAdd):
                return +v
            if isinstance(e.op, ast.Invert):
                return ~v
            raise Unsupported('unary op')
        if isinstance(e, ast.BinOp):
            return self._binop(e.op, self.expr(e.left, env, mod), self.expr(e.right, env, mod))
        if isinstance(e, ast.Compare):
            left = self.expr(e.left, env, mod)
            for op, c in zip(e.ops, e.comparators):
                right = self.expr(c, env, mod)
                if not self._compare(op, left, right):
                    return False
                left = right
            return True
        if isinstance(e, ast.Subscript):
            o = self.expr(e.value, env, mod)
            if isinstance(e.slice, ast.Slice):
                lo = self.expr(e.slice.lower, env, mod) if e.slice.lower else None
                hi = self.expr(e.slice.upper, env, mod) if e.slice.upper else None
                st = self.expr(e.slice.step, env, mod) if e.slice.step else None
                return o[lo:hi:st]
            if isinstance(o, Obj):
                k = self.expr(e.slice, env, mod)
                gi = self.prog.lookup_method(o.cls.qn, '__getitem__') if o.cls is not None else None
                if gi is not None:
                    return self.invoke(gi, [k], {}, o)         # the class's own __getitem__
                if k not in o.items:
                    raise KeyError(k)
                return o.items[k]
            return o[self.expr(e.slice, env, mod)]
        if isinstance(e, (ast.ListComp, ast.GeneratorExp, ast.SetComp)):
            out = []
            self.comp(e.generators, 0, dict(env), mod, lambda en: out.append(self.expr(e.elt, en, mod)))
            return set(out) if isinstance(e, ast.SetComp) else out
        if isinstance(e, ast.DictComp):
            out = {}
            self.comp(e.generators, 0, dict(env), mod,
                      lambda en: out.__setitem__(self.expr(e.key, en, mod), self.expr(e.value, en, mod)))
            return out
        if isinstance(e, ast.Attribute):
            full = _dotted(e)
            if full in ('re.UNICODE', 're.U'):
                return re.UNICODE
            if full in ('re.DOTALL', 're.S'):
                return re.DOTALL
            if full in SAFE_ATTR_CALLS and not (isinstance(e.value, ast.Name) and e.value.id in env):
                return SAFE_ATTR_CALLS[full]         # a whitelisted library function used as a value (compile_ = re.compile)
            if isinstance(e.value, ast.Name) and e.value.id not in env and e.value.id not in self.extra_names and e.value.id not in self.consts:
                bs = mod.syms.get(e.value.id)
                if bs is not None and bs.kind in ('ext', 'mod') and '%s.%s' % (bs.target, e.attr) in PURE_IMPORTS:
                    return PURE_IMPORTS['%s.%s' % (bs.target, e.attr)]       # import itertools; itertools.islice
                if bs is not None and bs.kind == 'mod':
                    # a module (or package) of the repository imported by name: its functions, classes and constants
                    tm = self.prog.modules.get(bs.target)
                    s2 = self.prog.resolve_expr(mod, e)
                    if s2 is not None and s2.kind in ('func', 'class'):
                        return ('#sym', s2)
                    if tm is not None and tm.consts.get(e.attr) is not None:
                        return self._modconst(tm, e.attr)
                    if s2 is not None and s2.kind == 'const':
                        tmn, _, tn = s2.target.rpartition('.')
                        m2 = self.prog.modules.get(tmn)
                        if m2 is not None and m2.consts.get(tn) is not None:
                            return self._modconst(m2, tn)
                    raise Unsupported('attribute %s of module %s' % (e.attr, bs.target))
            o = self.expr(e.value, env, mod) if not (isinstance(e.value, ast.Name) and e.value.id == 're') else None
            if isinstance(o, tuple) and len(o) == 2 and o[0] == '#sym' and o[1].kind == 'class' and e.attr in ('__name__', '__qualname__', '__module__') \
                    and o[1].target in self.prog.classes:
                k_ = self.prog.classes[o[1].target]
                return k_.mod.name if e.attr == '__module__' else k_.name
            if isinstance(o, tuple) and len(o) == 2 and o[0] == '#sym' and o[1].kind == 'class' and e.attr == '__dict__' and o[1].target in self.prog.classes:
                # the class's own namespace: what its body binds (constants evaluated), with the entries every class has
                k_ = self.prog.classes[o[1].target]
                d_ = {'__module__': k_.mod.name}
                for b in k_.node.body:
                    if isinstance(b, ast.Assign):
                        for t in b.targets:
                            if isinstance(t, ast.Name):
                                d_[t.id] = self.expr(b.value, self._class_env(k_, b), k_.mod)
                    elif isinstance(b, ast.FunctionDef):
                        d_[b.name] = ('#sym', self.prog.resolve_expr(k_.mod, ast.Attribute(ast.Name(k_.name, ast.Load()), b.name, ast.Load())) or o[1])
                d_['__doc__'] = ast.get_docstring(k_.node)
                return types.MappingProxyType(d_)
            if isinstance(o, tuple) and len(o) == 2 and o[0] == '#classof' and e.attr == '__name__':
                return o[1].name
            if isinstance(o, tuple) and len(o) == 2 and o[0] == '#classof' and e.attr == '__module__':
                return o[1].mod.name
            if _is_model(o) or _foreign(self, o):
                return getattr(o, e.attr)
            if isinstance(o, type) and e.attr in ('__name__', '__module__', '__qualname__'):
                return getattr(o, e.attr)            # name of a Python class (type(x).__name__)
            if isinstance(o, tuple) and e.attr in getattr(type(o), '_fields', ()):
                return getattr(o, e.attr)       # field of a namedtuple
            if isinstance(o, Obj):
                if e.attr in o.attrs:
                    return o.attrs[e.attr]
                if e.attr == '__dict__':
                    return o.attrs
                if o.cls is not None:
                    for q in self.prog.mro(o.cls.qn):
                        c_ = self.prog.classes.get(q)
                        if c_ is None:
                            continue
                        for b in c_.node.body:
                            if isinstance(b, ast.Assign) and any(isinstance(t, ast.Name) and t.id == e.attr for t in b.targets):
                                return self.expr(b.value, self._class_env(c_, b), c_.mod)
                if e.attr == '__class__' and o.cls is not None:
                    return ('#classof', o.cls)
                m = self.prog.lookup_method(o.cls.qn, e.attr) if o.cls else None
                if m is not None:
                    if any(isinstance(d, ast.Name) and d.id == 'property' for d in m.node.decorator_list):
                        return self.invoke(m, [], {}, o)        # a read-only property: the getter is run
                    return ('#bound', m, o)
                if o.cls is not None and all(b.split('.')[-1] in ('object', 'dict', 'OrderedDict') for b in self.prog.external_bases(o.cls.qn)):
                    r = Raised('no attribute %s on %s' % (e.attr, o.cls.name))      # the class is fully known: an AttributeError
                    r.excname = 'AttributeError'
                    raise r
                raise Unsupported('attribute %s of %r' % (e.attr, o))
            if isinstance(o, tuple) and o and o[0] == '#sym' and o[1].kind == 'class':
                # class attribute constant
                for q in self.prog.mro(o[1].target):
                    c = self.prog.classes.get(q)
                    if c is None:
                        continue
                    for b in c.node.body:
                        if isinstance(b, ast.Assign) and any(isinstance(t, ast.Name) and t.id == e.attr for t in b.targets):
                            return self.expr(b.value, self._class_env(c, b), c.mod)
            for t, names in SAFE_METHODS.items():
                if o is not None and isinstance(o, t) and e.attr in names:
                    return getattr(o, e.attr)        # a bound method of a plain value (str.format ...), used as a value
            raise Unsupported('attribute %s' % full)
        if isinstance(e, ast.Call):
            return self.callexpr(e, env, mod)
        if isinstance(e, ast.Lambda):
            return ('#lambda', e, env, mod, self._defaults(e.args, env, mod))
        raise Unsupported('expression %s' % type(e).__name__)

    def _iter(self, v):
        """what `for x in v` iterates over: a repository class answers through its own __iter__ (a dict subclass by its keys)"""
        if isinstance(v, Obj) and v.cls is not None:
            it = self.prog.lookup_method(v.cls.qn, '__iter__')
            if it is not None:
                return self._iter(self.invoke(it, [], {}, v))
            if any(b.split('.')[-1] in ('dict', 'OrderedDict') for b in self.prog.external_bases(v.cls.qn)):
                return iter(list(v.items))
            r = Raised('%s object is not iterable' % v.cls.name)
            r.excname = 'TypeError'
            raise r
        return v

    def _truth(self, v):
        """truth value as Python takes it: __bool__, else __len__, of a repository class"""
        if isinstance(v, Obj) and v.cls is not None:
            for nm in ('__bool__', '__len__'):
                m = self.prog.lookup_method(v.cls.qn, nm)
                if m is not None:
                    return bool(self.invoke(m, [], {}, v))
            if any(b.split('.')[-1] in ('dict', 'OrderedDict') for b in self.prog.external_bases(v.cls.qn)):
                return bool(v.items)
            return True
        return bool(v)

    def _str(self, v, how='__str__'):
        if isinstance(v, Obj) and v.cls is not None:
            for nm in ((how, '__repr__') if how == '__str__' else ('__repr__',)):
                m = self.prog.lookup_method(v.cls.qn, nm)
                if m is not None:
                    return self.invoke(m, [], {}, v)
        return str(v) if how == '__str__' else repr(v)

    def _proxy(self, v):
        """an object of a repository class as Python's formatting sees it: str() / repr() through its own __str__ / __repr__"""
        interp = self
        if isinstance(v, Obj):
            class P(object):
                def __str__(self_):
                    return interp._str(v)

                def __repr__(self_):
                    return interp._str(v, '__repr__')

                def __format__(self_, spec):
                    return format(interp._str(v), spec)
            return P()
        if isinstance(v, tuple) and not hasattr(type(v), '_fields') and any(isinstance(x, Obj) for x in v):
            return tuple(self._proxy(x) for x in v)
        if isinstance(v, list) and any(isinstance(x, Obj) for x in v):
            return [self._proxy(x) for x in v]
        if isinstance(v, dict) and any(isinstance(x, Obj) for x in v.values()):
            return {k: self._proxy(x) for k, x in v.items()}
        return v

    def _binop(self, op, a, b):
        if isinstance(op, ast.Mod) and isinstance(a, str):
            b = self._proxy(b)
        return self.binop(op, a, b)

    def _compare(self, op, a, b):
        if isinstance(op, (ast.Eq, ast.NotEq)):
            for x, y in ((a, b), (b, a)):
                if isinstance(x, Obj) and x.cls is not None:
                    m = self.prog.lookup_method(x.cls.qn, '__eq__')
                    if m is not None:
                        r = self.invoke(m, [y], {}, x)
                        return self._truth(r) if isinstance(op, ast.Eq) else not self._truth(r)
        if isinstance(op, (ast.In, ast.NotIn)) and isinstance(b, Obj) and b.cls is not None:
            m = self.prog.lookup_method(b.cls.qn, '__contains__')
            if m is not None:
                r = self._truth(self.invoke(m, [a], {}, b))
                return r if isinstance(op, ast.In) else not r
            it = self.prog.lookup_method(b.cls.qn, '__iter__')
            if it is not None:
                r = any(x == a for x in self._iter(b))
                return r if isinstance(op, ast.In) else not r
        return self.compare(op, a, b)

    def comp(self, gens, i, env, mod, emit):
        if i == len(gens):
            emit(env)
            return
        g = gens[i]
        for x in self._iter(self.expr(g.iter, env, mod)):
            self.assign(g.target, x, env, mod)
            if all(self._truth(self.expr(c, env, mod)) for c in g.ifs):
                self.comp(gens, i + 1, env, mod, emit)

    def callexpr(self, e, env, mod):
        args = []
        for a in e.args:
            if isinstance(a, ast.Starred):
                args += list(self.expr(a.value, env, mod))
            else:
                args.append(self.expr(a, env, mod))
        kwargs = {}
        for k in e.keywords:
            if k.arg is None:
                kwargs.update(self.expr(k.value, env, mod))
            else:
                kwargs[k.arg] = self.expr(k.value, env, mod)
        fn = e.func
        full = _dotted(fn)
        if full in self.extra_calls:
            return self.extra_calls[full](*args, **kwargs)
        if isinstance(fn, ast.Name) and fn.id in ('setattr', 'delattr') and fn.id not in env and len(args) >= 2 and isinstance(args[1], str):
            o = args[0]
            if isinstance(o, Obj):
                if fn.id == 'setattr':
                    o.attrs[args[1]] = args[2]
                else:
                    o.attrs.pop(args[1], None)
                return None
            if _is_model(o):
                return setattr(o, args[1], args[2]) if fn.id == 'setattr' else delattr(o, args[1])
            raise Unsupported('%s on %s' % (fn.id, type(o).__name__))
        if isinstance(fn, ast.Name) and fn.id in ('hasattr', 'getattr', 'vars') and fn.id not in env and args:
            o = args[0]
            if _is_model(o) or _foreign(self, o):
                return {'hasattr': hasattr, 'getattr': getattr, 'vars': vars}[fn.id](*args)
            if isinstance(o, Obj):
                if fn.id == 'vars':
                    return o.attrs
                has = args[1] in o.attrs or (o.cls is not None and self.prog.lookup_method(o.cls.qn, args[1]) is not None)
                if fn.id == 'hasattr':
                    return has
                if args[1] in o.attrs:
                    return o.attrs[args[1]]
                if has:
                    return ('#bound', self.prog.lookup_method(o.cls.qn, args[1]), o)
                if len(args) > 2:
                    return args[2]
                raise AttributeError(args[1])
            if o is None or isinstance(o, (str, int, float, bool, list, tuple, dict, set)):
                return {'hasattr': hasattr, 'getattr': getattr, 'vars': vars}[fn.id](*args)
            raise Unsupported('%s on %s' % (fn.id, type(o).__name__))
        if full in SAFE_ATTR_CALLS:
            return SAFE_ATTR_CALLS[full](*args, **kwargs)
        if isinstance(fn, ast.Name) and fn.id == 'eval' and len(args) == 1 and isinstance(args[0], str) and args[0].isidentifier() \
                and 'eval' not in env:
            # eval('ClassName'): the only use in this code base - a name looked up in the module (never evaluated for real)
            return self.expr(ast.Name(id=args[0], ctx=ast.Load()), {}, mod)
        if isinstance(fn, ast.Name) and fn.id == 'super' and 'super' not in env:
            if args and len(args) == 2 and isinstance(args[0], tuple) and args[0][:1] == ('#sym',) and args[0][1].kind == 'class':
                return ('#super', self.prog.classes[args[0][1].target], args[1])
            if not args and '#super' in env:
                return ('#super',) + env['#super']
            raise Unsupported('super() outside a method')
        if isinstance(fn, ast.Attribute) and isinstance(fn.value, ast.Call) and isinstance(fn.value.func, ast.Name) and fn.value.func.id == 'super' \
                and 'super' not in env:
            sup = self.callexpr(fn.value, env, mod)
            _tag, klass, obj = sup
            m = self.prog.lookup_method(obj.cls.qn if isinstance(obj, Obj) and obj.cls is not None else klass.qn, fn.attr, after=klass.qn)
            if m is None:
                if fn.attr == '__init__':
                    return None          # object.__init__ / a library base initialiser: nothing of the repository to run
                raise Unsupported('super().%s resolves outside the repository' % fn.attr)
            return self.invoke(m, args, kwargs, obj)
        if isinstance(fn, ast.Name) and fn.id in ('str', 'repr') and len(args) == 1 and isinstance(args[0], Obj) and fn.id not in env:
            return self._str(args[0], '__str__' if fn.id == 'str' else '__repr__')
        if isinstance(fn, ast.Name) and fn.id == 'type' and len(args) == 1 and isinstance(args[0], Obj) and args[0].cls is not None \
                and 'type' not in env:
            return ('#classof', args[0].cls)
        if isinstance(fn, ast.Name) and fn.id in ('len', 'sorted', 'list', 'tuple', 'set', 'iter', 'sum', 'min', 'max', 'any', 'all', 'enumerate',
                                                  'dict', 'reversed', 'bool') and fn.id not in env and any(isinstance(a, Obj) for a in args):
            # containers of repository classes: a class that defines __len__ / __iter__ answers itself, a dict subclass by its entries
            conv = []
            for a in args:
                if isinstance(a, Obj) and a.cls is not None:
                    special = self.prog.lookup_method(a.cls.qn, '__len__' if fn.id in ('len', 'bool') else '__iter__')
                    if special is not None:
                        v = self.invoke(special, [], {}, a)
                        if fn.id in ('len', 'bool'):
                            return v if fn.id == 'len' else bool(v)
                        a = v
                    elif any(b.split('.')[-1] in ('dict', 'OrderedDict') for b in self.prog.external_bases(a.cls.qn)):
                        a = a.items
                    else:
                        raise Unsupported('%s() of a %s' % (fn.id, a.cls.name))
                conv.append(a)
            return SAFE_BUILTINS[fn.id](*self._py(conv), **{k: self._py1(v) for k, v in kwargs.items()})
        if isinstance(fn, ast.Name) and fn.id == 'isinstance' and len(args) == 2 and 'isinstance' not in env:
            kinds = args[1] if isinstance(args[1], tuple) and not (args[1] and args[1][0] == '#sym') else (args[1],)
            for k in kinds:
                if isinstance(k, tuple) and k and k[0] == '#sym':
                    if isinstance(args[0], Obj) and args[0].cls is not None and k[1].kind == 'class' and \
                            k[1].target in self.prog.mro(args[0].cls.qn):
                        return True
                elif isinstance(k, type) and isinstance(args[0], k):
                    return True
                elif isinstance(k, type) and isinstance(args[0], Obj) and args[0].cls is not None and \
                        any(b.split('.')[-1] == k.__name__ for b in self.prog.external_bases(args[0].cls.qn)):
                    return True      # a repo class deriving from the library class the rule's stand-in represents
            return False
        if isinstance(fn, ast.Name) and fn.id == 'next' and 'next' not in env and args and isinstance(args[0], list) \
                and e.args and isinstance(e.args[0], ast.GeneratorExp):
            # next(<generator expression>, default): generator expressions are evaluated eagerly here
            return next(iter(args[0]), *args[1:])
        if isinstance(fn, ast.Name) and fn.id in SAFE_BUILTINS and fn.id not in env and fn.id not in mod.syms:
            if fn.id in ('all', 'any', 'sorted', 'min', 'max', 'sum', 'list', 'tuple', 'set') and args and isinstance(args[0], list):
                pass
            return SAFE_BUILTINS[fn.id](*self._py(args), **{k: self._py1(v) for k, v in kwargs.items()})
        if isinstance(fn, ast.Attribute) and isinstance(fn.value, ast.Name) and fn.value.id not in env and fn.value.id not in self.extra_names \
                and fn.value.id not in self.consts and mod.syms.get(fn.value.id) is not None and mod.syms[fn.value.id].kind == 'mod':
            return self.apply(self.expr(fn, env, mod), args, kwargs)        # a function of a repository module imported by name
        if isinstance(fn, ast.Attribute) and isinstance(fn.value, ast.Name) and fn.value.id not in env and fn.value.id not in self.extra_names \
                and fn.value.id not in self.consts and mod.syms.get(fn.value.id) is not None \
                and '%s.%s' % (mod.syms[fn.value.id].target, fn.attr) in PURE_IMPORTS:
            return self.apply(self.expr(fn, env, mod), args, kwargs)        # import itertools; itertools.islice(...)
        if isinstance(fn, ast.Attribute):
            # method on a plain Python value
            try:
                o = self.expr(fn.value, env, mod)
            except Unsupported:
                raise
            if _is_model(o) or _foreign(self, o):
                return getattr(o, fn.attr)(*self._py(args), **{k: self._py1(v) for k, v in kwargs.items()})
            if isinstance(o, Obj):
                if fn.attr in o.attrs:
                    return self.apply(o.attrs[fn.attr], args, kwargs)
                m = self.prog.lookup_method(o.cls.qn, fn.attr)
                if m is None:
                    if fn.attr in ('values', 'keys', 'items', 'get', 'pop', 'update', 'setdefault', '__contains__'):
                        # a repo class that derives from dict / OrderedDict: its entries live in o.items
                        return getattr(o.items, fn.attr)(*args, **kwargs)
                    if all(b.split('.')[-1] in ('object', 'dict', 'OrderedDict') for b in self.prog.external_bases(o.cls.qn)):
                        r = Raised('no method %s on %s' % (fn.attr, o.cls.name))     # the class is fully known: an AttributeError
                        r.excname = 'AttributeError'
                        raise r
                    raise Unsupported('method %s of %s' % (fn.attr, o.cls.name))
                return self.invoke(m, args, kwargs, o)
            if isinstance(o, (list, tuple, dict, set, frozenset, str, bytes)) and not hasattr(type(o), '_fields') and \
                    fn.attr in ('__iter__', '__len__', '__contains__', '__getitem__', '__str__', '__repr__', '__eq__', '__ne__', '__hash__'):
                return getattr(o, fn.attr)(*args)
            if isinstance(o, tuple) and hasattr(type(o), '_fields') and fn.attr in ('_replace', '_asdict', 'index', 'count'):
                return getattr(o, fn.attr)(*args, **kwargs)       # namedtuple methods
            for t, names in SAFE_METHODS.items():
                if isinstance(o, t) and fn.attr in names:
                    return getattr(o, fn.attr)(*self._py(args), **{k: self._py1(v) for k, v in kwargs.items()})
            if isinstance(o, tuple) and o and o[0] == '#sym' and o[1].kind == 'class':
                m = self.prog.lookup_method(o[1].target, fn.attr)
                if m is not None:
                    return self.invoke(m, args, kwargs, None)
                if fn.attr == '__subclasses__' and not args:
                    # the classes of the repository that name this one as a base, in the order they are defined
                    from .model import Sym
                    subs = [c for c in self.prog.classes.values() if o[1].target in c.bases]
                    subs.sort(key=lambda c: (c.mod.name != self.prog.classes[o[1].target].mod.name, c.mod.name, c.node.lineno))
                    return [('#sym', Sym('class', c.qn)) for c in subs]
                if fn.attr == '__name__':
                    pass
            if o in (dict, object) and fn.attr == '__init__' and args and isinstance(args[0], Obj):
                # dict.__init__(self, ...) / object.__init__(self) of a repo class deriving from a built-in
                if o is dict:
                    args[0].items.update(*args[1:], **kwargs)
                return None
            raise Unsupported('call %s on %s' % (fn.attr, type(o).__name__))
        f = self.expr(fn, env, mod)
        return self.apply(f, args, kwargs)

    def apply(self, f, args, kwargs):
        if isinstance(f, tuple) and f and f[0] == '#sym':
            s = f[1]
            if s.kind == 'func':
                return self.invoke(self.prog.funcs[s.target], args, kwargs, None)
            if s.kind == 'class':
                c = self.prog.classes[s.target]
                o = Obj(c)
                init = self.prog.lookup_method(c.qn, '__init__')
                if init is not None:
                    self.invoke(init, args, kwargs, o)
                return o
        if isinstance(f, tuple) and f and f[0] == '#bound':
            return self.invoke(f[1], args, kwargs, f[2])
        if isinstance(f, tuple) and f and f[0] == '#def':
            node, cenv, mod = f[1], f[2], f[3]
            env = self._bind_local(node.args, args, kwargs, cenv, mod, node.name, f[4] if len(f) > 4 else None)
            gen = _is_generator(node)
            if gen:
                env['#yield'] = []
            try:
                self.block(node.body, env, mod)
            except _Return as r:
                return iter(env['#yield']) if gen else r.v
            return iter(env['#yield']) if gen else None
        if isinstance(f, tuple) and f and f[0] == '#lambda':
            lam, cenv, mod = f[1], f[2], f[3]
            env = self._bind_local(lam.args, args, kwargs, cenv, mod, 'lambda', f[4] if len(f) > 4 else None)
            return self.expr(lam.body, env, mod)
        if callable(f) and (f in SAFE_BUILTINS.values() or f in SAFE_ATTR_CALLS.values() or any(f is v for v in PURE_IMPORTS.values())):
            return f(*self._py(args), **{k: self._py1(v) for k, v in kwargs.items()})
        if isinstance(f, (operator.itemgetter, operator.attrgetter)):
            return f(*self._py(args))
        if isinstance(f, type) and issubclass(f, tuple) and hasattr(f, '_fields'):
            return f(*args, **kwargs)          # a namedtuple class made by the evaluated module
        if _is_model(f) or _foreign(self, f) or getattr(f, '_pyeval_model', False) or any(f is v for v in self.extra_names.values()):
            return f(*args, **kwargs)
        owner = getattr(f, '__self__', None)
        if callable(f) and owner is not None and not isinstance(owner, types.ModuleType):
            for t, names in SAFE_METHODS.items():
                if isinstance(owner, t) and getattr(f, '__name__', '') in names:
                    return f(*self._py(args), **kwargs)
        raise Unsupported('call of %r' % (f,))

    def _defaults(self, a, env, mod):
        """default values, evaluated where the function is defined (as Python does)"""
        return ([self.expr(d, env, mod) for d in a.defaults], [None if d is None else self.expr(d, env, mod) for d in a.kw_defaults])

    def _bind_local(self, a, args, kwargs, cenv, mod, what, dvals=None):
        """parameters of a nested def / lambda bound as Python binds them (defaults evaluated in the defining scope)"""
        env = dict(cenv)
        env.pop('#yield', None)
        kwargs = dict(kwargs)
        names = [x.arg for x in a.posonlyargs + a.args]
        defaults = a.defaults
        if len(args) > len(names) and a.vararg is None:
            r = Raised('%s() takes %d positional arguments but %d were given' % (what, len(names), len(args)))
            r.excname = 'TypeError'
            raise r
        for i, nm in enumerate(names):
            if i < len(args):
                env[nm] = args[i]
            elif nm in kwargs:
                env[nm] = kwargs.pop(nm)
            else:
                j = i - (len(names) - len(defaults))
                if j < 0:
                    r = Raised('%s() missing argument %s' % (what, nm))
                    r.excname = 'TypeError'
                    raise r
                env[nm] = dvals[0][j] if dvals is not None else self.expr(defaults[j], cenv, mod)
        if a.vararg is not None:
            env[a.vararg.arg] = tuple(args[len(names):])
        for ki, (x, d) in enumerate(zip(a.kwonlyargs, a.kw_defaults)):
            if x.arg in kwargs:
                env[x.arg] = kwargs.pop(x.arg)
            elif d is not None:
                env[x.arg] = dvals[1][ki] if dvals is not None else self.expr(d, cenv, mod)
            else:
                r = Raised('%s() missing keyword-only argument %s' % (what, x.arg))
                r.excname = 'TypeError'
                raise r
        if a.kwarg is not None:
            env[a.kwarg.arg] = kwargs
        elif kwargs:
            r = Raised('%s() got an unexpected keyword argument %s' % (what, sorted(kwargs)[0]))
            r.excname = 'TypeError'
            raise r
        return env

    def _py1(self, v):
        """A lambda of the interpreted program as a Python callable (for sorted(key=...), map, filter ...)."""
        if isinstance(v, tuple) and v and v[0] in ('#lambda', '#def', '#bound', '#sym') and not hasattr(type(v), '_fields'):
            return lambda *a, **k: self.apply(v, list(a), dict(k))
        return v

    def _py(self, args):
        return [self._py1(a) for a in args]

    def invoke(self, m, args, kwargs, selfobj):
        if self.on_call is not None:
            handled, v = self.on_call(m, args, kwargs, selfobj)
            if handled:
                return v
        if m.is_method and not m.is_static and selfobj is None and not m.is_classmethod:
            # unbound call Class.m(obj, ...)
            return self.call(m, args, kwargs, None)
        if m.is_classmethod:
            owner = selfobj.cls if isinstance(selfobj, Obj) and selfobj.cls is not None else m.cls
            sym = owner.mod.syms.get(owner.name) if owner is not None else None
            if sym is None:
                raise Unsupported('classmethod %s: class not known' % m.short)
            return self.call(m, args, kwargs, ('#sym', sym))
        return self.call(m, args, kwargs, selfobj if (m.is_method and not m.is_static) else None)

    @staticmethod
    def binop(op, a, b):
        if isinstance(op, ast.Add):
            return a + b
        if isinstance(op, ast.Sub):
            return a - b
        if isinstance(op, ast.Mult):
            return a * b
        if isinstance(op, ast.Mod):
            return a % b
        if isinstance(op, ast.FloorDiv):
            return a // b
        if isinstance(op, ast.BitOr):
            return a | b
        if isinstance(op, ast.BitAnd):
            return a & b
        if isinstance(op, ast.Div):
            return a / b
        if isinstance(op, ast.Pow):
            return a ** b
        if isinstance(op, ast.BitXor):
            return a ^ b
        if isinstance(op, ast.LShift):
            return a << b
        if isinstance(op, ast.RShift):
            return a >> b
        if isinstance(op, ast.MatMult):
            return a @ b
        raise Unsupported('binary op %s' % type(op).__name__)

    @staticmethod
    def compare(op, a, b):
        if isinstance(op, ast.Eq):
            return a == b
        if isinstance(op, ast.NotEq):
            return a != b
        if isinstance(op, ast.Lt):
            return a < b
        if isinstance(op, ast.LtE):
            return a <= b
        if isinstance(op, ast.Gt):
            return a > b
        if isinstance(op, ast.GtE):
            return a >= b
        if isinstance(op, (ast.In, ast.NotIn)):
            if isinstance(b, Obj):
                b = b.items          # a repo class deriving from dict: membership is over its keys
            return (a in b) if isinstance(op, ast.In) else (a not in b)
        if isinstance(op, ast.Is):
            return a is b
        if isinstance(op, ast.IsNot):
            return a is not b
        raise Unsupported('comparison')


def _matching_handler(handlers, excname):
    import builtins
    exc = getattr(builtins, excname, None) if excname else None
    for h in handlers:
        if h.type is None:
            return h
        names = [h.type] if not isinstance(h.type, ast.Tuple) else list(h.type.elts)
        for n in names:
            nm = n.id if isinstance(n, ast.Name) else (n.attr if isinstance(n, ast.Attribute) else None)
            if nm in ('Exception', 'BaseException') or (nm is not None and nm == excname):
                return h
            base = getattr(builtins, nm, None) if nm else None
            if isinstance(exc, type) and isinstance(base, type) and issubclass(exc, base):
                return h
    return None


class _Break(Exception):
    pass


class _Continue(Exception):
    pass


def _load(t):
    t2 = ast.parse(ast.unparse(t), mode='eval').body
    return t2


def _dotted(e):
    if isinstance(e, ast.Name):
        return e.id
    if isinstance(e, ast.Attribute):
        b = _dotted(e.value)
        return (b + '.' + e.attr) if b else None
    return None
