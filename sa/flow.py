"""E2 - syntax-directed flow analyses.

* ``GuardMap``  : for every node of a function, the chain of conditions under
  which it is reached (if/elif arms, implied conditions after early exits,
  ``and``/``or``/conditional-expression operands, loop and handler markers).
* ``Walker``    : path-sensitive walk carrying "worlds" (definitely assigned
  names, valuation of boolean atoms, a rule-specific typestate and a weak flag
  for worlds reached over a zero-iteration or exception edge).
* ``compiler_unbound`` : the 3.12 compiler's own LOAD_FAST_CHECK set (oracle).
"""
import ast
import dis

NORETURN = {'sys.exit', 'os._exit', 'exit', 'quit', 'usage_error', 'self.usage_error',
            'raise_error'}


def call_name(c):
    try:
        return ast.unparse(c.func)
    except Exception:
        return ''


def is_noreturn_stmt(s, extra=()):
    if isinstance(s, ast.Expr) and isinstance(s.value, ast.Call):
        n = call_name(s.value)
        return n in NORETURN or n in extra
    return False


def block_exits(stmts, extra=()):
    """True if control never falls off the end of this block."""
    for s in stmts:
        if isinstance(s, (ast.Return, ast.Raise, ast.Continue, ast.Break)):
            return True
        if is_noreturn_stmt(s, extra):
            return True
        if isinstance(s, ast.If) and s.orelse and block_exits(s.body, extra) and block_exits(s.orelse, extra):
            return True
        if isinstance(s, (ast.With,)) and block_exits(s.body, extra):
            return True
        if isinstance(s, ast.Try):
            if s.finalbody and block_exits(s.finalbody, extra):
                return True
            body_exits = block_exits(s.body + s.orelse, extra)
            if body_exits and all(block_exits(h.body, extra) for h in s.handlers):
                return True
        if isinstance(s, ast.While) and isinstance(s.test, ast.Constant) and s.test.value \
                and not any(isinstance(x, ast.Break) for x in _own_walk(s.body)):
            return True
    return False


def _own_walk(stmts):
    """Walk statements without entering nested loops' breaks or nested defs."""
    stack = list(stmts)
    while stack:
        n = stack.pop()
        yield n
        if isinstance(n, (ast.FunctionDef, ast.AsyncFunctionDef, ast.ClassDef, ast.Lambda,
                          ast.For, ast.While)):
            continue
        stack.extend(ast.iter_child_nodes(n))


class Guard:
    __slots__ = ('pol', 'test', 'kind')

    def __init__(self, pol, test, kind='if'):
        self.pol = pol        # True / False (for kind 'if'); None for markers
        self.test = test      # ast expr, or node for markers
        self.kind = kind      # if | loop | except | finally | with | else-loop

    def text(self):
        if self.kind == 'if':
            t = ast.unparse(self.test)
            return t if self.pol else 'not (%s)' % t
        if self.kind == 'except':
            return 'except ' + (ast.unparse(self.test.type) if self.test.type else '*')
        return self.kind

    def __repr__(self):
        return '<%s>' % self.text()


class GuardMap:
    """chain(node) -> tuple of Guard under which ``node`` executes."""

    def __init__(self, fnode, noreturn=()):
        self.fnode = fnode
        self.noreturn = tuple(noreturn)
        self.chains = {}
        self.parent_stmt = {}
        body = fnode.body if isinstance(fnode.body, list) else [ast.Expr(fnode.body)]
        self._block(body, ())

    def chain(self, node):
        return self.chains.get(id(node), None)

    def stmt_of(self, node):
        return self.parent_stmt.get(id(node))

    def _block(self, stmts, chain):
        for s in stmts:
            self._stmt(s, chain)
            # implied guards after early exits
            if isinstance(s, ast.If):
                be = block_exits(s.body, self.noreturn)
                oe = bool(s.orelse) and block_exits(s.orelse, self.noreturn)
                if be and not oe:
                    chain = chain + (Guard(False, s.test),)
                elif oe and not be:
                    chain = chain + (Guard(True, s.test),)
            elif isinstance(s, ast.Assert):
                chain = chain + (Guard(True, s.test),)

    def _expr(self, e, chain, stmt):
        """Record chains for every sub-expression, refining inside BoolOp/IfExp."""
        if e is None:
            return
        self.chains[id(e)] = chain
        self.parent_stmt[id(e)] = stmt
        if isinstance(e, ast.BoolOp):
            c = chain
            for v in e.values:
                self._expr(v, c, stmt)
                c = c + (Guard(isinstance(e.op, ast.And), v),)
            return
        if isinstance(e, ast.IfExp):
            self._expr(e.test, chain, stmt)
            self._expr(e.body, chain + (Guard(True, e.test),), stmt)
            self._expr(e.orelse, chain + (Guard(False, e.test),), stmt)
            return
        if isinstance(e, ast.Lambda):
            self._expr(e.body, chain, stmt)
            return
        if isinstance(e, (ast.ListComp, ast.SetComp, ast.GeneratorExp, ast.DictComp)):
            c = chain
            for g in e.generators:
                self._expr(g.iter, c, stmt)
                self._expr(g.target, c, stmt)
                for i in g.ifs:
                    self._expr(i, c, stmt)
                    c = c + (Guard(True, i),)
            for f in ('elt', 'key', 'value'):
                if hasattr(e, f):
                    self._expr(getattr(e, f), c, stmt)
            return
        for ch in ast.iter_child_nodes(e):
            if isinstance(ch, ast.expr):
                self._expr(ch, chain, stmt)
            elif isinstance(ch, ast.keyword):
                self._expr(ch.value, chain, stmt)
            elif isinstance(ch, ast.comprehension):
                pass
            elif isinstance(ch, (ast.expr_context, ast.operator, ast.boolop, ast.unaryop, ast.cmpop)):
                pass

    def _stmt(self, s, chain):
        self.chains[id(s)] = chain
        self.parent_stmt[id(s)] = s
        if isinstance(s, (ast.FunctionDef, ast.AsyncFunctionDef, ast.ClassDef)):
            return
        if isinstance(s, ast.If):
            self._expr(s.test, chain, s)
            self._block(s.body, chain + (Guard(True, s.test),))
            self._block(s.orelse, chain + (Guard(False, s.test),))
        elif isinstance(s, (ast.For, ast.AsyncFor)):
            self._expr(s.iter, chain, s)
            self._expr(s.target, chain, s)
            self._block(s.body, chain + (Guard(None, s, 'loop'),))
            self._block(s.orelse, chain)
        elif isinstance(s, ast.While):
            self._expr(s.test, chain, s)
            self._block(s.body, chain + (Guard(None, s, 'loop'), Guard(True, s.test)))
            self._block(s.orelse, chain)
        elif isinstance(s, (ast.With, ast.AsyncWith)):
            for it in s.items:
                self._expr(it.context_expr, chain, s)
                if it.optional_vars is not None:
                    self._expr(it.optional_vars, chain, s)
            self._block(s.body, chain)
        elif isinstance(s, ast.Try):
            self._block(s.body, chain + (Guard(None, s, 'try'),))
            for h in s.handlers:
                self.chains[id(h)] = chain
                self._block(h.body, chain + (Guard(None, h, 'except'),))
            self._block(s.orelse, chain)
            self._block(s.finalbody, chain + (Guard(None, s, 'finally'),))
        else:
            for ch in ast.iter_child_nodes(s):
                if isinstance(ch, ast.expr):
                    self._expr(ch, chain, s)
                elif isinstance(ch, ast.keyword):
                    self._expr(ch.value, chain, s)


def conds(chain):
    """Only the if-conditions of a chain, as (polarity, unparsed text)."""
    return [(g.pol, ast.unparse(g.test)) for g in chain if g.kind == 'if']


def chain_text(chain):
    return ' & '.join(g.text() for g in chain) or 'unconditional'


# ---------------------------------------------------------------------------
# Worlds walker
# ---------------------------------------------------------------------------
MAXW = 512


class World:
    __slots__ = ('asg', 'atoms', 'weak', 'state')

    def __init__(self, asg, atoms, weak=False, state=None):
        self.asg = asg
        self.atoms = atoms
        self.weak = weak
        self.state = state

    def key(self):
        return (self.asg, tuple(sorted(self.atoms.items(), key=repr)), self.weak, self.state)

    def with_(self, **kw):
        w = World(self.asg, self.atoms, self.weak, self.state)
        for k, v in kw.items():
            setattr(w, k, v)
        return w


def merge(ws):
    d = {}
    for w in ws:
        d[w.key()] = w
    ws = list(d.values())
    if len(ws) > MAXW:
        bystate = {}
        for w in ws:
            bystate.setdefault((w.state, w.weak), []).append(w)
        out = []
        for (st, weak), grp in bystate.items():
            asg = frozenset.intersection(*[w.asg for w in grp])
            out.append(World(asg, {}, weak, st))
        return out
    return ws


def atom_of(e):
    """(key, polarity) for the boolean atoms the walker tracks."""
    if isinstance(e, ast.Name):
        return (('name', e.id), True)
    if isinstance(e, ast.Attribute):
        try:
            return (('name', ast.unparse(e)), True)
        except Exception:
            return None
    if isinstance(e, ast.UnaryOp) and isinstance(e.op, ast.Not):
        a = atom_of(e.operand)
        return (a[0], not a[1]) if a else None
    if isinstance(e, ast.Compare) and len(e.ops) == 1 and isinstance(e.left, (ast.Name, ast.Attribute)):
        op = e.ops[0]
        c = e.comparators[0]
        left = ast.unparse(e.left)
        if isinstance(c, ast.Constant):
            if isinstance(op, (ast.Is, ast.Eq)):
                return (('eq', left, repr(c.value)), True)
            if isinstance(op, (ast.IsNot, ast.NotEq)):
                return (('eq', left, repr(c.value)), False)
        if isinstance(op, (ast.In, ast.NotIn)) and isinstance(c, (ast.Tuple, ast.List, ast.Set)) \
                and all(isinstance(x, ast.Constant) for x in c.elts):
            k = ('in', left, tuple(sorted(repr(x.value) for x in c.elts)))
            return (k, isinstance(op, ast.In))
    if isinstance(e, ast.Call):
        # pure predicate calls on names are tracked as opaque atoms by text
        try:
            t = ast.unparse(e)
        except Exception:
            return None
        if len(t) < 80:
            return (('call', t), True)
    return None


def assume(w, test, val):
    """Worlds consistent with ``test`` evaluating to ``val`` ([] if none)."""
    if isinstance(test, ast.BoolOp):
        isand = isinstance(test.op, ast.And)
        if (isand and val) or (not isand and not val):
            ws = [w]
            for v in test.values:
                ws = [x for y in ws for x in assume(y, v, val)]
            return ws
        out = []
        for v in test.values:
            out += assume(w, v, val)
        return out
    if isinstance(test, ast.Constant):
        return [w] if bool(test.value) == val else []
    a = atom_of(test)
    if a is None:
        return [w]
    k, pol = a
    want = (pol == val)
    if k in w.atoms:
        return [w] if w.atoms[k] == want else []
    if k[0] == 'eq':
        for k2, v2 in w.atoms.items():
            if k2[0] == 'eq' and k2[1] == k[1] and k2[2] != k[2] and v2 and want:
                return []
            if k2[0] == 'in' and k2[1] == k[1] and v2 and want and k[2] not in k2[2]:
                return []
            if k2[0] == 'name' and k2[1] == k[1] and want and (
                    (k[2] in ('None', 'False', '0', "''") and v2) or
                    (k[2] == 'True' and not v2)):
                return []
    if k[0] == 'name':
        for k2, v2 in w.atoms.items():
            if k2[0] == 'eq' and k2[1] == k[1] and v2:
                if k2[2] in ('None', 'False', '0', "''") and want:
                    return []
                if k2[2] == 'True' and not want:
                    return []
    d = dict(w.atoms)
    d[k] = want
    return [World(w.asg, d, w.weak, w.state)]


def names_in_target(t, out):
    if isinstance(t, ast.Name):
        out.add(t.id)
    elif isinstance(t, (ast.Tuple, ast.List)):
        for e in t.elts:
            names_in_target(e, out)
    elif isinstance(t, ast.Starred):
        names_in_target(t.value, out)


def assigned_names(stmts):
    out = set()
    for s in stmts:
        for n in ast.walk(s):
            if isinstance(n, ast.Name) and isinstance(n.ctx, (ast.Store, ast.Del)):
                out.add(n.id)
            elif isinstance(n, ast.Attribute) and isinstance(n.ctx, ast.Store):
                try:
                    out.add(ast.unparse(n))
                except Exception:
                    pass
    return out


class Walker:
    """Override ``expr`` (every evaluated expression), ``transfer`` (typestate
    per statement), ``at_exit`` (function exits)."""

    def __init__(self, fnode, params=(), noreturn=()):
        self.fnode = fnode
        self.noreturn = tuple(noreturn)
        self.params = frozenset(params)
        self.exits = []     # (kind, node, worlds)

    # hooks -----------------------------------------------------------------
    def expr(self, e, ws, stmt):
        pass

    def transfer(self, stmt, ws):
        return ws

    def call_transfer(self, e, ws, stmt):
        return ws

    def init_state(self):
        return None

    # driver ----------------------------------------------------------------
    def run(self):
        body = self.fnode.body if isinstance(self.fnode.body, list) else [ast.Return(self.fnode.body)]
        w0 = World(self.params, {}, False, self.init_state())
        ws, brk, cont = self.block(body, [w0])
        if ws:
            self.exits.append(('fall', self.fnode, ws))
        # when a loop body is analysed on its own, continue/break leave it too
        if cont:
            self.exits.append(('continue', self.fnode, cont))
        if brk:
            self.exits.append(('break', self.fnode, brk))
        return self

    def kill(self, w, names):
        if not names:
            return w
        d = {k: v for k, v in w.atoms.items()
             if not any(k[1] == n or k[1].startswith(n + '.') or (k[0] == 'call' and _mentions(k[1], n))
                        for n in names)}
        return World(w.asg, d, w.weak, w.state)

    def assign(self, ws, names):
        return [self.kill(World(w.asg | names, w.atoms, w.weak, w.state), names) for w in ws]

    def block(self, stmts, ws):
        brk, cont = [], []
        for s in stmts:
            if not ws:
                break
            ws, b, c = self.stmt(s, ws)
            brk += b
            cont += c
            ws = merge(ws)
        return ws, brk, cont

    def ev(self, e, ws, stmt):
        if e is not None:
            self.expr(e, ws, stmt)
            ws = self.call_transfer(e, ws, stmt)
        return ws

    def stmt(self, s, ws):
        ws = self.transfer(s, ws)
        if isinstance(s, (ast.FunctionDef, ast.AsyncFunctionDef, ast.ClassDef)):
            return self.assign(ws, {s.name}), [], []
        if isinstance(s, (ast.Import, ast.ImportFrom)):
            return self.assign(ws, {(a.asname or a.name).split('.')[0] for a in s.names}), [], []
        if isinstance(s, ast.Assign):
            ws = self.ev(s.value, ws, s)
            names = set()
            attrs = set()
            for t in s.targets:
                names_in_target(t, names)
                if isinstance(t, (ast.Attribute, ast.Subscript)):
                    self.expr(t, ws, s)
                    if isinstance(t, ast.Attribute):
                        attrs.add(ast.unparse(t))
            ws = self.assign(ws, names)
            if attrs:
                ws = [self.kill(w, attrs) for w in ws]
            # a flag: NAME = True / False / None / 0 / '' ... is a fact about NAME from here on
            if len(s.targets) == 1 and isinstance(s.targets[0], ast.Name) and isinstance(s.value, ast.Constant) \
                    and isinstance(s.value.value, (bool, int, str, type(None))):
                k = ('name', s.targets[0].id)
                out = []
                for w in ws:
                    d = dict(w.atoms)
                    d[k] = bool(s.value.value)
                    if s.value.value is None or isinstance(s.value.value, bool):
                        d[('eq', s.targets[0].id, repr(s.value.value))] = True
                    out.append(World(w.asg, d, w.weak, w.state))
                ws = out
            return ws, [], []
        if isinstance(s, ast.AugAssign):
            ws = self.ev(s.value, ws, s)
            if isinstance(s.target, ast.Name):
                self.expr(ast.copy_location(ast.Name(id=s.target.id, ctx=ast.Load()), s.target), ws, s)
                return self.assign(ws, {s.target.id}), [], []
            self.expr(s.target, ws, s)
            return ws, [], []
        if isinstance(s, ast.AnnAssign):
            if s.value is not None:
                ws = self.ev(s.value, ws, s)
                n = set()
                names_in_target(s.target, n)
                return self.assign(ws, n), [], []
            return ws, [], []
        if isinstance(s, ast.Expr):
            ws = self.ev(s.value, ws, s)
            if is_noreturn_stmt(s, self.noreturn):
                self.exits.append(('noreturn', s, ws))
                return [], [], []
            return ws, [], []
        if isinstance(s, ast.Return):
            ws = self.ev(s.value, ws, s)
            self.exits.append(('return', s, ws))
            return [], [], []
        if isinstance(s, ast.Raise):
            ws = self.ev(s.exc, ws, s)
            self.exits.append(('raise', s, ws))
            return [], [], []
        if isinstance(s, ast.Assert):
            ws = self.ev(s.test, ws, s)
            return [x for w in ws for x in assume(w, s.test, True)], [], []
        if isinstance(s, ast.Delete):
            names = set()
            for t in s.targets:
                names_in_target(t, names)
            return [World(w.asg - names, w.atoms, w.weak, w.state) for w in ws], [], []
        if isinstance(s, (ast.Pass, ast.Global, ast.Nonlocal)):
            return ws, [], []
        if isinstance(s, ast.Break):
            return [], ws, []
        if isinstance(s, ast.Continue):
            return [], [], ws
        if isinstance(s, ast.If):
            ws = self.ev(s.test, ws, s)
            tw = [x for w in ws for x in assume(w, s.test, True)]
            fw = [x for w in ws for x in assume(w, s.test, False)]
            a, b1, c1 = self.block(s.body, merge(tw))
            b, b2, c2 = self.block(s.orelse, merge(fw))
            return merge(a + b), b1 + b2, c1 + c2
        if isinstance(s, (ast.For, ast.AsyncFor, ast.While)):
            return self.loop(s, ws)
        if isinstance(s, (ast.With, ast.AsyncWith)):
            names = set()
            for it in s.items:
                ws = self.ev(it.context_expr, ws, s)
                if it.optional_vars is not None:
                    names_in_target(it.optional_vars, names)
            return self.block(s.body, self.assign(ws, names))
        if isinstance(s, ast.Try):
            return self.try_(s, ws)
        return ws, [], []

    def loop(self, s, ws):
        killed = assigned_names(s.body)
        if isinstance(s, ast.While):
            ws = self.ev(s.test, ws, s)
            entry = [x for w in ws for x in assume(w, s.test, True)]
            const_true = isinstance(s.test, ast.Constant) and bool(s.test.value)
            zero = [] if const_true else [x for w in ws for x in assume(w, s.test, False)]
        else:
            ws = self.ev(s.iter, ws, s)
            names = set()
            names_in_target(s.target, names)
            entry = self.assign(ws, names)
            zero = ws
            const_true = False
        zero = [World(w.asg, w.atoms, True, w.state) for w in zero]
        # iterate the body to a fixpoint on (state) - two passes suffice for the
        # finite typestates used here; atoms on names assigned in the body are killed
        body_in = merge(entry)
        after = []
        brk_all = []
        seen_keys = set()
        for _ in range(4):
            new = [w for w in body_in if w.key() not in seen_keys]
            if not new:
                break
            for w in new:
                seen_keys.add(w.key())
            body, brk, cont = self.block(s.body, new)
            brk_all += brk
            out = body + cont
            after += out
            nxt = [self.kill(w, killed) for w in out]
            if isinstance(s, ast.While):
                nxt2 = []
                for w in nxt:
                    self.expr(s.test, [w], s)
                    nxt2 += assume(w, s.test, True)
                nxt = nxt2
            else:
                names = set()
                names_in_target(s.target, names)
                nxt = self.assign(nxt, names)
            body_in = merge(nxt)
        # the worlds at the end of a pass hold facts established in that pass (atoms of a name are dropped where it is assigned):
        # they are true when the loop is left from there
        if isinstance(s, ast.While):
            done = [x for w in after for x in assume(w, s.test, False)]
        else:
            done = list(after)
        if s.orelse:
            els, b2, c2 = self.block(s.orelse, merge(done + zero))
        else:
            els, b2, c2 = done + zero, [], []
        return merge(els + brk_all), b2, c2

    def try_(self, s, ws):
        body, b1, c1 = self.block(s.body, ws)
        # a handler can be entered after any prefix of the body: entry worlds,
        # weak; typestate hooks see the union of states reachable in the body
        hentry = [World(w.asg, w.atoms, True, w.state) for w in ws]
        hentry += [World(w.asg & ws[0].asg if ws else w.asg, {}, True, w.state) for w in body]
        hentry += self.handler_extra(s, ws)
        outs = []
        brk, cont = list(b1), list(c1)
        for h in s.handlers:
            hw = self.assign(merge(hentry), {h.name} if h.name else set())
            o, b, c = self.block(h.body, merge(hw))
            outs += o
            brk += b
            cont += c
        if s.orelse:
            e, b, c = self.block(s.orelse, body)
            brk += b
            cont += c
        else:
            e = body
        allout = merge(e + outs)
        if s.finalbody:
            nexits = len(self.exits)
            f, b, c = self.block(s.finalbody, allout if allout else merge(hentry))
            # exits taken inside try/handlers also run the finally block
            self.finally_for_exits(s, nexits)
            return (f if allout else []), brk + b, cont + c
        return allout, brk, cont

    def handler_extra(self, s, ws):
        return []

    def finally_for_exits(self, s, nexits):
        pass


def _mentions(text, name):
    import re
    return re.search(r'(?<![\w.])%s(?![\w])' % re.escape(name), text) is not None


# ---------------------------------------------------------------------------
# compiler oracle
# ---------------------------------------------------------------------------
def compiler_unbound(src, filename):
    """{(function name, first line): set(locals CPython cannot prove bound)}"""
    out = {}
    try:
        code = compile(src, filename, 'exec', dont_inherit=True)
    except SyntaxError:
        return out

    def rec(co):
        names = set()
        for ins in dis.get_instructions(co):
            if ins.opname in ('LOAD_FAST_CHECK', 'DELETE_FAST'):
                names.add(ins.argval)
        if names:
            out[(co.co_name, co.co_firstlineno)] = names
        for c in co.co_consts:
            if hasattr(c, 'co_code'):
                rec(c)
    rec(code)
    return out
