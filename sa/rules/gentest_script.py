"""C11-SCRIPT / C12-SCRIPT - TestGenerator.write_script evaluated (by sa.pyeval, never executed) on a grid of generator states
holding awkward text, and the script text it produces parsed and read back.

What the rule decides is the text-producing code of the generator: write_script, test_def, quote_raw, as_join_repr, cli_command
and the boilerplate.  The generator state is handed in as it stands after the command has been run (the rule does not run
commands): the attributes write_script reads, with the values the earlier phases would have left there.
"""
import ast
import posixpath

from ..model import AnalysisError
from ..pyeval import Interp, Obj, Model, Unsupported, Raised, pure_os

GT = 'tdda.referencetest.gentest.'
TMP = '/tmp/tmpGEN'        # gentest's temporary directory while the test is generated
TMP_RUN = '/tmp/tmpRUN'    # the fresh one the generated test makes when it runs
CWD = '/w/job'


class _File(Model):
    def __init__(self, path, mode):
        self.path = path
        self.mode = mode
        self.text = ''

    def write(self, s):
        self.text += s

    def __iter__(self):
        return iter([b'hello\n'] if 'b' in self.mode else ['hello\n'])

    def __enter__(self):
        return self

    def __exit__(self, *a):
        return None


class _FT(Model):
    def __init__(self, text=True, encoding=None):
        self.text = text
        self.binary = not text
        self.encoding = encoding
        self.orig_encoding = encoding
        self.image = False


class _Res(Model):
    def __init__(self, code):
        self.exit_code = code


AWKWARD = [
    'echo hello',
    'echo "double" \'single\'',
    'printf """triple""" \'\'\'both\'\'\'',
    'grep -E "\\d+\\.\\d+" file\\',
    'echo café → \U0001F600',
    "python -c 'print(\"\\n\\x41\\u00e9\\N{BULLET}\")'",
    'echo """',
    'echo %s %(SCRIPT)s 100%',
    'type C:\\Users\\new\\x.txt \\N \\u12',
]

SCENARIOS = []


def _scenario(name, **kw):
    d = dict(name=name, command='echo hello', raw_script='test_cmd.py', files=[], check_stdout=True, check_stderr=True,
             exit_code=0, exclusions={}, ref_map={}, zec=True, iterations=2, tmpdir_used=False)
    d.update(kw)
    SCENARIOS.append(d)


for i, c in enumerate(AWKWARD):
    _scenario('command-%d' % i, command=c)
_scenario('no-stdout', check_stdout=False)
_scenario('no-stderr', check_stderr=False)
_scenario('no-streams', check_stdout=False, check_stderr=False, files=[(CWD + '/out.txt', 'text', None)])
_scenario('exit-3', exit_code=3, zec=False)
_scenario('one-iteration', iterations=1, files=[(CWD + '/sub/out.dat', 'text', 'ascii'), (CWD + '/plot.png', 'binary', None),
                                              (TMP + '/made/in tmp.txt', 'text', 'ascii')])
_scenario('script-name-awkward', raw_script='test_my-cmd.v2 (new).py')
_scenario('script-name-unicode', raw_script='test_ünï.py')
_scenario('script-in-subdir', raw_script='sub/dir/test_x.py')
_scenario('files', files=[(CWD + '/out.txt', 'text', None), (CWD + '/sub dir/it\'s "q".csv', 'text', 'utf-8'),
                          (CWD + '/plot.png', 'binary', None), ('/other/place/data.json', 'text', 'ascii'),
                          (TMP + '/scratch/tmp out.txt', 'text', None), (CWD + '/2nd-file.txt', 'text', None)])
_scenario('files-same-name', files=[(CWD + '/out.txt', 'text', None), ('/other/out.txt', 'text', None), (CWD + '/a/out_txt', 'text', None)],
          ref_map={'/other/out.txt': CWD + '/ref/cmd/out.txt1'})
_scenario('files-named-like-the-fixed-tests', files=[(CWD + '/stdout', 'text', None), (CWD + '/out/exit_code', 'text', None), (CWD + '/stderr', 'text', None)],
          ref_map={CWD + '/stdout': CWD + '/ref/cmd/stdout1', CWD + '/stderr': CWD + '/ref/cmd/stderr1'})
_scenario('exclusions', files=[(CWD + '/log.txt', 'text', None)], tmpdir_used=True,   # a line naming the temporary directory was seen
         
          exclusions={'STDOUT': (['^took \\d+\\.\\d+s$', '^it\'s "quoted" \\[x\\]$', '^both \'\'\' and """ here$'],
                                 ['removed line\n', 'trailing backslash\\', 'quote \' " \'\'\' """', 'café\n'],
                                 ['myhost', 'o\'brien', TMP, '/w/job']),
                      'STDERR': (['^\\s+at 0x[0-9a-f]+$'], [], []),
                      'log.txt': ([], ['2024-01-01 only here\n'], ['2024-01-01'])})


def generate(p, sc):
    """-> (script path opened, mode, text written) by write_script in the scenario; raises AnalysisError when not evaluable."""
    c = p.cls('TestGenerator')
    ws = c.methods['write_script']
    files = []

    def fake_open(path, mode='r', **kw):
        f = _File(path, mode)
        files.append(f)
        return f
    fake_open._pyeval_model = True

    class _Detector(Model):
        done = True
        result = {'confidence': 0.99, 'encoding': 'ascii'}

        def feed(self, line):
            return None

        def close(self):
            return None

    class _Chardet(Model):
        UniversalDetector = _Detector

    def fake_print(*a, **k):
        return None
    fake_print._pyeval_model = True
    g = Obj(c)
    script_base = posixpath.basename(sc['raw_script'])
    script = CWD + '/' + sc['raw_script']
    paths = [f[0] for f in sc['files']]
    refdir = CWD + '/ref/' + (script_base[5:-3] if script_base.startswith('test_') else script_base[4:-3])
    filetypes = {}
    for path, kind, enc in (sc['files'] if sc['iterations'] > 1 else ()):     # with one run nothing has been classified yet
        short = posixpath.basename(sc['ref_map'].get(path, path))
        filetypes[short] = _FT(kind == 'text', enc)
    g.attrs.update(cwd=CWD, tmp_dir_shell_var='TMPDIR', tmpdir=TMP, tmpdir_used=sc['tmpdir_used'], command=sc['command'], raw_script=sc['raw_script'],
                   script=script, raw_files=[posixpath.relpath(x, CWD) if x.startswith(CWD + '/') else x for x in paths], verbose=False,
                   reference_files={1: list(paths), 2: list(paths)}, check_stdout=sc['check_stdout'], check_stderr=sc['check_stderr'],
                   no_clobber=False, require_zero_exit_code=sc['zec'], relative_paths=False, iterations=sc['iterations'], warnings=[], refdir=refdir,
                   ref_map=dict(sc['ref_map']), test_names=set(), test_qualifier=1, max_snapshot_files=100, with_timelog=True,
                   results={1: _Res(sc['exit_code']), 2: _Res(sc['exit_code'])},
                   exclusions={k: tuple(list(x) for x in v) for k, v in sc['exclusions'].items()}, filetypes=filetypes,
                   host='myhost', ip='10.0.0.1', ip_address='10.0.0.1', homedir='/home/me', user='me', snapshot={})
    I = Interp(p, consts={'TMPDIR': TMP, 'TERM_TMPDIR': TMP + '/'})
    I.extra_names['os'] = pure_os()
    I.extra_names['open'] = fake_open
    I.extra_names['print'] = fake_print
    I.extra_names['chardet'] = _Chardet()
    try:
        I.call(ws, [], selfobj=g)
    except Raised as e:
        return None, 'raises (%s)' % e, refdir
    except Unsupported as e:
        raise AnalysisError('write_script is not evaluable in scenario %s: %s' % (sc['name'], e))
    loose = [f.path for f in files if not ('w' in f.mode or 'a' in f.mode) and not posixpath.isabs(f.path)]
    if loose:
        return None, 'reads %r by a relative name: found only when the process happens to run in the directory that holds it' % loose[0], refdir
    written = [f for f in files if 'w' in f.mode or 'a' in f.mode]
    if len(written) != 1 or written[0].path != script:
        return None, 'writes %s instead of the script %s' % ([f.path for f in written], script), refdir
    return written[0].text, None, refdir


def _denote(e, env):
    """value of the small expression language the generator writes for paths"""
    if isinstance(e, ast.Constant):
        return e.value
    if isinstance(e, ast.Call) and ast.unparse(e.func) == 'os.path.join' and not e.keywords:
        return posixpath.join(*[_denote(a, env) for a in e.args])
    if isinstance(e, ast.Attribute) and isinstance(e.value, ast.Name) and e.value.id in ('self', 'cls') and e.attr in env:
        return env[e.attr]
    if isinstance(e, ast.Name) and e.id in env:
        return env[e.id]
    raise ValueError('expression %s is outside the path language' % ast.unparse(e)[:60])


def read_back(text):
    """-> dict describing the generated script (raises SyntaxError / ValueError)"""
    tree = ast.parse(text)
    classes = [n for n in tree.body if isinstance(n, ast.ClassDef)]
    if len(classes) != 1:
        raise ValueError('%d classes in the script' % len(classes))
    c = classes[0]
    out = {'doc': ast.get_docstring(tree, clean=False), 'class': c.name, 'assign': {}, 'tests': {}, 'dup': []}
    for b in c.body:
        if isinstance(b, ast.Assign) and len(b.targets) == 1 and isinstance(b.targets[0], ast.Name):
            out['assign'][b.targets[0].id] = b.value
        if isinstance(b, ast.FunctionDef) and b.name.startswith('test'):
            if b.name in out['tests']:
                out['dup'].append(b.name)        # the later definition replaces the earlier one: a test is lost (a C12 matter)
            out['tests'][b.name] = b
    out['bound'] = {t.id for n in ast.walk(c) if isinstance(n, ast.Assign) for t in n.targets if isinstance(t, ast.Name)}
    out['bound'] |= {x.attr for n in ast.walk(c) for x in ast.walk(n) if isinstance(x, ast.Attribute) and isinstance(x.ctx, ast.Store)
                     and isinstance(x.value, ast.Name) and x.value.id in ('self', 'cls')}
    calls = {id(n.func) for n in ast.walk(c) if isinstance(n, ast.Call)}
    out['read'] = {x.attr for x in ast.walk(c) if isinstance(x, ast.Attribute) and isinstance(x.ctx, ast.Load) and id(x) not in calls
                   and isinstance(x.value, ast.Name) and x.value.id in ('self', 'cls')}
    out['read'] |= {x.id for b in c.body if not isinstance(b, ast.FunctionDef) for x in ast.walk(b)
                    if isinstance(x, ast.Name) and isinstance(x.ctx, ast.Load) and x.id in ('cwd', 'refdir', 'tmpdir', 'orig_tmpdir')}
    out['stray'] = [ast.unparse(n)[:60] for i, n in enumerate(tree.body)
                    if not (isinstance(n, (ast.Import, ast.ImportFrom, ast.ClassDef)) or (i == 0 and isinstance(n, ast.Expr) and isinstance(n.value, ast.Constant))
                            or (isinstance(n, ast.If) and ast.unparse(n.test).replace('"', "'") == "__name__ == '__main__'"))]
    out['main'] = any(isinstance(n, ast.If) and 'ReferenceTestCase.main()' in ast.unparse(n) for n in tree.body)
    return out


def _test_parts(fn):
    """-> (assert method, positional args, keyword dict, local list literals) of a generated test"""
    lists = {}
    calls = []
    for st in fn.body:
        if isinstance(st, ast.Assign) and len(st.targets) == 1 and isinstance(st.targets[0], ast.Name):
            lists[st.targets[0].id] = st.value
        elif isinstance(st, ast.Expr) and isinstance(st.value, ast.Call):
            calls.append(st.value)
        else:
            raise ValueError('unexpected statement in %s: %s' % (fn.name, ast.unparse(st)[:50]))
    if len(calls) != 1:
        raise ValueError('%s makes %d assertion calls' % (fn.name, len(calls)))
    call = calls[0]
    return ast.unparse(call.func), call.args, {k.arg: k.value for k in call.keywords}, lists


def _sanitised(name):
    return ''.join(ch if ch.isalnum() else '_' for ch in name)


def run_rule(run, p, pid):
    rid = pid + '-SCRIPT'
    if pid == 'C11':
        run.rule(rid, 'write_script, evaluated on %d generator states holding awkward text (quotes of every kind, triple quotes, '
                      'backslashes, escapes, %%-signs, unicode in the command; awkward script and file names; exclusion lists with '
                      'quotes, backslashes and newlines), writes exactly the script file, and the text parses as Python with the '
                      'docstring, class and command read back unharmed' % len(SCENARIOS))
    else:
        run.rule(rid, 'the script write_script produces (evaluated on %d generator states, then parsed) holds exactly one test per '
                      'checked stream and per reference file plus the exception and exit-status tests; each test makes one assertion '
                      'of the right kind whose actual argument is the command\'s own output and whose reference argument is the '
                      'stored reference; the exit status expected is the one observed; only the generator\'s exclusions are passed'
                      % len(SCENARIOS))
    td = p.fn(GT + 'test_def')
    ws = p.method('TestGenerator', 'write_script')
    n = 0
    for sc in SCENARIOS:
        n += 1
        text, err, refdir = generate(p, sc)
        key = 'scenario:%s' % sc['name']
        if text is None:
            if pid == 'C11':
                run.ob(rid, key + ':written', False, 'in scenario %s write_script %s' % (sc['name'], err), fn=ws)
            else:
                run.note(rid, 'scenario %s: no script to read back (write_script %s) - a matter for C11-SCRIPT' % (sc['name'], err), fn=ws)
            continue
        try:
            rb = read_back(text)
        except (SyntaxError, ValueError) as e:
            line = ''
            if isinstance(e, SyntaxError) and e.lineno:
                line = ' | ' + text.splitlines()[e.lineno - 1].strip()[:80]
            run.ob(rid, key + ':parses', False, 'scenario %s (command %r): the generated script does not read back: %s%s'
                   % (sc['name'], sc['command'], e, line), fn=ws)
            continue
        if pid == 'C11':
            run.ob(rid, key + ':parses', True, 'scenario %s: %d characters of script parse; class %s, %d tests' % (
                sc['name'], len(text), rb['class'], len(rb['tests'])), fn=ws)
            problems = []
            try:
                cmd = ast.literal_eval(rb['assign'].get('command'))
            except Exception:
                cmd = None
            if cmd != sc['command']:
                problems.append('class attribute command reads back as %r, not %r' % (cmd, sc['command']))
            if not rb['doc'] or 'Generation command' not in rb['doc']:
                problems.append('the module docstring is lost or cut short')
            if rb['stray']:
                problems.append('statements outside the class that the boilerplate does not hold: %s' % rb['stray'][:2])
            if not rb['main']:
                problems.append('the script no longer ends by running its tests')
            unset = sorted(rb['read'] - rb['bound'])
            if unset:
                problems.append('the class reads %s, which it never sets: NameError / AttributeError when the test runs' % ', '.join(unset))
            run.ob(rid, key + ':header', not problems, 'scenario %s: %s' % (sc['name'], '; '.join(problems) or 'docstring and command read back intact'),
                   fn=ws)
            continue
        # ---- C12: what the script tests
        env = {'cwd': CWD}
        if 'tmpdir' in rb['bound']:
            env['tmpdir'] = TMP_RUN       # the class makes a fresh temporary directory: files the command writes there are there
        problems = []
        try:
            env['refdir'] = _denote(rb['assign']['refdir'], env)
        except (KeyError, ValueError) as e:
            problems.append('refdir of the class not readable: %s' % e)
        if env.get('refdir') != refdir:
            problems.append('the class reads its references from %r, the generator stored them in %r' % (env.get('refdir'), refdir))
        expect = {}
        if sc['check_stdout']:
            expect['self.output'] = ('stdout', 'self.assertStringCorrect', refdir + '/STDOUT', 'STDOUT', None)
        if sc['check_stderr']:
            expect['self.error'] = ('stderr', 'self.assertStringCorrect', refdir + '/STDERR', 'STDERR', None)
        for path, kind, enc in sc['files']:
            ref = sc['ref_map'].get(path, refdir + '/' + posixpath.basename(path))
            if path.startswith(TMP + '/'):
                path = TMP_RUN + path[len(TMP):]          # where the re-run command will write it
            expect[path] = ('file:' + path, 'self.assertTextFileCorrect' if kind == 'text' else 'self.assertBinaryFileCorrect', ref,
                            posixpath.basename(ref), enc if kind == 'text' else None)
        found = {}
        for tname, fn in rb['tests'].items():
            if tname in ('test_no_exception', 'test_exit_code'):
                continue
            try:
                m, args, kws, lists = _test_parts(fn)
                a = ast.unparse(args[0]) if ast.unparse(args[0]) in ('self.output', 'self.error') else _denote(args[0], env)
            except (ValueError, IndexError) as e:
                problems.append('%s is not readable: %s' % (tname, e))
                continue
            found.setdefault(a, []).append(tname)
        for a in sorted(set(expect) - set(found)):
            problems.append('no test checks %s' % a)
        for a in sorted(set(found) - set(expect)):
            problems.append('%s checks %s, which is not to be checked' % (found[a], a))
        for a, ts in sorted(found.items()):
            if len(ts) > 1:
                problems.append('%s is checked by %d tests' % (a, len(ts)))
        for fixed in ('test_no_exception', 'test_exit_code'):
            if fixed not in rb['tests']:
                problems.append('%s is missing' % fixed)
        for nm in rb['dup']:
            problems.append('%s is defined twice: the second definition replaces the first, so one of the two checks never runs' % nm)
        got = set(rb['tests'])
        run.ob(rid, key + ':tests', not problems, 'scenario %s: %s' % (sc['name'], '; '.join(problems) or 'tests %s' % sorted(got)), fn=ws)
        # exit status and exception tests
        ec = rb['tests'].get('test_exit_code')
        okc = ec is not None and ast.unparse(ec.body[0]).replace(' ', '') == 'self.assertEqual(self.exit_code,%d)' % sc['exit_code'] and len(ec.body) == 1
        ne = rb['tests'].get('test_no_exception')
        oke = ne is not None and len(ne.body) == 1 and ast.unparse(ne.body[0]).replace(' ', '') == 'self.assertIsNone(self.exception)'
        run.ob(rid, key + ':status', okc and oke, 'scenario %s: exit status test %s; exception test %s' % (
            sc['name'], ast.unparse(ec.body[0]) if ec is not None else 'missing', ast.unparse(ne.body[0]) if ne is not None else 'missing'), fn=ws)
        for actual, (label, meth, ref, excname, enc) in sorted(expect.items()):
            if len(found.get(actual, ())) != 1:
                continue
            tname = found[actual][0]
            fn = rb['tests'][tname]
            probs = []
            try:
                m, args, kws, lists = _test_parts(fn)
                if m != meth:
                    probs.append('asserts with %s, expected %s' % (m, meth))
                if len(args) != 2:
                    probs.append('%d positional arguments' % len(args))
                else:
                    a = ast.unparse(args[0]) if actual.startswith('self.') else _denote(args[0], env)
                    if a != actual:
                        probs.append('actual argument %s denotes %r, expected %r' % (ast.unparse(args[0]), a, actual))
                    r = _denote(args[1], env)
                    if r != ref:
                        probs.append('reference argument %s denotes %r, expected %r' % (ast.unparse(args[1]), r, ref))
                pats, rems, subs = sc['exclusions'].get(excname, ([], [], []))
                given = {}
                for kw, var in (('ignore_patterns', 'patterns'), ('remove_lines', 'removals'), ('ignore_substrings', 'substrings')):
                    v = kws.get(kw)
                    if v is None:
                        given[kw] = []
                        continue
                    v = lists.get(v.id) if isinstance(v, ast.Name) else v
                    given[kw] = [('<TMP>' if ast.unparse(x) == 'self.orig_tmpdir' else ast.literal_eval(x)) for x in v.elts]
                if meth != 'self.assertBinaryFileCorrect':
                    if given['ignore_patterns'] != list(pats):
                        probs.append('ignore_patterns %r, the generator derived %r' % (given['ignore_patterns'], list(pats)))
                    if given['remove_lines'] != list(rems):
                        probs.append('remove_lines %r, the generator derived %r' % (given['remove_lines'], list(rems)))
                    if sorted(set(given['ignore_substrings'])) != sorted({('<TMP>' if s == TMP else s) for s in subs}):
                        probs.append('ignore_substrings %r, the generator derived %r' % (given['ignore_substrings'], list(subs)))
                extra = set(kws) - {'ignore_patterns', 'remove_lines', 'ignore_substrings', 'encoding'}
                if extra:
                    probs.append('extra keyword arguments %s' % sorted(extra))
                e_got = ast.literal_eval(kws['encoding']) if 'encoding' in kws else None
                if e_got != enc:
                    probs.append('encoding %r, detected %r' % (e_got, enc))
            except (ValueError, SyntaxError, AttributeError) as e:
                probs.append(str(e))
            run.ob(rid, key + ':' + label, not probs, 'scenario %s, %s: %s' % (sc['name'], tname, '; '.join(probs) or 'one %s of %s against %s' % (
                meth.split('.')[-1], actual, ref)), fn=td)
    run.floor(rid, n, len(SCENARIOS))


def encodings_emitted(p):
    """[(reference file, encoding the generator detected, encoding= the generated test passes)] in the scenario with files"""
    sc = [x for x in SCENARIOS if x['name'] == 'files'][0]
    text, err, refdir = generate(p, sc)
    if text is None:
        raise AnalysisError('write_script %s' % err)
    rb = read_back(text)
    env = {'cwd': CWD, 'tmpdir': TMP}
    out = []
    want = {path: enc for path, kind, enc in sc['files'] if kind == 'text'}
    for tname, fn in rb['tests'].items():
        if tname in ('test_no_exception', 'test_exit_code'):
            continue
        m, args, kws, lists = _test_parts(fn)
        try:
            a = _denote(args[0], env)
        except ValueError:
            continue
        if a in want:
            out.append((a, want[a], ast.literal_eval(kws['encoding']) if 'encoding' in kws else None))
    return out
