"""C03-EXTRACT / C13-EXTRACT / C14-EXTRACT - rexpy's extract() evaluated end to end (by sa.pyeval, never executed) on a corpus of
example sets, and what it returns checked with Python's own `re`:

  C03  every example is matched in full by at least one returned expression (after the stripping the caller asked for);
  C13  every returned expression compiles, is anchored at both ends, matches at least one example, and asking for capture
       groups changes nothing in which examples each expression matches;
  C14  the result depends only on the multiset of examples and the seed: the same examples in another order, or as a
       {string: count} dictionary, give the same list; the global random generator is left as it was found.

The library modules the evaluated code may use are the real re / random / string / array / collections (they are the
engine and the trusted base, not the code under analysis)."""
import array as _array
import collections
import random
import re
import string

from ..model import AnalysisError
from ..pyeval import Interp, Obj, Unsupported, Raised, pure_sys

RX = 'tdda.rexpy.rexpy.'

CORPUS = [
    ('codes', ['abc-123', 'de-4', 'zz-99']),
    ('uk-postcodes', ['EH1 1AA', 'G12 8QQ', 'SW1A 2AA', 'M1 1AE', 'B33 8TH']),
    ('dates', ['2020-01-02', '1999-12-31', '2021-7-4']),
    ('mixed-shapes', ['alpha', '12345', 'a-1', 'b-22', 'hello world', 'x']),
    ('phones', ['(0131) 496 0000', '(020) 7946 0991', '0141 496 0999']),
    ('empty-and-blank', ['', 'a', ' ', 'ab']),
    ('punctuation', ['a.b', 'c.d', 'e*f', 'g+h', 'i?j', '[k]', '(l)', 'm|n', 'o\\p', 'q^r', 's$t', '{u}']),
    ('ends-in-dollar', ['US$', 'CA$', 'NZ$']),
    ('unicode-letters', ['café', 'naïve', 'Zoë', 'über']),
    ('unicode-digits-and-letters', ['a²', 'b³']),
    ('underscores', ['a_b', 'cc_dd', '_x', 'y_']),
    ('padded', ['  left', 'right  ', '  both  ', 'none']),
    ('one-value', ['only']),
    ('repeats', ['aa', 'aa', 'aa', 'bb']),
    ('long-runs', ['a' * 12, 'b' * 7 + '1', 'c' * 30]),
    ('emails', ['ann@example.com', 'bob.b@example.co.uk', 'c_d@x.org']),
    ('hex', ['0x1f', '0xABCD', '0x0']),
    ('tabs-newlines', ['a\tb', 'c\td', 'e\nf']),
    # patterns of different lengths sharing a constant: aligned from the right / from the left
    ('right-aligned-constant', ['ab-12', 'cd-34', '-56', '-78']),
    ('right-aligned-suffix', ['x.py', 'yy.py', '.py']),
    ('left-aligned-constant', ['Dr.', 'Dr. Jones', 'Dr. Smith']),
    ('left-aligned-prefix', ['ID:', 'ID:7', 'ID:42']),
    ('short-and-long', ['a-', 'b-1']),
    # one character sequence shared by all examples, repeat counts differing, an extra letter inside it
    ('shared-sequence-with-extra-letter', ['ab-c', 'abb-c', 'abbb-c']),
    ('shared-sequence-with-dot', ['x.y', 'xx.y', 'x.yy']),
    ('words-around-punctuation', ['ab/cde', 'fg/hij']),
    ('backslash-before-a-letter', ['C:\\data', 'C:\\docs']),
]

OPTIONS = [
    ('plain', {}),
    ('tag', {'tag': True}),
    ('strip', {'strip': True}),
    ('extra-letters', {'extra_letters': '_-.'}),
    ('extra-hyphen', {'extra_letters': '-'}),
    ('portable', {'dialect': 'portable'}),
    ('grep', {'dialect': 'grep'}),
]


def _interp(p):
    I = Interp(p, consts={'VERBOSITY': 0})
    I.max_steps = 30000000
    I.safe_modules = {'re', 'random', 'collections', 'string', 'array'}
    I.extra_names.update({'array': _array.array, 'random': random, 'sys': pure_sys(), 'string': string})
    return I


def extract(p, examples, **kw):
    """rexpy.extract(examples, **kw) evaluated -> list of expressions (or raises AnalysisError / returns the error text)"""
    f = p.fn(RX + 'extract')
    try:
        return _interp(p).call(f, [examples], dict(kw)), None
    except Raised as e:
        return None, 'raises %s' % e
    except Unsupported as e:
        raise AnalysisError('rexpy.extract is not evaluable: %s' % e)


def _ungroup(rex):
    """the expression with its capture groups' parentheses removed (escaped parentheses and classes left alone)"""
    out = []
    i = 0
    in_class = False
    first_in_class = False
    while i < len(rex):
        ch = rex[i]
        if ch == '\\' and i + 1 < len(rex):
            out.append(rex[i:i + 2])
            i += 2
            continue
        if in_class:
            out.append(ch)
            if ch == ']' and not first_in_class:
                in_class = False
            first_in_class = False
        elif ch == '[':
            in_class = True
            out.append(ch)
            first_in_class = True
            if rex[i + 1:i + 2] == '^':
                out.append('^')
                i += 1
        elif ch in '()':
            pass
        else:
            out.append(ch)
        i += 1
    return ''.join(out)


def _anchored(rex):
    if not rex.startswith('^') or not rex.endswith('$'):
        return False
    # the final $ must not be an escaped literal
    n = 0
    i = len(rex) - 2
    while i >= 0 and rex[i] == '\\':
        n += 1
        i -= 1
    return n % 2 == 0


def corpus_for(run):
    if run.tier == 'thorough':
        return [(n, ex, on, o) for n, ex in CORPUS for on, o in OPTIONS]
    quick_opts = {'codes': ('plain', 'tag'), 'uk-postcodes': ('plain',), 'mixed-shapes': ('plain',), 'punctuation': ('plain', 'tag'),
                  'ends-in-dollar': ('plain',), 'unicode-letters': ('plain', 'portable', 'grep'), 'padded': ('plain', 'strip'),
                  'empty-and-blank': ('plain',), 'underscores': ('extra-letters',), 'repeats': ('plain',), 'tabs-newlines': ('plain',),
                  'right-aligned-constant': ('plain',), 'right-aligned-suffix': ('plain',), 'left-aligned-constant': ('plain',),
                  'left-aligned-prefix': ('plain',), 'short-and-long': ('plain',),
                  'shared-sequence-with-extra-letter': ('plain', 'extra-letters'), 'shared-sequence-with-dot': ('plain',),
                  'words-around-punctuation': ('plain', 'extra-letters', 'extra-hyphen'), 'backslash-before-a-letter': ('plain', 'portable', 'grep')}
    return [(n, ex, on, o) for n, ex in CORPUS for on, o in OPTIONS if on in quick_opts.get(n, ())]


def run_rule(run, p, pid):
    rid = pid + '-EXTRACT'
    cases = corpus_for(run)
    texts = {
        'C03': 'extract(), evaluated end to end on %d (example set, options) cases - codes, post codes, dates, mixed shapes, every regex '
               'metacharacter, unicode letters and digits, padding, empty strings, repeats, long runs - returns expressions of which at '
               'least one matches each example in full (Python re as the judge)',
        'C13': 'every expression extract() returns on %d (example set, options) cases compiles, is anchored at both ends (the final $ not '
               'an escaped literal), matches at least one example, and with tag=True the expressions match exactly the examples the untagged ones match',
        'C14': 'extract(), evaluated on %d (example set, options) cases, returns the same list for the examples reversed, rotated and given '
               'as a {string: count} dictionary, with and without a seed, and leaves the global random generator as it found it',
    }
    if pid == 'C14':
        # sampling in force: a small Size, so that the sample / retry loop runs; the seed fixes the sample
        layouts = ['ab-%d' % i for i in (1, 22, 333)] + ['x%s' % ('y' * k) for k in (1, 2, 3)] + ['%d.%d' % (i, i * 7) for i in (1, 20, 300)] + \
                  ['Q_%s' % c for c in 'abc'] + ['(%d)' % i for i in (5, 66)] + ['k=%s' % c for c in ('v', 'ww')]
        cases = cases + [('sixteen-layouts', layouts, 'sampled', {'#small-size': True})]
    if pid in ('C13', 'C14'):
        # fragments of variable length: the merge of a shorter and a longer value must not depend on which came first
        cases = cases + [('optional-tail', ['ab12', 'cd'], 'variable-length', {'variableLengthFrags': True}),
                         ('optional-last-letter-longer-first', ['data', 'dat'], 'variable-length', {'variableLengthFrags': True}),
                         ('optional-last-letter', ['beta', 'bet', 'be'], 'variable-length', {'variableLengthFrags': True}),
                         ('optional-letter-inside-longer-first', ['https://a.com', 'http://b.com', 'http://c.com'], 'variable-length', {'variableLengthFrags': True})]
    if pid == 'C03':
        # sampling with the smallest sizes: whatever is left unmatched after the sampled attempts is all taken in at the end
        cases = cases + [('five-layouts', ['ab-1', 'xyy', '3.21', 'Q_a', '(5)'], 'tiny-size', {'#small-size': (1, 1), 'seed': 3}),
                         ('five-layouts', ['ab-1', 'xyy', '3.21', 'Q_a', '(5)'], 'tiny-size-other-seed', {'#small-size': (1, 1), 'seed': 8}),
                         ('five-layouts', ['ab-1', 'xyy', '3.21', 'Q_a', '(5)'], 'zero-exceptions-size', {'#small-size': (2, 0), 'seed': 1}),
                         ('five-layouts', ['ab-1', 'xyy', '3.21', 'Q_a', '(5)'], 'no-initial-sample', {'#small-size': (0, 2), 'seed': 5}),
                         ('optional-tail', ['ab12', 'cd'], 'variable-length', {'variableLengthFrags': True}),
                         ('optional-tail-letters', ['abcc', 'ab', 'zz'], 'variable-length', {'variableLengthFrags': True}),
                         ('optional-last-letter-longer-first', ['data', 'dat'], 'variable-length', {'variableLengthFrags': True}),
                         ('optional-letter-inside-longer-first', ['https://a.com', 'http://b.com'], 'variable-length', {'variableLengthFrags': True})]
    run.rule(rid, texts[pid] % len(cases))
    f = p.fn(RX + 'extract')
    n = 0
    for name, examples, oname, opts in cases:
        key = '%s[%s]' % (name, oname)
        if opts.get('#small-size'):
            da, dae = opts['#small-size'] if isinstance(opts['#small-size'], tuple) else (4, 3)
            try:
                I0 = _interp(p)
                size = I0.apply(('#sym', p.mod('tdda.rexpy.rexpy').syms['Size']), [], {'do_all': da, 'do_all_exceptions': dae})
            except (Unsupported, Raised, KeyError) as e:
                raise AnalysisError('rexpy.Size is not evaluable: %s' % e)
            opts = dict(opts, size=size)
        res, err = extract(p, list(examples), **{k: v for k, v in opts.items() if not k.startswith('#')})
        n += 1
        if res is None:
            run.ob(rid, key, False, '%s, %s: extract %s' % (name, oname, err), fn=f)
            continue
        res = list(res)
        flags = re.UNICODE | re.DOTALL
        probs = []
        if pid == 'C03':
            subjects = [e.strip() for e in examples] if opts.get('strip') else list(examples)
            try:
                comp = [re.compile(r, flags) for r in res]
                for s in subjects:
                    if not any(c.fullmatch(s) or (c.match(s) and c.match(s).end() == len(s)) for c in comp):
                        probs.append('%r is matched by none of %s' % (s, res))
                        break
            except re.error as e:
                probs.append('an expression does not compile: %s' % e)
        elif pid == 'C13':
            subjects = [e.strip() for e in examples] if opts.get('strip') else list(examples)
            if len(set(res)) != len(res):
                probs.append('an expression is returned twice: %s' % res)
            if len(res) > len(set(subjects)):
                probs.append('%d expressions for %d distinct examples' % (len(res), len(set(subjects))))
            if oname == 'plain':
                # the same examples as a {string: count} dictionary with strings that occur zero times: those are not examples
                zres, zerr = extract(p, dict(collections.Counter(examples), **{'zz-absent-99': 0, 'Q!': 0}))
                if zres is None or sorted(zres) != sorted(res):
                    probs.append('with zero-count dictionary entries %s, without %s' % (zres if zres is not None else zerr, res))
            for r in res:
                try:
                    c = re.compile(r, flags)
                except re.error as e:
                    probs.append('%r does not compile: %s' % (r, e))
                    continue
                if not _anchored(r):
                    probs.append('%r is not anchored at both ends' % r)
                if not any(c.match(s) for s in subjects):
                    probs.append('%r matches none of the examples' % r)
            if opts.get('tag'):
                # the property: the tagged expressions match exactly the same examples as the untagged ones (the text may differ
                # in more than parentheses - x{2} for xx - as long as what is matched does not)
                plain, err2 = extract(p, list(examples), **{k: v for k, v in opts.items() if k != 'tag'})
                # judged on the examples and on near misses of them (a character dropped or doubled, the empty string): an expression
                # that only differs in grouping agrees with its twin on every string
                probes = list(subjects) + ['']
                for s0 in subjects[:8]:
                    for i in range(min(len(s0), 12)):
                        probes.append(s0[:i] + s0[i + 1:])
                        probes.append(s0[:i] + s0[i] + s0[i:])
                probes = list(dict.fromkeys(probes))

                def matched(rs):
                    out = []
                    for r in rs:
                        try:
                            c = re.compile(r, flags)
                        except re.error:
                            out.append(('does not compile', r))
                            continue
                        out.append(frozenset(s for s in probes if c.fullmatch(s) or (c.match(s) and c.match(s).end() == len(s))))
                    return sorted(out, key=lambda x: sorted(x) if isinstance(x, frozenset) else [repr(x)])
                if plain is None or len(plain) != len(res) or matched(res) != matched(list(plain)):
                    probs.append('with capture groups %s, without %s: not the same strings matched (examples and near misses of them)' % (res, plain))
        else:
            opts = {k: v for k, v in opts.items() if not k.startswith('#')}
            variants = [('reversed', list(reversed(examples))), ('rotated', examples[1:] + examples[:1]),
                        ('as a dictionary', dict(collections.Counter(examples))),
                        # a string supplied zero times is not an example
                        ('as a dictionary with zero-count entries', dict(collections.Counter(examples), **{'n/a': 0, 'unknown!': 0}))]
            for seed in ((7, 11) if 'size' in opts else (None, 7)):          # sampling without a seed is random by design
                kw = dict(opts)
                if seed is not None:
                    kw['seed'] = seed
                st = random.getstate()
                base, e0 = extract(p, list(examples), **kw)
                if random.getstate() != st:
                    probs.append('the global random generator is not restored (seed=%r)' % seed)
                    random.setstate(st)
                for vname, ex in variants:
                    got, e1 = extract(p, ex, **kw)
                    if got is None or base is None or list(got) != list(base):
                        probs.append('seed=%r: %s gives %s, the original order %s' % (seed, vname, got if got is not None else e1,
                                                                                    base if base is not None else e0))
                        break
        run.ob(rid, key, not probs, '%s, %s: %s' % (name, oname, '; '.join(probs[:2]) or '%d expression(s) %s' % (len(res), res[:3])), fn=f)
    run.floor(rid, n, 12)


def hook_rule(run, p, pid):
    """the hooks through which constraint discovery asks rexpy for a column's expressions: whatever they hand to rexpy, every value
    of the column - the empty string included - must be matched by one of the expressions that come back, because verification
    matches every non-null value"""
    from ..pyeval import Obj
    rid = pid + '-REXHOOK'
    sets = [('codes-and-an-empty-string', ['ab-1', '', 'cd-22', 'ef-333']), ('blank-and-empty', ['', ' ', 'x']), ('plain', ['aa', 'bb', 'cc']),
            ('one-empty-string', [''])]
    run.rule(rid, 'the calculators\' find_rexes(colname, values=...), evaluated on %d value lists (with empty and blank strings): every value '
                  'handed in is matched in full by one of the expressions returned, so the rex constraint discovered for a column holds for '
                  'that column' % len(sets))
    n = 0
    for cname in ('PandasConstraintCalculator', 'DatabaseConstraintCalculator'):
        try:
            c = p.cls(cname)
        except AnalysisError:
            continue
        f = p.lookup_method(c.qn, 'find_rexes')
        if f is None:
            raise AnalysisError('%s.find_rexes vanished' % cname)
        for name, values in sets:
            I = _interp(p)
            o = Obj(c)
            o.attrs.update(df=None, tablename='t')
            try:
                res = I.call(f, ['col'], {'values': list(values)}, selfobj=o)
                err = None
            except Raised as e:
                res, err = None, 'raises %s' % e
            except Unsupported as e:
                raise AnalysisError('%s.find_rexes is not evaluable: %s' % (cname, e))
            n += 1
            bad = None
            if res is None:
                bad = err or 'returns None'
            else:
                comp = [re.compile(r, re.UNICODE | re.DOTALL) for r in res]
                for v in values:
                    if not any(c_.fullmatch(v) or (c_.match(v) and c_.match(v).end() == len(v)) for c_ in comp):
                        bad = '%r is matched by none of %s' % (v, list(res))
                        break
            run.ob(rid, '%s::%s::%s' % (f.rel, f.short, name), bad is None,
                   '%s on %s: %s' % (f.short, name, bad or '%d expression(s) match every value' % len(res)), fn=f)
    run.floor(rid, n, 4)


def size_rule(run, p, rid='C14-SIZE'):
    """rexpy.Size evaluated: every parameter keeps the value it is given, falsy values included"""
    run.rule(rid, 'the sampling parameters are what the caller says: rexpy.Size, evaluated, stores every parameter it is given - also '
                  'False and 0 (use_sampling=False is how sampling is switched off; with sampling on, results depend on the sample '
                  'drawn and so on the order of the examples) - derives do_all from use_sampling only when do_all is not given, and '
                  'refuses unknown names')
    sym = p.mod('tdda.rexpy.rexpy').syms['Size']
    f = p.cls('Size').methods['__init__']
    consts = {}
    for nm in ('USE_SAMPLING', 'DO_ALL_SIZE'):
        try:
            consts[nm] = p.const('tdda.rexpy.rexpy', nm)
        except AnalysisError:
            raise AnalysisError('rexpy.%s not found' % nm)
    params = ('use_sampling', 'do_all', 'do_all_exceptions', 'n_per_length', 'max_sampled_attempts', 'max_punc_in_group', 'max_strings_in_group')
    n = 0

    def make(**kw):
        I = _interp(p)
        try:
            return I.apply(('#sym', sym), [], kw), None
        except Raised as e:
            return None, 'raises %s' % e
        except Unsupported as e:
            raise AnalysisError('rexpy.Size is not evaluable: %s' % e)
    for prm in params:
        for v in ((False, True) if prm == 'use_sampling' else (0, 1, 7)):
            o, err = make(**{prm: v})
            got = o.attrs.get(prm) if o is not None else err
            n += 1
            run.ob(rid, 'Size(%s=%r)' % (prm, v), o is not None and got == v and type(got) is type(v),
                   'Size(%s=%r).%s is %r' % (prm, v, prm, got), fn=f)
    for us, want in ((False, consts['DO_ALL_SIZE']), (True, 100)):
        o, err = make(use_sampling=us)
        got = o.attrs.get('do_all') if o is not None else err
        n += 1
        run.ob(rid, 'Size(use_sampling=%r).do_all' % us, o is not None and (got == want if not us else got is not None and got < consts['DO_ALL_SIZE']),
               'Size(use_sampling=%r).do_all is %r (%s)' % (us, got, 'every example is used: DO_ALL_SIZE = %r' % want if not us else 'a sample size below DO_ALL_SIZE'), fn=f)
    o, err = make(no_such_parameter=3)
    n += 1
    run.ob(rid, 'Size(unknown)', o is None, 'an unknown parameter %s' % ('is refused' if o is None else 'is accepted silently'), fn=f)
    run.floor(rid, n, 20)
