"""C05 - DataFrame comparison passes exactly when the checked structure and values agree."""
import ast

from .. import ief, triage, mirror
from ..flow import GuardMap
from ..model import AnalysisError, norm
from .c04 import prop
from .common import mirror_rule, dep_closure, names_in, nocache_rule, forward_rule

ROOTS = ['ReferenceTest.assertDataFramesEqual', 'ReferenceTest.assertDataFrameCorrect',
         'ReferenceTest.assertOnDiskDataFrameCorrect', 'PandasComparison.check_dataframe']
DF_ASSERTS = ['assertDataFramesEqual', 'assertOnDiskDataFrameCorrect', 'assertOnDiskDataFramesCorrect']
REPORTERS = ('different_column_structure', 'missing_columns_detected', 'extra_columns_found', 'field_types_differ',
             'different_column_orders', 'different_numbers_of_rows')


def check(run):
    p = run.prog
    roots = [p.fn(r) for r in ROOTS]
    run.attempt(ief.run_ief, run, 'C05', roots, triage=triage.IEF)
    run.floor('C05-IEF', run.units.get('ief_functions_checked', 0), 40)
    pc = p.cls('PandasComparison')
    fns = [pc.methods[n] for n in ('check_dataframe', 'same_structure_ddiff', 'write_temporaries', 'check_serialized_dataframe') if n in pc.methods]
    if len(fns) < 4:
        raise AnalysisError('PandasComparison lost its comparison methods')
    n = mirror_rule(run, 'C05-SYM', fns, mirror.DF_REF,
                    'the actual frame and the reference frame are treated identically (categorical replacement, rounding, index reset, sort, '
                    'condition, loading): near-mirror statement pairs must be exact mirrors under df<->ref_df')
    run.floor('C05-SYM', n, 50)
    cd = pc.methods['check_dataframe']
    run.attempt(rfail, run, p, cd)
    run.attempt(catfirst, run, p, cd)
    run.attempt(prop, run, p, 'C05', DF_ASSERTS)
    run.attempt(state, run, p, pc)
    run.attempt(ordersrc, run, p, cd)
    nocache_rule(run, 'C05-NOCACHE', p, ['tdda.referencetest.checkpandas', 'tdda.referencetest.basecomparison'],
                 'frames handed to a comparison are never memoised: no caching decorator and no class-level container used as a cache in the '
                 'comparison modules (check_dataframe sorts its inputs in place, so a shared cached frame would change under later checks)')
    rt = p.cls('ReferenceTest')
    pairs = [(pc.methods['check_serialized_dataframes'], 'check_serialized_dataframe'),
             (pc.methods['check_serialized_dataframe'], 'check_dataframe'),
             (rt.methods['assertDataFrameCorrect'], 'assertDataFramesEqual'),
             (rt.methods['assertDataFramesEqual'], 'check_dataframe'),
             (rt.methods['assertOnDiskDataFrameCorrect'], 'check_serialized_dataframe'),
             (rt.methods['assertOnDiskDataFramesCorrect'], 'check_serialized_dataframes'),
             (rt.methods['assertCSVFileCorrect'], 'assertOnDiskDataFrameCorrect'),
             (rt.methods['assertCSVFilesCorrect'], 'assertOnDiskDataFramesCorrect')]
    n = forward_rule(run, 'C05-FORWARD', p, pairs,
                     'each entry point that delegates to a sibling comparison forwards every option both of them declare by name '
                     '(precision, sortby, condition, check_* ...): an option accepted but not passed on is silently ignored')
    run.floor('C05-FORWARD', n, 6)


def catfirst(run, p, cd):
    run.rule('C05-CATFIRST', 'categorical columns are turned into plain strings before anything orders the rows: in check_dataframe '
                             'each frame is passed through replace_cats, unconditionally, before its first sort_values (a categorical '
                             'sorts by category order, which can differ between two frames holding the same values)')
    conv = {}
    for s in cd.node.body:
        if isinstance(s, ast.Assign) and len(s.targets) == 1 and isinstance(s.targets[0], ast.Name) and isinstance(s.value, ast.Call) \
                and getattr(s.value.func, 'id', '') == 'replace_cats' and s.value.args and norm(s.value.args[0]) == s.targets[0].id:
            conv.setdefault(s.targets[0].id, s.lineno)
    n = 0
    for x in p.own_nodes(cd):
        if isinstance(x, ast.Call) and isinstance(x.func, ast.Attribute) and x.func.attr in ('sort_values', 'sort_index') and \
                isinstance(x.func.value, ast.Name):
            n += 1
            nm = x.func.value.id
            ok = nm in conv and conv[nm] < x.lineno
            run.ob('C05-CATFIRST', '%s::%s::%s.%s' % (cd.rel, cd.short, nm, x.func.attr), ok,
                   '%s is sorted at line %d; %s' % (nm, x.lineno, 'replace_cats(%s) at line %d comes first' % (nm, conv[nm]) if ok else
                                                   'no unconditional %s = replace_cats(%s) precedes it' % (nm, nm)), fn=cd, node=x)
    run.floor('C05-CATFIRST', n, 2)


def rfail(run, p, cd):
    run.rule('C05-RFAIL', 'whatever check_dataframe reports as a difference also fails the check: every report call is control-dependent only '
                          'on values that flow into the returned failures count')
    rets = [r for r in ast.walk(cd.node) if isinstance(r, ast.Return) and r.value is not None]
    if len(rets) != 1:
        raise AnalysisError('check_dataframe has %d returns' % len(rets))
    fl = None
    v = rets[0].value
    if isinstance(v, ast.Call):
        for k in v.keywords:
            if k.arg == 'failures':
                fl = k.value
        if fl is None and v.args:
            fl = v.args[0]
    if fl is None:
        raise AnalysisError('check_dataframe: returned failures expression not found')
    R = dep_closure(cd.node, names_in(fl), control=True)
    gm = GuardMap(cd.node)
    n = 0
    for x in p.own_nodes(cd):
        if isinstance(x, ast.Call) and isinstance(x.func, ast.Attribute) and x.func.attr in REPORTERS:
            n += 1
            ch = gm.chain(x) or ()
            used = set()
            for g in ch:
                if g.kind == 'if':
                    used |= {y for y in names_in(g.test) if not y.startswith('self')}
            miss = sorted(used - R)
            run.ob('C05-RFAIL', '%s::%s::%s' % (cd.rel, cd.short, x.func.attr), not miss,
                   '%s is reported under %s%s' % (x.func.attr, sorted(used), '' if not miss else '; %s does not flow into the returned failure count' % miss),
                   fn=cd, node=x)
    # the failure expression itself
    # two-row table: 0 failures exactly when the flag that every reported difference clears is still set
    from ..pyeval import Interp, Unsupported
    e = fl
    seen = 0
    while isinstance(e, ast.Name) and seen < 4:
        defs = [s for s in ast.walk(cd.node) if isinstance(s, ast.Assign) and any(isinstance(t, ast.Name) and t.id == e.id for t in s.targets)]
        if len(defs) != 1:
            break
        e = defs[0].value
        seen += 1
    flags = sorted(n0 for n0 in names_in(e) if n0 in R and '.' not in n0)
    I = Interp(p)
    ok = False
    if len(flags) == 1:
        try:
            ok = I.expr(e, {flags[0]: True}, cd.mod) == 0 and bool(I.expr(e, {flags[0]: False}, cd.mod))
        except Unsupported as ex:
            raise AnalysisError('check_dataframe: returned failure count %s not evaluable: %s' % (norm(e), ex))
    run.ob('C05-RFAIL', '%s::%s::return' % (cd.rel, cd.short), ok,
           'returns failures=%s: 0 when %s is true, non-zero when it is false' % (norm(e), flags[0] if flags else '?'), fn=cd, node=rets[0], nontrivial=False)
    run.floor('C05-RFAIL', n, 6)


def state(run, p, pc):
    run.rule('C05-STATE', 'an option of one comparison cannot leak into the next: an instance attribute that a comparison entry point sets from '
                          'its parameters is never read on the right-hand side of that same assignment, and has no class-level default that '
                          'the entry point falls back to')
    n = 0
    for name in ('check_dataframe', 'check_serialized_dataframe', 'check_serialized_dataframes'):
        f = pc.methods.get(name)
        if f is None:
            continue
        for s in p.own_nodes(f):
            if isinstance(s, ast.Assign):
                flat = []
                for t in s.targets:
                    flat += list(t.elts) if isinstance(t, (ast.Tuple, ast.List)) else [t]
                for t in flat:
                    if isinstance(t, ast.Attribute) and isinstance(t.value, ast.Name) and t.value.id == 'self':
                        n += 1
                        rhs = names_in(s.value)
                        ok = ('self.' + t.attr) not in rhs and not any(
                            isinstance(c, ast.Call) and getattr(c.func, 'id', '') == 'getattr' and len(c.args) >= 2 and norm(c.args[0]) == 'self'
                            and isinstance(c.args[1], ast.Constant) and c.args[1].value == t.attr for c in ast.walk(s.value))
                        run.ob('C05-STATE', '%s::%s::self.%s' % (f.rel, f.short, t.attr), ok,
                               '`%s` %s' % (norm(s)[:60], 'depends only on this call' if ok else 'reads the value left by a previous call'), fn=f, node=s)
    run.floor('C05-STATE', n, 3)


def ordersrc(run, p, cd):
    run.rule('C05-ORDER', 'the column-order check compares the order of the actual frame\'s own columns with the order of the reference '
                          'frame\'s own columns: the two column sequences that are compared each iterate a different one of the two '
                          'frames (in check_dataframe or the helper it hands the structure comparison to)')

    def frame_of(e):
        """the frame a column sequence iterates: df, list(df), df.columns, df.columns.tolist() ..."""
        while True:
            if isinstance(e, ast.Call) and isinstance(e.func, ast.Name) and e.func.id in ('list', 'tuple', 'iter') and e.args:
                e = e.args[0]
            elif isinstance(e, ast.Call) and isinstance(e.func, ast.Attribute) and e.func.attr in ('tolist', 'to_list', 'keys'):
                e = e.func.value
            elif isinstance(e, ast.Attribute) and e.attr == 'columns':
                e = e.value
            else:
                break
        return e.id if isinstance(e, ast.Name) else None
    fns = [cd] + [g for _c, ts, _k in p.calls(cd) for g, _ctx in ts if g.cls is cd.cls and g is not cd]
    found = []
    for f in fns:
        comps = {}
        for s_ in ast.walk(f.node):
            if isinstance(s_, ast.Assign) and len(s_.targets) == 1 and isinstance(s_.targets[0], ast.Name) and \
                    isinstance(s_.value, (ast.ListComp, ast.GeneratorExp)):
                comps[s_.targets[0].id] = s_.value
        for c in ast.walk(f.node):
            if not (isinstance(c, ast.Compare) and len(c.ops) == 1 and isinstance(c.ops[0], (ast.NotEq, ast.Eq))):
                continue
            sides = []
            for operand in (c.left, c.comparators[0]):
                v = comps.get(operand.id) if isinstance(operand, ast.Name) else operand
                if isinstance(v, (ast.ListComp, ast.GeneratorExp)) and len(v.generators) == 1:
                    sides.append(frame_of(v.generators[0].iter))
            if len(sides) == 2 and all(sides) and all(x in f.params for x in sides):
                # the frames of this function: parameters it subscripts by column or asks for .columns / .dtypes
                frames = {x.value.id for x in ast.walk(f.node) if isinstance(x, ast.Subscript) and isinstance(x.value, ast.Name)
                          and isinstance(x.ctx, ast.Load)}
                frames |= {x.value.id for x in ast.walk(f.node) if isinstance(x, ast.Attribute) and x.attr in ('columns', 'dtypes')
                           and isinstance(x.value, ast.Name)}
                found.append((f, c, sides, frames & set(f.params)))
    if not found:
        raise AnalysisError('check_dataframe: the comparison of the two column orders was not found')
    for f, c, sides, frames in found:
        ok = sides[0] != sides[1] and all(x in frames for x in sides)
        run.ob('C05-ORDER', '%s::%s::order-comparison' % (f.rel, f.short), ok,
               '`%s` compares the column order of %s with that of %s%s' % (norm(c), sides[0], sides[1], '' if ok else
                                                                         ' - not the two frames\' own orders (frames here: %s)' % sorted(frames)), fn=f, node=c)
    run.floor('C05-ORDER', len(found), 1)
