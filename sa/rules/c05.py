"""C05 - DataFrame comparison passes exactly when the checked structure and values agree."""
import ast

from .. import ief, triage, mirror
from ..flow import GuardMap
from ..model import AnalysisError, norm
from .c04 import prop
from .common import mirror_rule, dep_closure, names_in, nocache_rule, forward_rule

ROOTS = ['ReferenceTest.assertDataFramesEqual', 'ReferenceTest.assertDataFrameCorrect',
         'ReferenceTest.assertOnDiskDataFrameCorrect', 'PandasComparison.check_dataframe']
DF_ASSERTS = ['assertDataFramesEqual', 'assertOnDiskDataFrameCorrect', 'assertOnDiskDataFramesCorrect']
REPORTERS = ('different_column_structure', 'missing_columns_detected', 'extra_columns_found', 'field_types_differ',
             'different_column_orders', 'different_numbers_of_rows')


def check(run):
    p = run.prog
    roots = [p.fn(r) for r in ROOTS]
    run.attempt(ief.run_ief, run, 'C05', roots, triage=triage.IEF)
    run.floor('C05-IEF', run.units.get('ief_functions_checked', 0), 40)
    pc = p.cls('PandasComparison')
    fns = [pc.methods[n] for n in ('check_dataframe', 'same_structure_ddiff', 'write_temporaries', 'check_serialized_dataframe') if n in pc.methods]
    if len(fns) < 4:
        raise AnalysisError('PandasComparison lost its comparison methods')
    n = mirror_rule(run, 'C05-SYM', fns, mirror.DF_REF,
                    'the actual frame and the reference frame are treated identically (categorical replacement, rounding, index reset, sort, '
                    'condition, loading): near-mirror statement pairs must be exact mirrors under df<->ref_df')
    run.floor('C05-SYM', n, 50)
    cd = pc.methods['check_dataframe']
    run.attempt(rfail, run, p, cd)
    run.attempt(catfirst, run, p, cd)
    run.attempt(prop, run, p, 'C05', DF_ASSERTS)
    run.attempt(state, run, p, pc)
    run.attempt(ordersrc, run, p, cd)
    run.attempt(typelevels, run, p)
    run.attempt(rowsafter, run, p, cd)
    run.attempt(poslookup, run, p)
    from .c10 import kindflag
    run.attempt(kindflag, run, p, 'C05-KINDFLAG')
    run.rules['C05-KINDFLAG'] += ' (a DataFrame assertion that takes the regeneration arm returns without comparing)'
    nocache_rule(run, 'C05-NOCACHE', p, ['tdda.referencetest.checkpandas', 'tdda.referencetest.basecomparison'],
                 'frames handed to a comparison are never memoised: no caching decorator and no class-level container used as a cache in the '
                 'comparison modules (check_dataframe sorts its inputs in place, so a shared cached frame would change under later checks)')
    rt = p.cls('ReferenceTest')
    pairs = [(pc.methods['check_serialized_dataframes'], 'check_serialized_dataframe'),
             (pc.methods['check_serialized_dataframe'], 'check_dataframe'),
             (rt.methods['assertDataFrameCorrect'], 'assertDataFramesEqual'),
             (rt.methods['assertDataFramesEqual'], 'check_dataframe'),
             (rt.methods['assertOnDiskDataFrameCorrect'], 'check_serialized_dataframe'),
             (rt.methods['assertOnDiskDataFramesCorrect'], 'check_serialized_dataframes'),
             (rt.methods['assertCSVFileCorrect'], 'assertOnDiskDataFrameCorrect'),
             (rt.methods['assertCSVFilesCorrect'], 'assertOnDiskDataFramesCorrect')]
    n = forward_rule(run, 'C05-FORWARD', p, pairs,
                     'each entry point that delegates to a sibling comparison forwards every option both of them declare by name '
                     '(precision, sortby, condition, check_* ...): an option accepted but not passed on is silently ignored')
    run.floor('C05-FORWARD', n, 6)


def catfirst(run, p, cd):
    run.rule('C05-CATFIRST', 'categorical columns are turned into plain strings before anything orders the rows: in check_dataframe '
                             'each frame is passed through replace_cats, unconditionally, before its first sort_values (a categorical '
                             'sorts by category order, which can differ between two frames holding the same values)')
    conv = {}
    for s in cd.node.body:
        if isinstance(s, ast.Assign) and len(s.targets) == 1 and isinstance(s.targets[0], ast.Name) and isinstance(s.value, ast.Call) \
                and getattr(s.value.func, 'id', '') == 'replace_cats' and s.value.args and norm(s.value.args[0]) == s.targets[0].id:
            conv.setdefault(s.targets[0].id, s.lineno)
    n = 0
    for x in p.own_nodes(cd):
        if isinstance(x, ast.Call) and isinstance(x.func, ast.Attribute) and x.func.attr in ('sort_values', 'sort_index') and \
                isinstance(x.func.value, ast.Name):
            n += 1
            nm = x.func.value.id
            ok = nm in conv and conv[nm] < x.lineno
            run.ob('C05-CATFIRST', '%s::%s::%s.%s' % (cd.rel, cd.short, nm, x.func.attr), ok,
                   '%s is sorted at line %d; %s' % (nm, x.lineno, 'replace_cats(%s) at line %d comes first' % (nm, conv[nm]) if ok else
                                                   'no unconditional %s = replace_cats(%s) precedes it' % (nm, nm)), fn=cd, node=x)
    run.floor('C05-CATFIRST', n, 2)


def rfail(run, p, cd):
    run.rule('C05-RFAIL', 'whatever check_dataframe reports as a difference also fails the check: on every path through the function '
                          '(branching on each test, the flags it sets followed exactly) on which a difference reporter has run, the '
                          'failure count returned is non-zero; and a path that reports nothing and keeps its flag returns zero')
    helpers = {}
    for _c, ts, _k in p.calls(cd):
        for g, _ctx in ts:
            if g.cls is cd.cls and g is not cd:
                reps = sorted({x.func.attr for x in p.own_nodes(g) if isinstance(x, ast.Call) and isinstance(x.func, ast.Attribute) and x.func.attr in REPORTERS})
                if reps:
                    helpers[g.name] = reps

    def reporters_in(node):
        out = []
        for x in ast.walk(node):
            if isinstance(x, ast.Call) and isinstance(x.func, ast.Attribute):
                if x.func.attr in REPORTERS:
                    out.append(x.func.attr)
                elif x.func.attr in helpers and norm(x.func.value) == 'self':
                    out += helpers[x.func.attr]
        return out

    def truth(e, env):
        if isinstance(e, ast.Constant):
            return bool(e.value)
        if isinstance(e, ast.Name):
            return env.get(e.id)
        if isinstance(e, ast.UnaryOp) and isinstance(e.op, ast.Not):
            v = truth(e.operand, env)
            return None if v is None else not v
        if isinstance(e, ast.BoolOp):
            vs = [truth(v, env) for v in e.values]
            if isinstance(e.op, ast.And):
                return False if any(v is False for v in vs) else (True if all(v is True for v in vs) else None)
            return True if any(v is True for v in vs) else (False if all(v is False for v in vs) else None)
        return None

    def refine(e, val, env):
        env = dict(env)
        if isinstance(e, ast.Name):
            env[e.id] = val
        elif isinstance(e, ast.UnaryOp) and isinstance(e.op, ast.Not):
            return refine(e.operand, not val, env)
        elif isinstance(e, ast.BoolOp) and isinstance(e.op, ast.And) and val:
            for v in e.values:
                env = refine(v, True, env)
        elif isinstance(e, ast.BoolOp) and isinstance(e.op, ast.Or) and not val:
            for v in e.values:
                env = refine(v, False, env)
        return env

    def count_of(e, env):
        """the failure count an expression denotes: 0, 'nonzero' or None (not known)"""
        if isinstance(e, ast.Constant) and isinstance(e.value, int):
            return 0 if e.value == 0 else 'nonzero'
        if isinstance(e, ast.IfExp):
            t = truth(e.test, env)
            if t is None:
                a, b_ = count_of(e.body, env), count_of(e.orelse, env)
                return a if a == b_ else None
            return count_of(e.body if t else e.orelse, env)
        if isinstance(e, ast.Name) and ('#count:' + e.id) in env:
            return env['#count:' + e.id]
        return None
    exits = []
    budget = [200000]

    def run_block(stmts, states):
        for st in stmts:
            nxt = []
            for env, rep in states:
                budget[0] -= 1
                if budget[0] < 0:
                    raise AnalysisError('check_dataframe has too many paths to enumerate')
                if isinstance(st, ast.Return):
                    v = st.value
                    fl = None
                    if isinstance(v, ast.Call):
                        fl = next((k.value for k in v.keywords if k.arg == 'failures'), v.args[0] if v.args else None)
                    elif isinstance(v, ast.Tuple) and v.elts:
                        fl = v.elts[0]
                    exits.append((st, rep, count_of(fl, env) if fl is not None else None, dict(env)))
                    continue
                if isinstance(st, ast.If):
                    rep2 = rep + reporters_in(st.test)
                    t = truth(st.test, env)
                    outs = []
                    if t is not False:
                        outs += run_block(st.body, [(refine(st.test, True, env), rep2)])
                    if t is not True:
                        outs += run_block(st.orelse, [(refine(st.test, False, env), rep2)])
                    nxt += outs
                    continue
                if isinstance(st, (ast.For, ast.While)):
                    nxt.append((env, rep))
                    nxt += run_block(st.body, [(dict(env), list(rep))])
                    continue
                if isinstance(st, ast.Try):
                    nxt += run_block(st.body + st.orelse + st.finalbody, [(env, rep)])
                    for h in st.handlers:
                        nxt += run_block(h.body + st.finalbody, [(dict(env), list(rep))])
                    continue
                if isinstance(st, ast.With):
                    nxt += run_block(st.body, [(env, rep)])
                    continue
                env = dict(env)
                rep = rep + reporters_in(st)
                if isinstance(st, ast.Assign):
                    # the right-hand side is evaluated with the names as they are before the assignment (same = same and ...)
                    tv = truth(st.value, env) if isinstance(st.value, (ast.Constant, ast.Name, ast.UnaryOp, ast.BoolOp)) else None
                    c_ = count_of(st.value, env)
                    for t_ in st.targets:
                        names = [t_] if isinstance(t_, ast.Name) else ([x for x in t_.elts if isinstance(x, ast.Name)] if isinstance(t_, (ast.Tuple, ast.List)) else [])
                        for nm in names:
                            env.pop(nm.id, None)
                            env.pop('#count:' + nm.id, None)
                            if isinstance(t_, ast.Name):
                                if isinstance(st.value, ast.Constant) and isinstance(st.value.value, bool) or tv is not None:
                                    env[nm.id] = tv
                                if c_ is not None:
                                    env['#count:' + nm.id] = c_
                    if tv is None and isinstance(st.value, ast.BoolOp) and len(st.targets) == 1 and isinstance(st.targets[0], ast.Name):
                        # a flag made from a conjunction whose value is not known is either true or false afterwards: both are followed
                        for val in (True, False):
                            e2 = dict(env)
                            e2[st.targets[0].id] = val
                            nxt.append((e2, rep))
                        continue
                nxt.append((env, rep))
            # merge identical states to keep the enumeration small
            seen = {}
            for env, rep in nxt:
                seen[(tuple(sorted((k, str(v)) for k, v in env.items())), tuple(sorted(set(rep))))] = (env, sorted(set(rep)))
            states = list(seen.values())
        return states
    run_block(cd.node.body, [({}, [])])
    if not exits:
        raise AnalysisError('check_dataframe has no return')
    n = 0
    reported = sorted({r for _st, rep, _c, _e in exits for r in rep})
    for r in reported:
        n += 1
        bad = [(st, c_) for st, rep, c_, _e in exits if r in rep and c_ != 'nonzero']
        run.ob('C05-RFAIL', '%s::%s::%s' % (cd.rel, cd.short, r), not bad,
               '%s is reported on %d paths; %s' % (r, sum(1 for _s, rep, _c, _e in exits if r in rep),
                                                  'every one of them returns a non-zero failure count' if not bad else
                                                  'on one of them the count returned at line %d %s' % (bad[0][0].lineno, 'is 0' if bad[0][1] == 0 else 'is not known to be non-zero')),
               fn=cd, node=bad[0][0] if bad else None)
    quiet = [c_ for _st, rep, c_, _e in exits if not rep]
    run.ob('C05-RFAIL', '%s::%s::return' % (cd.rel, cd.short), any(c_ == 0 for c_ in quiet) or not quiet,
           '%d paths report nothing; a zero failure count is reachable among them: %s' % (len(quiet), any(c_ == 0 for c_ in quiet)), fn=cd, nontrivial=False)
    run.floor('C05-RFAIL', n, 5)


def poslookup(run, p):
    run.rule('C05-POSLOOKUP', 'a value is fetched from a filtered column by position only when positions are what its labels are: in the '
                              'DataFrame comparison module, N[<integer literal>] on a name bound to rows selected from a frame or column '
                              '(dropna(), F[mask]) is a *label* lookup in pandas; the selection keeps the original labels, so the '
                              'binding must renumber them (reset_index) or leave pandas (.values / .tolist() / list()), or the lookup '
                              'must be .iloc - otherwise the first surviving row is not at label 0 (KeyError, or another row\'s value)')
    m = p.mod('tdda.referencetest.checkpandas')
    n = 0
    for f in p.funcs.values():
        if f.mod is not m:
            continue
        nodes = list(p.own_nodes(f))
        binds = {}
        for x in nodes:
            if isinstance(x, ast.Assign) and len(x.targets) == 1 and isinstance(x.targets[0], ast.Name):
                binds.setdefault(x.targets[0].id, []).append(x.value)
        for x in nodes:
            if isinstance(x, ast.Subscript) and isinstance(x.value, ast.Attribute) and x.value.attr in ('iloc', 'iat') and isinstance(x.value.value, ast.Name) \
                    and x.value.value.id in binds and isinstance(x.slice, ast.Constant):
                n += 1
                run.ob('C05-POSLOOKUP', '%s::%s::%s' % (f.rel, f.short, norm(x)), True, '%s is a lookup by position' % norm(x), fn=f, node=x)
                continue
            if not (isinstance(x, ast.Subscript) and isinstance(x.value, ast.Name) and isinstance(x.slice, ast.Constant)
                    and isinstance(x.slice.value, int) and not isinstance(x.slice.value, bool) and isinstance(x.ctx, ast.Load)):
                continue
            for e in binds.get(x.value.id, ()):
                filtered = any((isinstance(y, ast.Call) and isinstance(y.func, ast.Attribute) and y.func.attr == 'dropna') or
                               (isinstance(y, ast.Subscript) and any(isinstance(z, ast.Compare) or (isinstance(z, ast.Call) and isinstance(z.func, ast.Attribute)
                                                                                                     and z.func.attr in ('notnull', 'isnull', 'notna', 'isna', 'isin'))
                                                                     for z in ast.walk(y.slice)))
                               for y in ast.walk(e))
                if not filtered:
                    continue
                n += 1
                renumbered = any((isinstance(y, ast.Attribute) and y.attr in ('reset_index', 'values', 'tolist', 'to_numpy', 'to_list', 'iloc', 'array')) or
                                 (isinstance(y, ast.Call) and getattr(y.func, 'id', '') in ('list', 'tuple'))
                                 for y in ast.walk(e))
                run.ob('C05-POSLOOKUP', '%s::%s::%s' % (f.rel, f.short, norm(x)), renumbered,
                       '%s with %s = %s: %s' % (norm(x), x.value.id, norm(e)[:60], 'the selection is renumbered before the lookup' if renumbered else
                                                'the selection keeps the labels of the rows that survive, so label %d need not be among them' % x.slice.value), fn=f, node=x)
    run.floor('C05-POSLOOKUP', n, 1)


def state(run, p, pc):
    run.rule('C05-STATE', 'an option of one comparison cannot leak into the next: an instance attribute that a comparison entry point sets from '
                          'its parameters is never read on the right-hand side of that same assignment, and has no class-level default that '
                          'the entry point falls back to')
    n = 0
    for name in ('check_dataframe', 'check_serialized_dataframe', 'check_serialized_dataframes'):
        f = pc.methods.get(name)
        if f is None:
            continue
        for s in p.own_nodes(f):
            if isinstance(s, ast.Assign):
                flat = []
                for t in s.targets:
                    flat += list(t.elts) if isinstance(t, (ast.Tuple, ast.List)) else [t]
                for t in flat:
                    if isinstance(t, ast.Attribute) and isinstance(t.value, ast.Name) and t.value.id == 'self':
                        n += 1
                        rhs = names_in(s.value)
                        ok = ('self.' + t.attr) not in rhs and not any(
                            isinstance(c, ast.Call) and getattr(c.func, 'id', '') == 'getattr' and len(c.args) >= 2 and norm(c.args[0]) == 'self'
                            and isinstance(c.args[1], ast.Constant) and c.args[1].value == t.attr for c in ast.walk(s.value))
                        run.ob('C05-STATE', '%s::%s::self.%s' % (f.rel, f.short, t.attr), ok,
                               '`%s` %s' % (norm(s)[:60], 'depends only on this call' if ok else 'reads the value left by a previous call'), fn=f, node=s)
    run.floor('C05-STATE', n, 3)


def typelevels(run, p):
    from ..pyeval import Interp, Model, Unsupported, Raised
    run.rule('C05-TYPELEVEL', 'a changed column type fails at the requested level: types_match, evaluated on pairs of dtype names, is '
                              'name equality at the default and strict levels (time zone, unit, storage and width included), relaxes only '
                              'width and what an object column may hold at medium, numeric-versus-numeric at permissive, and at no level equates '
                              'a number with a date or declared text, or a date with text, a period or a time difference')
    f = p.fn('tdda.referencetest.checkpandas.types_match')

    class DT(Model):
        def __init__(self, name):
            self.name = name

        def __str__(self):
            return self.name
    names = ['int64', 'int32', 'Int64', 'int64[pyarrow]', 'uint8', 'float64', 'float32', 'Float64', 'bool', 'boolean', 'object', 'string', 'str',
             'category', 'datetime64[ns]', 'datetime64[us]', 'datetime64[ns, UTC]', 'datetime64[ns, Europe/Paris]', 'timedelta64[ns]', 'period[D]',
             'period[M]']

    def kind(nm):
        b = nm.lower()
        if b.startswith(('int', 'uint')):
            return 'int'
        if b.startswith('float'):
            return 'float'
        if b.startswith('bool'):
            return 'bool'
        if b.startswith('datetime'):
            return 'datetime'
        if b in ('object', 'string', 'str'):
            return 'text'
        return b.split('[')[0]
    bad = []
    n = 0
    for level in (None, 'strict', 'medium', 'permissive'):
        for a in names:
            for b in names:
                try:
                    got = Interp(p).call(f, [DT(a), DT(b)], {'level': level} if level else {})
                except (Unsupported, Raised) as e:
                    raise AnalysisError('types_match is not evaluable: %s' % e)
                n += 1
                if a == b:
                    want = True
                elif level in (None, 'strict'):
                    want = False
                else:
                    ka, kb = kind(a), kind(b)
                    # what no relaxed level equates: a number with a date or with declared text, a date with declared text or a
                    # period / time difference (object is the one dtype that may hold any of these, by design; category is left open)
                    groups = {'int': 'number', 'float': 'number', 'bool': 'number', 'datetime': 'date', 'timedelta': 'span', 'period': 'period'}
                    ga = groups.get(ka, 'text' if a in ('string', 'str') else None)
                    gb = groups.get(kb, 'text' if b in ('string', 'str') else None)
                    want = False if (ga and gb and ga != gb) else None
                if want is not None and bool(got) != want:
                    bad.append((level, a, b, got))
    run.ob('C05-TYPELEVEL', '%s::%s' % (f.rel, f.short), not bad,
           'types_match over %d (level, dtype, dtype) triples%s' % (n, '' if not bad else '; at level %r %s and %s %s' % (
               bad[0][0], bad[0][1], bad[0][2], 'match' if bad[0][3] else 'do not match')), fn=f)
    run.floor('C05-TYPELEVEL', n, 1500)


def rowsafter(run, p, cd):
    run.rule('C05-ROWSAFTER', 'the numbers of rows are compared after the condition filter and the sort: in check_dataframe the statement that '
                              'takes the lengths used for the row-count report comes after every rebinding of the two frames')
    fns = [cd] + [g for _c, ts, _k in p.calls(cd) for g, _ctx in ts if g.cls is cd.cls and g is not cd]
    n = 0
    for f in fns:
        rep = [x for x in p.own_nodes(f) if isinstance(x, ast.Call) and isinstance(x.func, ast.Attribute) and x.func.attr == 'different_numbers_of_rows']
        if not rep:
            continue
        frames = [q for q in f.posparams if q in ('df', 'ref_df', 'actual_df', 'expected_df', 'ref')][:2] or list(f.posparams[1:3])
        lens = [x for x in p.own_nodes(f) if isinstance(x, ast.Call) and getattr(x.func, 'id', '') == 'len' and x.args
                and isinstance(x.args[0], ast.Name) and x.args[0].id in frames]
        rebinds = [s_ for s_ in p.own_nodes(f) if isinstance(s_, ast.Assign) and any(isinstance(t, ast.Name) and t.id in frames for t in s_.targets)]
        rebinds += [x for x in p.own_nodes(f) if isinstance(x, ast.Call) and isinstance(x.func, ast.Attribute) and x.func.attr in ('sort_values', 'sort_index')
                    and isinstance(x.func.value, ast.Name) and x.func.value.id in frames]
        if not lens:
            raise AnalysisError('%s: the lengths compared for the row-count report were not found' % f.short)
        n += 1
        first_len = min(x.lineno for x in lens)
        late = [s_ for s_ in rebinds if s_.lineno > first_len]
        run.ob('C05-ROWSAFTER', '%s::%s' % (f.rel, f.short), not late,
               'row counts are taken at line %d%s' % (first_len, ', after every filter and sort' if not late else
                                                      '; the frames are still filtered or sorted afterwards (line %d: %s)' % (late[0].lineno, norm(late[0])[:50])),
               fn=f, node=late[0] if late else None)
    if n == 0:
        raise AnalysisError('check_dataframe: the row-count report was not found')
    run.floor('C05-ROWSAFTER', n, 1)


def ordersrc(run, p, cd):
    run.rule('C05-ORDER', 'the column-order check compares the order of the actual frame\'s own columns with the order of the reference '
                          'frame\'s own columns: the two column sequences that are compared each iterate a different one of the two '
                          'frames (in check_dataframe or the helper it hands the structure comparison to)')

    def frame_of(e):
        """the frame a column sequence iterates: df, list(df), df.columns, df.columns.tolist() ..."""
        while True:
            if isinstance(e, ast.Call) and isinstance(e.func, ast.Name) and e.func.id in ('list', 'tuple', 'iter') and e.args:
                e = e.args[0]
            elif isinstance(e, ast.Call) and isinstance(e.func, ast.Attribute) and e.func.attr in ('tolist', 'to_list', 'keys'):
                e = e.func.value
            elif isinstance(e, ast.Attribute) and e.attr == 'columns':
                e = e.value
            else:
                break
        return e.id if isinstance(e, ast.Name) else None
    fns = [cd] + [g for _c, ts, _k in p.calls(cd) for g, _ctx in ts if g.cls is cd.cls and g is not cd]
    found = []
    for f in fns:
        comps = {}
        for s_ in ast.walk(f.node):
            if isinstance(s_, ast.Assign) and len(s_.targets) == 1 and isinstance(s_.targets[0], ast.Name) and \
                    isinstance(s_.value, (ast.ListComp, ast.GeneratorExp)):
                comps[s_.targets[0].id] = s_.value
        for c in ast.walk(f.node):
            if not (isinstance(c, ast.Compare) and len(c.ops) == 1 and isinstance(c.ops[0], (ast.NotEq, ast.Eq))):
                continue
            sides = []
            for operand in (c.left, c.comparators[0]):
                v = comps.get(operand.id) if isinstance(operand, ast.Name) else operand
                if isinstance(v, (ast.ListComp, ast.GeneratorExp)) and len(v.generators) == 1:
                    sides.append(frame_of(v.generators[0].iter))
            if len(sides) == 2 and all(sides) and all(x in f.params for x in sides):
                # the frames of this function: parameters it subscripts by column or asks for .columns / .dtypes
                frames = {x.value.id for x in ast.walk(f.node) if isinstance(x, ast.Subscript) and isinstance(x.value, ast.Name)
                          and isinstance(x.ctx, ast.Load)}
                frames |= {x.value.id for x in ast.walk(f.node) if isinstance(x, ast.Attribute) and x.attr in ('columns', 'dtypes')
                           and isinstance(x.value, ast.Name)}
                found.append((f, c, sides, frames & set(f.params)))
    if not found:
        raise AnalysisError('check_dataframe: the comparison of the two column orders was not found')
    for f, c, sides, frames in found:
        ok = sides[0] != sides[1] and all(x in frames for x in sides)
        run.ob('C05-ORDER', '%s::%s::order-comparison' % (f.rel, f.short), ok,
               '`%s` compares the column order of %s with that of %s%s' % (norm(c), sides[0], sides[1], '' if ok else
                                                                         ' - not the two frames\' own orders (frames here: %s)' % sorted(frames)), fn=f, node=c)
    run.floor('C05-ORDER', len(found), 1)
