"""C05 - DataFrame comparison passes exactly when the checked structure and values agree."""
from .. import ief, triage

ROOTS = ['ReferenceTest.assertDataFramesEqual', 'ReferenceTest.assertDataFrameCorrect',
         'ReferenceTest.assertOnDiskDataFrameCorrect', 'PandasComparison.check_dataframe']


def check(run):
    p = run.prog
    roots = [p.fn(r) for r in ROOTS]
    ief.run_ief(run, 'C05', roots, triage=triage.IEF)
    run.floor('C05-IEF', run.units['ief_functions_checked'], 40)
