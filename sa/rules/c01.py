"""C01 - discovered DataFrame constraints are satisfied by the data they came from."""
import ast

from .. import ief, triage, tables, fde, reglang
from ..flow import GuardMap
from ..model import AnalysisError, norm
from .c06 import kinds_and_methods, PCV
from .common import guard_requires, dep_closure, dep_closure_at, names_in

ROOTS = ['discover_df', 'verify_df', 'detect_df', 'DatasetConstraints.to_json', 'DatasetConstraints.load']

# trusted base: the grammar of datetime.__str__ / date.__str__ (Python documentation)
W_DATE = r'\d{4}-\d{2}-\d{2}'
W_NAIVE = r'\d{4}-\d{2}-\d{2} \d{2}:\d{2}:\d{2}(\.\d{6})?'
W_AWARE = r'\d{4}-\d{2}-\d{2} \d{2}:\d{2}:\d{2}(\.\d{6})?[+-]\d{2}:\d{2}(:\d{2}(\.\d{6})?)?'
ALPHABET = '0-/ T:.+x'
EQ_OK = ('>= BOUND', '<= BOUND', 'call:fuzzy_greater_than', 'call:fuzzy_less_than')


def getmap(p):
    """get_X -> (cache key, calc_Y) from the get_cached_value calls."""
    c = p.cls('BaseConstraintVerifier')
    out = {}
    for name, f in c.methods.items():
        if not name.startswith('get_'):
            continue
        for n in ast.walk(f.node):
            if isinstance(n, ast.Call) and isinstance(n.func, ast.Attribute) and n.func.attr == 'get_cached_value' \
                    and len(n.args) == 3 and isinstance(n.args[0], ast.Constant) and isinstance(n.args[2], ast.Attribute):
                out[name] = (n.args[0].value, n.args[2].attr)
    return out


def calcs(closure, gm):
    out = set()
    for x in closure:
        if x.startswith('self.calc_'):
            out.add(x[5:])
        elif x.startswith('self.get_') and x[5:] in gm:
            out.add(gm[x[5:]][1])
    return out


def ctor_calls(f, cname):
    return [n for n in ast.walk(f.node) if isinstance(n, ast.Call) and getattr(n.func, 'id', None) == cname]


def check(run):
    p = run.prog
    roots = [p.fn(r) for r in ROOTS]
    run.attempt(ief.run_ief, run, 'C01', roots, triage=triage.IEF)
    run.floor('C01-IEF', run.units.get('ief_functions_checked', 0), 150)
    km = kinds_and_methods(p)
    gm = getmap(p)
    if len(gm) < 11:
        raise AnalysisError('only %d get_* statistics found (11 on the pinned tree)' % len(gm))
    run.attempt(shared, run, p, gm)
    run.attempt(loop, run, p)
    from .common import shared_rule
    from .c02 import verdicts as _verdicts, kinds_and_methods as _km2
    shared_rule(run, _verdicts, (run, p, _km2(p)), 'C02-VERDICT', 'C01-VERDICT', ' (what discovery writes down is the statistic itself: it is satisfied only if the verifier, given the same '
                'statistic - for dates in the form the backend returns it - finds the bound met)')
    try:
        close(run, p, km, gm)
    except AnalysisError as e:
        if not all(o.ok for o in run.obs if o.rule == 'C01-LOOP'):
            raise
        run.note('C01-CLOSE', 'discovery is not in the shape the structural rule reads (%s): the closed loop C01-LOOP decides alone' % e)
    run.attempt(cache, run, p, km)
    from . import rexpy_eval
    run.attempt(rexpy_eval.hook_rule, run, p, 'C01')
    # constraints discovered once and checked twice (verify_df, then detect_df, with the same dictionary)
    from .c09 import nomutate
    run.attempt(nomutate, run, p, 'C01-NOMUTATE')
    run.attempt(datelang, run, p)
    run.attempt(rexclosure, run, p)
    from .common import observed_rule
    calc = p.cls('PandasConstraintCalculator')
    n = observed_rule(run, 'C01-OBSERVED', p, list(calc.methods.values()),
                      'discovery and verification measure the same thing, the values present: no calc_* method of the pandas '
                      'calculator reads a categorical column\'s declared levels (.cat.categories, an unfiltered value_counts()) - '
                      'a count or length taken from unused levels on one side fails the constraint discovered on the other')
    run.floor('C01-OBSERVED', n, 15)
    # the .tdda file written by discovery is what verification reads
    from .c09 import strip
    run.attempt(strip, run, p)
    run.rules['C01-STRIP'] = run.rules.pop('C09-STRIP') + ' (discovered constraints reach verification through this text)'
    for o in run.obs:
        if o.rule == 'C09-STRIP':
            o.rule = 'C01-STRIP'
    run.floors = [(('C01-STRIP' if r == 'C09-STRIP' else r), c, m) for r, c, m in run.floors]


def shared(run, p, gm):
    run.rule('C01-SHARED', 'both sides use one implementation: each cached statistic has its own cache key and is computed by the calc_ '
                           'function of the same name; discovery and verification classify column types through the same function; '
                           'rex constraints are verified under the regex flags rexpy inferred them with')
    keys = {}
    for g, (k, c) in sorted(gm.items()):
        keys.setdefault(k, []).append(g)
        run.ob('C01-SHARED', 'cache:%s' % g, c == 'calc_' + g[4:], '%s caches %s under key %r' % (g, c, k),
               fn=p.method('BaseConstraintVerifier', g), nontrivial=False)
    for k, gs in sorted(keys.items()):
        if len(gs) > 1:
            run.ob('C01-SHARED', 'cache-key:%s' % k, False, 'cache key %r is shared by %s: one statistic would be served as another' % (k, gs),
                   fn=p.method('BaseConstraintVerifier', gs[0]))
    run.ob('C01-SHARED', 'cache-keys-distinct', all(len(v) == 1 for v in keys.values()), '%d statistics, %d distinct cache keys' % (len(gm), len(keys)),
           fn=p.method('BaseConstraintVerifier', 'get_cached_value'))
    # type classifier
    pc = p.cls('PandasConstraintCalculator')
    ct = pc.methods.get('calc_tdda_type')
    if ct is None:
        raise AnalysisError('PandasConstraintCalculator.calc_tdda_type vanished')
    called = {getattr(n.func, 'id', None) for n in ast.walk(ct.node) if isinstance(n, ast.Call)}
    disc = p.method('BaseConstraintDiscoverer', 'discover_field_constraints')
    dcalls = {n.func.attr for n in ast.walk(disc.node) if isinstance(n, ast.Call) and isinstance(n.func, ast.Attribute)}
    run.ob('C01-SHARED', 'type-classifier', 'pandas_tdda_type' in called and 'calc_tdda_type' in dcalls and gm.get('get_tdda_type', (0, 0))[1] == 'calc_tdda_type',
           'discovery calls calc_tdda_type, verification get_tdda_type -> calc_tdda_type -> pandas_tdda_type', fn=ct)
    # regex flags
    try:
        a = p.const('tdda.constraints.pd.constraints', 'RE_FLAGS')
        b = p.const('tdda.rexpy.rexpy', 'RE_FLAGS')
    except AnalysisError as e:
        raise AnalysisError('RE_FLAGS constants: %s' % e)
    run.ob('C01-SHARED', 'rex-flags-value', a == b, 'constraints RE_FLAGS=%d, rexpy RE_FLAGS=%d' % (a, b),
           rel='tdda/constraints/pd/constraints.py', line=p.mod('tdda.constraints.pd.constraints').consts['RE_FLAGS'].lineno)
    crc = pc.methods.get('calc_rex_constraint')
    comp = [n for n in ast.walk(crc.node) if isinstance(n, ast.Call) and norm(n.func) == 're.compile']
    ok = bool(comp) and all(len(n.args) >= 2 and norm(n.args[1]) == 'RE_FLAGS' for n in comp)
    run.ob('C01-SHARED', 'rex-flags-used', ok, 'calc_rex_constraint compiles with %s' % [norm(n) for n in comp], fn=crc)
    run.floor('C01-SHARED', len(gm) + 4, 15)


def loop(run, p):
    """discover -> verify, closed at the level of the base classes: both evaluated with the same stand-in statistics"""
    import datetime as dt
    from ..pyeval import Interp, Obj, Unsupported, Raised
    from .c07 import discovery_cases
    run.rule('C01-LOOP', 'what discovery emits, verification accepts: for every column summary of the grid (type, records, nulls, distinct '
                         'values, minimum and maximum in every ordering around zero, dates, string sets) the constraints returned by '
                         'discover_field_constraints are each handed to the verifier of their kind, evaluated with the same stand-in '
                         'statistics - every one must come back satisfied; a constraint built from another statistic than the one its '
                         'verifier reads, or a comparator that fails at equality, shows up as a failed verdict')
    vc = p.cls('BaseConstraintVerifier')
    n = 0
    bad = []
    for summary, stubs, fc, err in discovery_cases(p):
        if fc is None or not isinstance(fc, Obj):
            continue
        cons = fc.attrs.get('constraints')
        cons = cons if isinstance(cons, dict) else (cons.items if isinstance(cons, Obj) else {})
        I = Interp(p, consts={'unicode_string': str, 'byte_string': bytes, 'long_type': int})
        I.safe_modules = {'datetime'}
        I.extra_names['datetime'] = dt

        def hook(mth, args, kwargs, selfobj, stubs=stubs):
            if mth.name in ('calc_min_length', 'calc_max_length'):
                # the verifier's backend measures the same strings, in characters
                chars = [len(x.decode('UTF-8')) if isinstance(x, bytes) else len(x) for x in stubs['calc_unique_values']]
                return True, (None if not chars else (min(chars) if mth.name == 'calc_min_length' else max(chars)))
            if mth.name in stubs:
                return True, stubs[mth.name]
            if mth.name == 'is_null':
                return True, args[0] is None
            if mth.name == 'column_exists':
                return True, True
            if mth.name == 'types_compatible':
                a, b = args[0], args[1]
                num = (bool, int, float)
                return True, (isinstance(a, num) and isinstance(b, num)) or type(a) is type(b)
            if mth.name == 'to_datetime':
                return True, args[0]
            if mth.name in ('calc_rex_constraint', 'allowed_values_exclusions'):
                return True, None
            if mth.name == 'calc_non_integer_values_count':
                return True, 0
            if mth.name == 'calc_all_non_nulls_boolean':
                return True, False
            return False, None
        I.on_call = hook
        v = Obj(vc)
        try:
            I.call(vc.methods['__init__'], [], selfobj=v)
            table = I.call(vc.methods['verifiers'], [], selfobj=v)
        except (Unsupported, Raised) as e:
            raise AnalysisError('BaseConstraintVerifier is not evaluable: %s' % e)
        for kind, c in cons.items():
            n += 1
            if kind not in table:
                bad.append((summary, kind, c.attrs.get('value'), 'no verifier'))
                continue
            try:
                verdict = I.apply(table[kind], ['f', c], {})
            except Raised as e:
                verdict = 'raises: %s' % e
            except Unsupported as e:
                raise AnalysisError('verifier for %s is not evaluable: %s' % (kind, e))
            if verdict is not True and not (verdict and not isinstance(verdict, str)):
                bad.append((summary, kind, c.attrs.get('value'), verdict))
    f = p.method('BaseConstraintDiscoverer', 'discover_field_constraints')
    kinds = sorted({b[1] for b in bad})
    for kind in kinds or ['all']:
        rows = [b for b in bad if b[1] == kind]
        run.ob('C01-LOOP', 'discover->verify:%s' % kind, not rows,
               '%d discovered constraints verified against the statistics they were discovered from%s' % (n, '' if not rows else
               '; the %s constraint %r discovered for %s is not satisfied (verdict %r)' % (
                   kind, rows[0][2], {k: v for k, v in rows[0][0].items() if k in ('type', 'records', 'nulls', 'min', 'max', 'distinct')}, rows[0][3])),
               fn=f)
    run.floor('C01-LOOP', n, 900)


def close(run, p, km, gm):
    run.rule('C01-CLOSE', 'for each kind discovery can emit, the emitted value comes from the statistic the verifier reads and the '
                          'verifier\'s comparator for the emitted (default) arm holds at equality; the sign class chosen for each of the six '
                          'orderings of (min, max, 0) satisfies the sign verifier\'s row for that class')
    disc = p.method('BaseConstraintDiscoverer', 'discover_field_constraints')
    dn = disc.node

    def emitted(cname):
        cs = ctor_calls(disc, cname)
        if not cs:
            raise AnalysisError('discovery no longer constructs %s' % cname)
        return cs

    # min / max
    for kind, cname in (('min', 'MinConstraint'), ('max', 'MaxConstraint')):
        for c in emitted(cname):
            ver = km[kind][0]
            no_prec = len(c.args) == 1 and not c.keywords
            dclo = calcs(dep_closure_at(dn, c.args[0]), gm)
            t = {lab: (comp, s) for lab, marks, comp, s in tables.table(ver.node, tables.pick_result())}
            dflt = t.get(('else',))
            vclo = set()
            if dflt and isinstance(dflt[1].value, ast.Call):
                vclo = calcs(dep_closure(ver.node, names_in(dflt[1].value.args[0])), gm)
            ok = no_prec and dflt is not None and dflt[0] in EQ_OK and dclo == vclo == {'calc_' + kind}
            run.ob('C01-CLOSE', 'kind:%s' % kind, ok,
                   '%s: discovered from %s with default precision; verifier default arm `%s` on %s' % (kind, sorted(dclo), dflt[0] if dflt else None, sorted(vclo)),
                   fn=disc, node=c)
    # lengths
    for kind, cname, agg in (('min_length', 'MinLengthConstraint', 'min'), ('max_length', 'MaxLengthConstraint', 'max')):
        for c in emitted(cname):
            ver = km[kind][0]
            from .common import closure_aggregates, running_extremes
            clo = closure_aggregates(dn, dep_closure_at(dn, c.args[0]))
            rx = running_extremes(dn)
            direct = {rx[n0] for n0 in names_in(c.args[0]) if n0 in rx}
            if direct:
                clo = (clo - {'min', 'max'}) | direct
            t = tables.table(ver.node, tables.pick_result())
            vclo = calcs(dep_closure(ver.node, names_in(t[0][3].value.left)), gm) if t and isinstance(t[0][3].value, ast.Compare) else set()
            same_stat = calcs(clo, gm) == vclo and bool(vclo)
            ok = ((agg in clo and 'len' in clo and 'self.calc_unique_values' in clo) or same_stat) and len(t) == 1 and t[0][2] in EQ_OK
            run.ob('C01-CLOSE', 'kind:%s' % kind, ok,
                   '%s: discovered as %s(len(v)) over the distinct values; verifier `%s`' % (kind, agg, t[0][2] if t else None), fn=disc, node=c)
    # nulls
    for c in emitted('MaxNullsConstraint'):
        ver = km['max_nulls'][0]
        dclo = calcs(dep_closure(dn, names_in(c.args[0])), gm)
        t = tables.table(ver.node, tables.pick_result())
        vclo = calcs(dep_closure(ver.node, names_in(t[0][3].value.left)), gm) if t and isinstance(t[0][3].value, ast.Compare) else set()
        ok = dclo == vclo == {'calc_null_count'} and t[0][2] in EQ_OK
        run.ob('C01-CLOSE', 'kind:max_nulls', ok, 'max_nulls: discovered from %s; verifier `%s` on %s' % (sorted(dclo), t[0][2] if t else None, sorted(vclo)),
               fn=disc, node=c)
    # duplicates
    gmap = GuardMap(dn)
    for c in emitted('NoDuplicatesConstraint'):
        ch = gmap.chain(c) or ()
        eqs = []
        for g in ch:
            if g.kind != 'if':
                continue
            # equalities the guard needs in order to let the constructor run: `a == b` taken, `not a == b` / `a != b` not taken
            for x in ast.walk(g.test):
                if isinstance(x, ast.Compare) and len(x.ops) == 1 and isinstance(x.ops[0], (ast.Eq, ast.NotEq)):
                    if guard_requires(g.test, g.pol, lambda e, pol, x=x: e is x and (pol == isinstance(x.ops[0], ast.Eq))):
                        eqs.append(calcs(dep_closure(dn, names_in(x)), gm))
        ver = km['no_duplicates'][0]
        t = tables.table(ver.node, tables.pick_result())
        vclo = calcs(dep_closure(ver.node, names_in(t[0][3].value)), gm) if t else set()
        ok = vclo == {'calc_nunique', 'calc_non_null_count'} and any(e == vclo for e in eqs)
        run.ob('C01-CLOSE', 'kind:no_duplicates', ok,
               'no_duplicates: emitted under an equality of %s; verifier tests equality of %s' % ([sorted(e) for e in eqs], sorted(vclo)), fn=disc, node=c)
    # allowed values
    for c in emitted('AllowedValuesConstraint'):
        dclo = calcs(dep_closure(dn, names_in(c.args[0])), gm)
        ver = km['allowed_values'][0]
        vclo = set()
        for n in ast.walk(ver.node):
            if isinstance(n, ast.Assign) and any(isinstance(t, ast.Name) and t.id == 'violations' for t in n.targets):
                vclo = calcs(dep_closure(ver.node, names_in(n.value)), gm)
        ok = dclo == {'calc_unique_values'} and 'calc_unique_values' in vclo
        run.ob('C01-CLOSE', 'kind:allowed_values', ok, 'allowed_values: discovered from %s; violations computed from %s' % (sorted(dclo), sorted(vclo)), fn=disc, node=c)
    # type
    for c in emitted('TypeConstraint'):
        dclo = calcs(dep_closure(dn, names_in(c.args[0])), gm)
        ver = km['type'][0]
        vclo = set()
        for n in ast.walk(ver.node):
            if isinstance(n, ast.Assign) and any(isinstance(t, ast.Name) and t.id == 'actual_type' for t in n.targets):
                vclo = calcs(dep_closure(ver.node, names_in(n.value)), gm)
        ok = dclo == vclo == {'calc_tdda_type'}
        run.ob('C01-CLOSE', 'kind:type', ok, 'type: discovered from %s, verified against %s' % (sorted(dclo), sorted(vclo)), fn=disc, node=c)
    # rex: generated by find_rexes, verified by calc_rex_constraint through re.match under the shared flags (SHARED)
    emitted('RexConstraint')
    # sign
    sign_close(run, p, km, disc)
    run.floor('C01-CLOSE', sum(1 for o in run.obs if o.rule == 'C01-CLOSE'), 14)


def sign_chain(disc):
    """The if-chain of discovery that picks the sign class, and the names of (min, max) in it."""
    best = None
    for n in ast.walk(disc.node):
        if isinstance(n, ast.If):
            lits = {c.args[0].value for c in ast.walk(n) if isinstance(c, ast.Call) and getattr(c.func, 'id', None) == 'SignConstraint'
                    and c.args and isinstance(c.args[0], ast.Constant)}
            inner = {x.id for x in ast.walk(n.test) if isinstance(x, ast.Name)}
            if 'zero' in lits and isinstance(n.test, ast.Compare) and len(inner) == 2:
                if best is None or len(ast.unparse(n)) < len(ast.unparse(best)):
                    best = n
    if best is None:
        raise AnalysisError('discovery: sign decision chain not found')
    return best


def sign_leaf(stmts, env):
    for s in stmts:
        for c in ast.walk(s):
            if isinstance(c, ast.Call) and getattr(c.func, 'id', None) == 'SignConstraint' and c.args:
                a = c.args[0]
                if isinstance(a, ast.Constant):
                    return a.value
                if isinstance(a, ast.Name):
                    # sign = 'positive' if m > 0 else 'non-negative'
                    for t in stmts:
                        if isinstance(t, ast.Assign) and isinstance(t.targets[0], ast.Name) and t.targets[0].id == a.id \
                                and isinstance(t.value, ast.IfExp):
                            v = t.value
                            return (v.body if fde.eval_sign(v.test, env) else v.orelse).value
    return None


def sign_close(run, p, km, disc):
    chain = sign_chain(disc)
    ver = km['sign'][0]
    vt = {lab[0]: s for lab, marks, comp, s in tables.table(ver.node, tables.pick_result()) if lab != ('incompat',)}
    lo, hi = 'm', 'M'
    names = [x.id for x in ast.walk(chain.test) if isinstance(x, ast.Name)]
    if len(names) >= 2:
        lo, hi = names[0], names[1]
    STR = {(-1, -1): 'min<max<0 or min=max<0', (-1, 0): 'min<0=max', (-1, 1): 'min<0<max', (0, 0): 'min=max=0', (0, 1): '0=min<max', (1, 1): '0<min<=max'}
    for st in fde.SIGN_STATES:
        env = {lo: st[0], hi: st[1], '#order': (lo, hi)}
        try:
            cls = fde.eval_chain(chain, env, sign_leaf)
        except fde.Unsupported as e:
            raise AnalysisError('sign discovery chain not interpretable: %s' % e)
        if cls is None:
            run.ob('C01-CLOSE', 'sign:%s' % (st,), st == (-1, 1), 'ordering %s: no sign class emitted' % STR[st], fn=disc, node=chain)
            continue
        row = vt.get(cls)
        ok = False
        if row is not None:
            venv = {'m': st[0], 'M': st[1], '#order': ('m', 'M')}
            try:
                ok = fde.eval_sign(row.value, venv) is True
            except fde.Unsupported as e:
                raise AnalysisError('sign verifier row %s not interpretable: %s' % (cls, e))
        run.ob('C01-CLOSE', 'sign:%s' % (st,), ok, 'ordering %s: discovery emits %r; verifier row `%s` is %s there'
               % (STR[st], cls, norm(row.value) if row is not None else None, ok), fn=disc, node=chain)


def cache(run, p, km):
    run.rule('C01-CACHE', 'no store into the frame being verified (self.df) is reachable from any registered verifier, so a memoised '
                          'statistic cannot go stale while verdicts are still being computed')
    pcv = p.cls(PCV)
    roots = [(v, pcv.qn) for v, d in km.values()]
    seen = p.reach(roots)
    bad = []
    nf = 0
    for (qn, ctx) in seen:
        f = p.funcs[qn]
        nf += 1
        for x in p.own_nodes(f):
            if isinstance(x, ast.Assign):
                for t in x.targets:
                    if (isinstance(t, ast.Subscript) and norm(t.value) == 'self.df') or norm(t) == 'self.df':
                        bad.append((f, x))
            if isinstance(x, ast.Call) and isinstance(x.func, ast.Attribute) and norm(x.func.value) == 'self.df' and \
                    any(k.arg == 'inplace' and isinstance(k.value, ast.Constant) and k.value.value for k in x.keywords):
                bad.append((f, x))
            if isinstance(x, ast.Assign) and any(norm(t) in ('self.cache', ) for t in x.targets) and f.name != '__init__':
                bad.append((f, x))
    run.ob('C01-CACHE', 'verifier-closure', not bad, '%d functions reachable from the %d verifiers; stores into self.df / resets of the cache: %d'
           % (nf, len(km), len(bad)), fn=km['min'][0])
    for f, x in bad:
        run.ob('C01-CACHE', '%s::%s::%s' % (f.rel, f.short, norm(x)[:50]), False, 'verifier closure writes the frame or resets the cache: %s' % norm(x)[:80], fn=f, node=x)
    run.floor('C01-CACHE', nf, 25)


def date_reader(p):
    f = p.fn('tdda.constraints.base.get_date')
    base = p.mod('tdda.constraints.base')
    pairs = []
    for n in ast.walk(f.node):
        if isinstance(n, ast.For) and isinstance(n.iter, ast.Tuple):
            for el in n.iter.elts:
                if isinstance(el, ast.Tuple) and len(el.elts) == 2 and isinstance(el.elts[0], ast.Name):
                    pairs.append((el.elts[0].id, el.elts[1].value if isinstance(el.elts[1], ast.Constant) else None))
    if not pairs:
        raise AnalysisError('get_date no longer iterates over (regex, group count) pairs')
    out = []
    for name, L in pairs:
        e = base.consts.get(name)
        if not (isinstance(e, ast.Call) and norm(e.func) == 're.compile' and e.args):
            raise AnalysisError('date regex %s is not a re.compile constant' % name)
        out.append((name, p.fold(base, e.args[0]), L))
    return f, out


def date_samples():
    """writer name -> [(text the writer emits, the datetime it must be re-read as)]"""
    import datetime as dt
    micro = [0, 1, 7, 10, 29, 57, 58, 70, 113, 700, 1001, 123456, 500000, 999999]
    x = 12345
    for _ in range(150):
        x = (x * 1103515245 + 12345) % (1 << 31)
        micro.append(x % 1000000)
    days = [(1, 1, 1), (1900, 1, 1), (1999, 12, 31), (2000, 2, 29), (2024, 2, 29), (2038, 1, 19), (9999, 12, 31), (987, 6, 5)]
    out = {'date': [], 'naive datetime': [], 'timezone-aware datetime': []}
    for y, m, d in days:
        v = dt.date(y, m, d)
        out['date'].append((str(v), dt.datetime(y, m, d)))
    times = [(0, 0, 0), (23, 59, 59), (12, 30, 1), (1, 2, 3)]
    for i, us in enumerate(micro):
        y, m, d = days[i % len(days)]
        hh, mm, ss = times[i % len(times)]
        v = dt.datetime(y, m, d, hh, mm, ss, us)
        out['naive datetime'].append((str(v), v))
    for off in (0, 60, -330, 345):
        for us in (0, 123456):
            v = dt.datetime(2020, 5, 17, 10, 20, 30, us, tzinfo=dt.timezone(dt.timedelta(minutes=off)))
            out['timezone-aware datetime'].append((str(v), v))
    return out


def date_eval(p, f):
    """get_date evaluated on what str() of dates and datetimes looks like -> writer name -> [(text, got)] read back wrongly"""
    import datetime as dt
    from ..pyeval import Interp, Unsupported, Raised

    def quiet(*a, **k):
        return None
    quiet._pyeval_model = True
    bad = {}
    n = 0
    for wname, rows in date_samples().items():
        bad[wname] = []
        for text, want in rows:
            I = Interp(p)
            I.safe_modules = {'datetime', 're'}
            I.extra_names.update({'datetime': dt, 'print': quiet, 'sys': None})
            try:
                got = I.call(f, [text])
            except Raised:
                got = 'an exception'
            except Unsupported as e:
                raise AnalysisError('get_date is not evaluable: %s' % e)
            n += 1
            same = isinstance(got, dt.datetime) and (got == want if (got.tzinfo is None) == (want.tzinfo is None) else False)
            if wname == 'timezone-aware datetime' and isinstance(got, dt.datetime) and got.tzinfo is None:
                same = False
            if not same:
                bad[wname].append((text, got))
    return bad, n


def datelang(run, p):
    run.rule('C01-DATELANG', 'every string the writer can emit for a date bound (str(date), str(datetime)) is re-read by get_date as the '
                             'same moment: the writer\'s language is included in the language of the regexes get_date tries (automaton '
                             'inclusion, over all strings), and get_date, evaluated on %d strings written by str() - every calendar '
                             'edge, microseconds of every digit pattern, time zones - returns the datetime that was written, exactly'
                             % sum(len(v) for v in date_samples().values()))
    f = p.fn('tdda.constraints.base.get_date')
    try:
        _f, readers = date_reader(p)
    except AnalysisError as e:
        readers = None
        run.note('C01-DATELANG', 'reader regexes not found in the known form (%s): decided by evaluation of get_date alone' % e, fn=f)
    bad, n_eval = date_eval(p, f)
    pats = [pat for name, pat, L in readers] if readers else []
    for wname, w in (('date', W_DATE), ('naive datetime', W_NAIVE), ('timezone-aware datetime', W_AWARE)):
        cex = None
        if readers:
            try:
                cex = reglang.not_included(w, pats, ALPHABET)
            except reglang.Unsupported as e:
                raise AnalysisError('date regex not interpretable: %s' % e)
        ev = bad[wname]
        msg = 'str(%s) is always re-read as the date written' % wname
        if cex is not None:
            msg = 'str(%s) can be %r, which no reader regex (%s) accepts: the bound comes back as a string' % (
                wname, cex, ', '.join(nm for nm, _, _ in readers))
        elif ev:
            msg = 'str(%s) can be %r, which get_date reads back as %r' % (wname, ev[0][0], ev[0][1])
        run.ob('C01-DATELANG', 'tdda/constraints/base.py::get_date::writer:%s' % wname, cex is None and not ev, msg, fn=f)
    for name, pat, L in readers or ():
        g = reglang.groups(pat)
        run.ob('C01-DATELANG', 'tdda/constraints/base.py::get_date::groups:%s' % name, g == L,
               '%s has %d groups, get_date reads %s' % (name, g, L), fn=f, nontrivial=False)
    inexact = [x for x in ast.walk(f.node) if (isinstance(x, ast.Call) and getattr(x.func, 'id', None) in ('float', 'round'))
               or (isinstance(x, ast.BinOp) and isinstance(x.op, (ast.Div, ast.Mult, ast.Pow)))]
    wrong = bad['naive datetime'] + bad['date']
    run.ob('C01-DATELANG', 'tdda/constraints/base.py::get_date::exact', not inexact or not wrong,
           'date components are converted exactly (%d strings evaluated)' % n_eval if not (inexact and wrong) else
           'inexact arithmetic on a date component: %s; e.g. %r is read back as %r' % (norm(inexact[0]), wrong[0][0], wrong[0][1]), fn=f,
           node=inexact[0] if inexact else None)
    # writer: date-typed values are stringified with str()
    w = p.method('Constraint', 'to_dict_value')
    import datetime as dt
    from ..pyeval import Interp, Obj, Unsupported, Raised
    ok = True
    shown = []
    for v in (dt.date(2020, 2, 29), dt.datetime(2020, 2, 29, 1, 2, 3), dt.datetime(2020, 2, 29, 1, 2, 3, 456), 5, 'text'):
        o = Obj(p.cls('Constraint'))
        o.attrs.update(kind='min', value=v, precision=None, comment=None)
        I = Interp(p)
        I.safe_modules = {'datetime'}
        I.extra_names['datetime'] = dt
        try:
            got = I.call(w, [], {'raw': False}, selfobj=o)
        except (Unsupported, Raised) as e:
            raise AnalysisError('Constraint.to_dict_value is not evaluable: %s' % e)
        want = str(v) if isinstance(v, dt.date) else v
        if not (got == want and type(got) is type(want)):
            ok = False
            shown.append('%r is written as %r' % (v, got))
    run.ob('C01-DATELANG', 'tdda/constraints/base.py::Constraint.to_dict_value::writer', ok,
           'date values are rendered with str() (evaluated on a date, two datetimes and two plain values)%s' % ('' if ok else ': ' + '; '.join(shown[:2])),
           fn=w, nontrivial=False)
    run.floor('C01-DATELANG', n_eval, 100)


def rexclosure(run, p):
    """The rex half of closure: the default (fuzzy) comparator is exact-or-fuzzed, and rexpy's own guarantees (C03)."""
    from .c02 import fuzz_shape
    fuzz_shape(run, p, 'C01-CLOSE')
    from . import c03
    I = c03.interp(p)
    flags = p.const('tdda.rexpy.rexpy', 'RE_FLAGS')
    before = len(run.obs)
    c03.loop(run, p)
    c03.klass(run, p, I, flags)
    c03.bracket(run, p, I, flags, 'C03')
    c03.widen(run, p, I)
    c03.engine(run, p)
    c03.catsync(run, p)
    c03.evidence(run, p)
    ren = {}
    for o in run.obs[before:]:
        ren[o.rule] = o.rule.replace('C03-', 'C01-REX-')
        o.rule = ren[o.rule]
    for old, new in ren.items():
        if old in run.rules:
            run.rules[new] = run.rules.pop(old) + ' (rex constraints are discovered by rexpy and must match their own column)'
    run.floors = [((ren.get(r, r)), c, m) for r, c, m in run.floors]
