"""C01 - discovered DataFrame constraints are satisfied by the data they came from."""
from .. import ief, triage

ROOTS = ['discover_df', 'verify_df', 'detect_df', 'DatasetConstraints.to_json', 'DatasetConstraints.load']


def check(run):
    p = run.prog
    roots = [p.fn(r) for r in ROOTS]
    seen = ief.run_ief(run, 'C01', roots, triage=triage.IEF)
    run.floor('C01-IEF', run.units['ief_functions_checked'], 150)
