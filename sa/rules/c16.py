"""C16 - CSV files described by CSVW metadata load with the declared types and values."""
import ast
import itertools
import re

from ..flow import GuardMap
from ..model import AnalysisError, norm
from ..pyeval import Interp, Unsupported
from .common import names_in, dep_closure, guard_requires

# documented CSVW / UTS#35 field letters and the strptime directive each stands for
TOKENS = {'d': '%d', 'dd': '%d', 'M': '%m', 'MM': '%m', 'yy': '%y', 'yyyy': '%Y', 'HH': '%H', 'mm': '%M', 'ss': '%S',
          'S': '%f', 'SS': '%f', 'SSS': '%f'}
FAMILY = {'d': 'd', 'dd': 'd', 'M': 'M', 'MM': 'M', 'yy': 'y', 'yyyy': 'y', 'HH': 'H', 'mm': 'm', 'ss': 's', 'S': 'S', 'SS': 'S', 'SSS': 'S'}
SEPS = ['-', '/', '.', ':', ' ', 'T']
W3C_DIALECT = ['commentPrefix', 'delimiter', 'doubleQuote', 'encoding', 'header', 'headerRowCount', 'lineTerminators', 'quoteChar',
               'skipBlankRows', 'skipColumns', 'skipInitialSpace', 'skipRows', 'trim']
NUMERIC_KEYS = {'headerRowCount', 'skipRows', 'skipColumns'}
SPEC_TYPES = {'boolean': ('bool', 'boolean'), 'integer': ('int', 'Int64'), 'number': ('number', 'float'), 'string': ('string', 'string'),
              'date': ('date', None), 'datetime': ('datetime', None), 'dateTime': ('datetime', None)}


def check(run):
    p = run.prog
    run.attempt(chain, run, p)
    run.attempt(dkeys, run, p)
    run.attempt(locate, run, p)
    run.attempt(ownmeta, run, p)
    run.attempt(types, run, p)
    run.attempt(isolang, run, p)
    run.attempt(precedence, run, p)
    run.attempt(declared, run, p)
    run.attempt(titles, run, p)
    run.attempt(datefmt, run, p)
    run.attempt(tablegroup, run, p)
    from .common import gotcha_rule
    n = gotcha_rule(run, 'C16-ACCUM', p, ['tdda.serial.pandasio', 'tdda.serial.csvw', 'tdda.serial.reader', 'tdda.serial.base'],
                    'what several columns contribute to one read_csv argument is accumulated, not overwritten or dropped: no '
                    '`d.setdefault(k, [v])` used as a statement (keeps only the first column\'s value), no list extended by a '
                    'single string, no ("text") constant used with `in`')
    run.floor('C16-ACCUM', n, 4)
    from .common import nocache_rule
    nocache_rule(run, 'C16-NOCACHE', p, ['tdda.serial.reader', 'tdda.serial.csvw', 'tdda.serial.pandasio', 'tdda.serial.base'],
                 'metadata is read from the file each time it is needed: no memoising decorator and no class-level container used as a cache '
                 'in the serial modules (a rewritten metadata file must take effect)')
    from .. import ief, triage
    run.attempt(ief.run_ief, run, 'C16', [p.fn('tdda.serial.reader.csv2pandas'), p.fn('tdda.serial.pandasio.gen_pandas_kwargs')], triage=triage.IEF)
    run.floor('C16-IEF', run.units.get('ief_functions_checked', 0), 20)


def chain(run, p):
    run.rule('C16-CHAIN', 'the CSVW date-format translation maps every documented field (d dd M MM yy yyyy HH mm ss S SS SSS) to its strptime '
                          'directive, alone, in every ordered pair joined by each separator - / . : space T, and in the documented compact '
                          'forms (date letters adjacent in any order, HH mm ss S.. adjacent in that order) - evaluated by abstract '
                          'interpretation of the function on the composed formats')
    f = p.fn('tdda.serial.csvw.csvw_date_format_to_md_date_format')
    iso = p.const('tdda.serial.base', 'RE_ISO8601')
    I = Interp(p)

    def expected(parts):
        out = ''.join(TOKENS.get(x, x) for x in parts)
        return 'ISO8601' if re.match(iso, out) else out
    cases = []
    for t in TOKENS:
        cases.append([t])
    for a, b in itertools.permutations(TOKENS, 2):
        if FAMILY[a] == FAMILY[b]:
            continue
        for s in SEPS:
            cases.append([a, s, b])
    for ds in itertools.product(['d', 'dd'], ['M', 'MM'], ['yy', 'yyyy']):
        for perm in itertools.permutations(ds):
            cases.append(list(perm))
            for tm in (['HH', 'mm'], ['HH', 'mm', 'ss'], ['HH', 'mm', 'ss', 'SSS'], ['HH', ':', 'mm', ':', 'ss', '.', 'S']):
                for sep in (' ', 'T'):
                    cases.append(list(perm) + [sep] + tm)
    if run.tier == 'thorough':
        # deeper: every ordered triple of fields from three different families, joined by one separator throughout
        for a, b, c in itertools.permutations(TOKENS, 3):
            if len({FAMILY[a], FAMILY[b], FAMILY[c]}) < 3:
                continue
            for s in SEPS:
                cases.append([a, s, b, s, c])
    cases.append(['yyyy', '-', 'MM', '-', 'dd', 'T', 'HH', ':', 'mm', ':', 'ss', '.', 'SSS'])
    cases.append(['dd', '/', 'MM', '/', 'yyyy', ' ', 'HH', ':', 'mm', ':', 'ss', '.', 'SS'])
    bad = []
    n = 0
    for parts in cases:
        fmt = ''.join(parts)
        try:
            out = I.call(f, [fmt])
        except Unsupported as e:
            raise AnalysisError('csvw_date_format_to_md_date_format not interpretable: %s' % e)
        n += 1
        if out != expected(parts):
            bad.append((fmt, out, expected(parts)))
    fams = {}
    for fmt, out, exp in bad:
        fams.setdefault(tuple(sorted(set(re.findall(r'[A-Za-z]+', fmt)))), []).append((fmt, out, exp))
    run.ob('C16-CHAIN', 'csvw_date_format_to_md_date_format', not bad,
           '%d composed formats evaluated%s' % (n, '' if not bad else '; %d wrong, e.g. %r -> %r (expected %r)' % ((len(bad),) + bad[0])), fn=f,
           detail={'wrong': bad[:10]} if bad else None)
    run.floor('C16-CHAIN', n, 900)


def readargs(run, p, dtype_table):
    """to_pandas_read_csv_args evaluated on stand-in metadata: the dtype argument lists exactly the non-date fields with their
    table dtype, date fields are parsed as dates with their formats, boolean spellings of every column are all there."""
    from ..pyeval import Model
    f = p.fn('tdda.serial.pandasio.to_pandas_read_csv_args')

    class Field(Model):
        def __init__(self, name, mtype, format=None, altnames=None):
            self.name, self.mtype, self.format, self.altnames = name, mtype, format, altnames

    class MD(Model):
        def __init__(self, fields, delimiter=None, encoding=None, header_rows=1):
            self.fields, self.delimiter, self.encoding, self.header_rows = fields, delimiter, encoding, header_rows
    base = [Field('a', 'int'), Field('b', 'string'), Field('c', 'date', '%d/%m/%Y'), Field('d', 'datetime'),
            Field('e', 'bool', 'Y|N'), Field('f', 'bool', 'yes|no'), Field('g', 'number'), Field('h', 'date_tz')]
    cases = {
        'plain': MD(list(base)),
        'titles-and-no-header': MD([Field(x.name, x.mtype, x.format, [x.name]) for x in base], delimiter='|', encoding='latin-1', header_rows=0),
        'one-boolean': MD([Field('e', 'bool', 'T|F'), Field('a', 'int')]),
    }
    for cname, md in sorted(cases.items()):
        I = Interp(p)
        I.extra_names['print'] = lambda *a, **k: None
        try:
            kw = I.call(f, [md])
        except Unsupported as e:
            raise AnalysisError('to_pandas_read_csv_args is not evaluable: %s' % e)
        names = [x.name for x in md.fields]
        dates = [x.name for x in md.fields if x.mtype and x.mtype.startswith('date')]
        want_dtype = {x.name: dtype_table.get(x.mtype) for x in md.fields if x.name not in dates and dtype_table.get(x.mtype) is not None}
        bools = [x.format.split('|') for x in md.fields if x.mtype == 'bool' and x.format]
        problems = []
        if (kw.get('dtype') or {}) != want_dtype:
            problems.append('dtype=%r (expected %r)' % (kw.get('dtype'), want_dtype))
        if (kw.get('parse_dates') or []) != dates:
            problems.append('parse_dates=%r (expected %r)' % (kw.get('parse_dates'), dates))
        if dates and {k: v for k, v in (kw.get('date_format') or {}).items()} != {x.name: x.format for x in md.fields if x.name in dates}:
            problems.append('date_format=%r' % (kw.get('date_format'),))
        if sorted(kw.get('true_values') or []) != sorted({b_[0] for b_ in bools}) or sorted(kw.get('false_values') or []) != sorted({b_[1] for b_ in bools}):
            problems.append('true/false values %r / %r (expected %r)' % (kw.get('true_values'), kw.get('false_values'), bools))
        if any(x.altnames for x in md.fields) and kw.get('names') != names:
            problems.append('names=%r (expected %r)' % (kw.get('names'), names))
        if md.header_rows == 0 and kw.get('header', 'unset') is not None:
            problems.append('header=%r for a header-less file' % (kw.get('header', 'unset'),))
        if md.delimiter and kw.get('sep') != md.delimiter:
            problems.append('sep=%r' % (kw.get('sep'),))
        if md.encoding and kw.get('encoding') != md.encoding:
            problems.append('encoding=%r' % (kw.get('encoding'),))
        run.ob('C16-TYPES', 'read_csv-arguments:%s' % cname, not problems,
               'read_csv arguments for the %s metadata: %s' % (cname, 'as declared' if not problems else '; '.join(problems)), fn=f)


DIALECT_SAMPLES = {
    'commentPrefix': ['#', '//'], 'delimiter': ['|', ';', '\t'], 'doubleQuote': [True, False], 'encoding': ['latin-1', 'utf-16'],
    'header': [True, False], 'headerRowCount': [0, 1, 3], 'lineTerminators': [['\r\n'], ['\n']], 'quoteChar': ["'", None],
    'skipBlankRows': [True, False], 'skipColumns': [0, 2], 'skipInitialSpace': [True, False], 'skipRows': [0, 4],
    'trim': [True, False, 'true', 'false', 'start', 'end'],
}
# what else a key may change besides the attribute named for it (the header / headerRowCount pair of the W3C dialect)
DIALECT_COUPLED = {'header': {'headerrowcount'}, 'headerRowCount': set()}


def process_dialect_eval(p, dialect):
    """CSVWMetadata.process_dialect evaluated on a dialect description -> attributes of the object afterwards"""
    from ..pyeval import Interp, Obj, Unsupported, Raised
    c = p.cls('CSVWMetadata')
    f = p.lookup_method(c.qn, 'process_dialect')
    o = Obj(c)
    o.attrs.update(_dialect=dict(dialect), errors=[], warnings=[], _verbosity=0, name='t')
    I = Interp(p)

    def hook(m, args, kwargs, selfobj):
        if m.name in ('warn', 'error'):
            return True, None
        return False, None
    I.on_call = hook
    try:
        I.call(f, [], selfobj=o)
    except (Unsupported, Raised) as e:
        raise AnalysisError('process_dialect is not evaluable on %r: %s' % (dialect, e))
    return {k: v for k, v in o.attrs.items() if k not in ('_dialect', 'errors', 'warnings', '_verbosity', 'name')}


def locate(run, p):
    import json
    import posixpath
    from ..pyeval import Interp, Obj, Unsupported, Raised, FakeFS
    run.rule('C16-LOCATE', 'the data file named by the metadata is found however the metadata file itself is addressed: CSVWMetadata.read '
                           'followed by get_url, evaluated on an in-memory file system with the metadata given by absolute path, by a path '
                           'relative to the current directory and by its bare file name, resolves the table url against the directory of '
                           'the metadata file')
    c = p.cls('CSVWMetadata')
    rd, gu = c.methods['read'], c.methods['get_url']
    meta = json.dumps({'@context': 'http://www.w3.org/ns/csvw', 'url': 'data.csv', 'tableSchema': {'columns': []}})
    n = 0
    for cwd, spec in (('/work/here', '/data/set/meta.json'), ('/data', 'set/meta.json'), ('/data/set', 'meta.json'), ('/data/set', './meta.json'),
                      ('/data/set/sub', '../meta.json')):
        fs = FakeFS({'/data/set/meta.json': meta, '/data/set/data.csv': 'a\n1\n'})
        os_ = fs.os(cwd=cwd)
        real_open = fs.open

        def open_rel(path, mode='r', *a, cwd=cwd, **k):
            return real_open(posixpath.normpath(posixpath.join(cwd, path)), mode, *a, **k)
        open_rel._pyeval_model = True
        o = Obj(c)
        o.attrs.update(errors=[], warnings=[], _verbosity=0, _table=None)
        I = Interp(p)
        I.extra_names.update({'os': os_, 'open': open_rel})

        def hook(m, args, kwargs, selfobj):
            if m.name in ('warn', 'error'):
                return True, None
            return False, None
        I.on_call = hook
        try:
            I.call(rd, [spec], selfobj=o)
            I.call(gu, [], selfobj=o)
        except (Unsupported, Raised) as e:
            raise AnalysisError('CSVWMetadata.read / get_url is not evaluable: %s' % e)
        n += 1
        got = o.attrs.get('_fullpath')
        got_n = posixpath.normpath(posixpath.join(cwd, got)) if got else got
        run.ob('C16-LOCATE', '%s::%s::%s' % (rd.rel, rd.short, spec), got_n == '/data/set/data.csv',
               'metadata addressed as %s from %s: the data file is looked for at %r' % (spec, cwd, got), fn=rd)
    run.floor('C16-LOCATE', n, 5)


def tablegroup(run, p):
    """the table that supplies the schema is the table that supplies the data"""
    import json
    from ..model import Sym
    from ..pyeval import Interp, Unsupported, Raised, FakeFS, pure_sys
    run.rule('C16-TABLEGROUP', 'in a table group the data file comes from the same table as the schema: CSVWMetadata(path, table_number=n) and '
                               'CSVWMetadata(path, for_table_name=...), constructed by evaluation on an in-memory file system with a metadata '
                               'file describing two tables (each with its own url and column types), look for the data at the url of the '
                               'table whose columns they loaded')
    c = p.cls('CSVWMetadata')
    meta = json.dumps({'@context': 'http://www.w3.org/ns/csvw', 'tables': [
        {'url': 'uk.csv', 'tableSchema': {'columns': [{'name': 'a', 'datatype': 'integer'}, {'name': 'when', 'datatype': {'base': 'date', 'format': 'dd/MM/yyyy'}}]}},
        {'url': 'us.csv', 'tableSchema': {'columns': [{'name': 'a', 'datatype': 'string'}, {'name': 'when', 'datatype': {'base': 'date', 'format': 'MM/dd/yyyy'}}]}}]})
    n = 0
    for what, kw, want_url, want_type in (('table_number=0', {'table_number': 0}, 'uk.csv', 'int'), ('table_number=1', {'table_number': 1}, 'us.csv', 'string'),
                                          ('no table given', {}, 'uk.csv', 'int')):
        fs = FakeFS({'/data/set/meta.json': meta, '/data/set/uk.csv': 'a,when\n1,02/03/2001\n', '/data/set/us.csv': 'a,when\nx,03/02/2001\n'})
        I = Interp(p)
        I.safe_modules = {'json', 're'}
        I.extra_names.update({'os': fs.os(cwd='/data/set'), 'open': fs.open, 'sys': pure_sys(), 'json': json})

        def hook(m, args, kwargs, selfobj):
            if m.name in ('warn', 'error') and m.cls is not None:
                return True, None
            return False, None
        I.on_call = hook
        try:
            o = I.apply(('#sym', Sym('class', c.qn)), ['/data/set/meta.json'], dict(kw))
        except Raised as e:
            n += 1
            run.ob('C16-TABLEGROUP', '%s::%s::%s' % (c.mod.rel, c.name, what), False, '%s: the constructor raises %s' % (what, e), fn=c.methods['__init__'])
            continue
        except Unsupported as e:
            raise AnalysisError('CSVWMetadata(...) is not evaluable: %s' % e)
        n += 1
        got = o.attrs.get('_fullpath')
        fields = o.attrs.get('fields') or []
        ftype = fields[0].attrs.get('mtype') if fields and hasattr(fields[0], 'attrs') else None
        ok = isinstance(got, str) and got.endswith('/' + want_url) and ftype == want_type
        run.ob('C16-TABLEGROUP', '%s::%s::%s' % (c.mod.rel, c.name, what), ok,
               '%s: columns of the table with %r first column, data looked for at %r (its own url is %s)' % (what, ftype, got, want_url),
               fn=c.methods['__init__'])
    run.floor('C16-TABLEGROUP', n, 3)


def dkeys(run, p):
    run.rule('C16-DKEYS', 'process_dialect, evaluated with one dialect key set at a time (every W3C dialect key, several values each, '
                          'explicit zeros and false included): the value lands on the attribute named for that key, on no attribute '
                          'named for another key, and an explicit 0 or false is kept, not replaced by a default; the number of header '
                          'rows is 0 for header false, else the headerRowCount given, else 1')
    f = p.method('CSVWMetadata', 'process_dialect')
    base = process_dialect_eval(p, {})
    norm_name = lambda a: a.replace('_', '').lower()
    named = {}
    for a in base:
        for k in W3C_DIALECT:
            if norm_name(a) == k.lower():
                named.setdefault(k, []).append(a)
    n = 0
    for k in W3C_DIALECT:
        probs = []
        for v in DIALECT_SAMPLES[k]:
            n += 1
            got = process_dialect_eval(p, {k: v})
            want = {'true': True, 'false': False}.get(v, v) if k == 'trim' and isinstance(v, str) else v
            for a in named.get(k, ()):
                if got.get(a) != want or type(got.get(a)) is not type(want):
                    if k == 'header':
                        continue        # header is folded into the header-row counts, checked below
                    probs.append('%s=%r leaves %s = %r' % (k, v, a, got.get(a)))
            for k2, attrs_ in named.items():
                if k2 == k or k2.lower() in DIALECT_COUPLED.get(k, ()):
                    continue
                for a in attrs_:
                    if got.get(a) != base.get(a):
                        probs.append('%s=%r changes %s (named for %s) to %r' % (k, v, a, k2, got.get(a)))
        if not named.get(k) and k != 'header':
            probs.append('no attribute is named for the key')
        run.ob('C16-DKEYS', '%s::%s::key:%s' % (f.rel, f.short, k), not probs,
               'dialect key %s over %d values: %s' % (k, len(DIALECT_SAMPLES[k]), '; '.join(probs[:2]) or 'stored on %s only' % (named.get(k) or 'the header-row counts')),
               fn=f)
    # header rows
    probs = []
    for header in (None, True, False):
        for count in (None, 0, 1, 3):
            d = {}
            if header is not None:
                d['header'] = header
            if count is not None:
                d['headerRowCount'] = count
            n += 1
            got = process_dialect_eval(p, d)
            if 'header_rows' not in got:
                raise AnalysisError('process_dialect no longer records the number of header rows as header_rows')
            want = 0 if header is False else (count if count is not None else 1)
            if got.get('header_rows') != want:
                probs.append('%r gives header_rows = %r, expected %r' % (d, got.get('header_rows'), want))
    run.ob('C16-DKEYS', '%s::%s::header-rows' % (f.rel, f.short), not probs,
           'header rows over 12 combinations of header and headerRowCount: %s' % ('; '.join(probs[:2]) or 'as the dialect says'), fn=f)
    run.floor('C16-DKEYS', n, 40)


def types(run, p):
    run.rule('C16-TYPES', 'every metadata type a CSVW type maps to has a pandas dtype entry; the six documented types map as the W3C primer '
                          'and the module comments say (boolean->bool->boolean, integer->int->Int64, number->number->float, '
                          'string->string->string, date/datetime->date types); no date type can reach the dtype argument')
    a = p.const('tdda.serial.csvw', 'CSVW_TYPE_TO_MTYPE')
    b = p.const('tdda.serial.pandasio', 'MTYPE_TO_PANDAS_DTYPE')
    miss = sorted(set(a.values()) - set(b))
    run.ob('C16-TYPES', 'closed', not miss, 'metadata types without a pandas dtype entry: %s' % miss, rel='tdda/serial/pandasio.py', line=1)
    for t, (mt, dt) in sorted(SPEC_TYPES.items()):
        got = a.get(t)
        ok = got == mt and (dt is None or b.get(got) == dt)
        run.ob('C16-TYPES', 'type:%s' % t, ok, 'CSVW %s -> %s -> %s (documented %s -> %s)' % (t, got, b.get(got), mt, dt or 'parsed as dates'),
               rel='tdda/serial/csvw.py', line=1, nontrivial=False)
    readargs(run, p, b)
    run.floor('C16-TYPES', 2 + len(SPEC_TYPES), 9)


# strptime formats that mean ISO 8601 text as pandas' ISO parser reads it: year-month-day with dashes, then optionally
# T or space, hours:minutes with colons, optionally :seconds, optionally a fraction introduced by a dot
ISO_SPEC = r'^%Y-%m-%d([T ]%H:%M(:%S([.]%f)?)?)?$'


def isolang(run, p):
    from .. import reglang
    run.rule('C16-ISOLANG', 'a translated format is replaced by the label ISO8601 (and its own parsing format discarded) only when it '
                            'really is ISO 8601: the language of RE_ISO8601, as a set of strptime formats, is included in '
                            '%Y-%m-%d[(T| )%H:%M[:%S[.%f]]] - decided by product construction on the two automata - and it still '
                            'accepts the plain date and the seconds-resolution forms')
    try:
        iso = p.const('tdda.serial.base', 'RE_ISO8601')
    except AnalysisError:
        raise AnalysisError('RE_ISO8601 vanished')
    if not isinstance(iso, str) or not reglang.parses(iso):
        raise AnalysisError('RE_ISO8601 does not fold to a regular expression: %r' % (iso,))
    alphabet = sorted(set('%YmdHMSf-: T./,x0') | {c for c in iso if c.isalnum() or c in '-:/., '})
    try:
        w = reglang.not_included(iso, [ISO_SPEC], alphabet)
    except reglang.Unsupported as e:
        raise AnalysisError('RE_ISO8601 uses a construct outside the regular-language toolkit: %s' % e)
    m = p.mod('tdda.serial.base')
    run.ob('C16-ISOLANG', 'tdda/serial/base.py::RE_ISO8601::included', w is None,
           'every format RE_ISO8601 accepts is ISO 8601' if w is None else
           'RE_ISO8601 accepts %r, which is not an ISO 8601 layout: that format would be labelled ISO8601 and its real layout lost' % w,
           rel=m.rel, line=m.consts['RE_ISO8601'].lineno)
    musts = ['%Y-%m-%d', '%Y-%m-%dT%H:%M:%S', '%Y-%m-%d %H:%M:%S', '%Y-%m-%d %H:%M:%S.%f']
    for s in musts:
        lit = '^' + re.escape(s) + '$'
        miss = reglang.not_included(lit, [iso], alphabet)
        run.ob('C16-ISOLANG', 'tdda/serial/base.py::RE_ISO8601::accepts %s' % s, miss is None,
               'RE_ISO8601 %s %s' % ('accepts' if miss is None else 'no longer accepts', s), rel=m.rel,
               line=m.consts['RE_ISO8601'].lineno, nontrivial=False)
    run.floor('C16-ISOLANG', 1 + len(musts), 5)


def precedence(run, p):
    import json
    from ..pyeval import Interp, Obj, Unsupported, Raised
    run.rule('C16-EXPLICIT', 'what the CSVW dialect states explicitly wins over what is inherited from the dc:replaces provenance: '
                             'get_dialect, evaluated on metadata whose dialect does / does not give the delimiter and the encoding '
                             'while dc:replaces gives other ones, leaves every explicit value alone and fills in only what is missing')
    f = p.method('CSVWMetadata', 'get_dialect')
    prov = json.dumps({'resources': [{'encoding': 'latin-1', 'dialect': {'csv': {'delimiter': ';'}}}]})
    n = 0
    for what, dialect, want in (
            ('both explicit', {'delimiter': '|', 'encoding': 'utf-16'}, {'delimiter': '|', 'encoding': 'utf-16'}),
            ('delimiter explicit', {'delimiter': '|'}, {'delimiter': '|', 'encoding': 'latin-1'}),
            ('encoding explicit', {'encoding': 'utf-16'}, {'delimiter': ';', 'encoding': 'utf-16'}),
            ('neither', {}, {'delimiter': ';', 'encoding': 'latin-1'}),
            ('other keys only', {'header': False, 'quoteChar': "'"}, {'delimiter': ';', 'encoding': 'latin-1', 'header': False, 'quoteChar': "'"}),
            ('no provenance', {'delimiter': '|'}, {'delimiter': '|'})):
        o = Obj(p.cls('CSVWMetadata'))
        csvw = {'dialect': dict(dialect)}
        if what != 'no provenance':
            csvw['dc:replaces'] = prov
        o.attrs.update(_csvw=csvw, errors=[], warnings=[], _verbosity=0)
        I = Interp(p)

        def hook(m, args, kwargs, selfobj):
            if m.name in ('process_dialect', 'warn', 'error'):
                return True, None
            return False, None
        I.on_call = hook
        try:
            I.call(f, [], selfobj=o)
        except (Unsupported, Raised) as e:
            raise AnalysisError('get_dialect is not evaluable: %s' % e)
        n += 1
        got = o.attrs.get('_dialect')
        got = {k: v for k, v in (got or {}).items() if v is not None}
        run.ob('C16-EXPLICIT', '%s::%s::%s' % (f.rel, f.short, what), got == want,
               'dialect %r with dc:replaces giving latin-1 and ";": the dialect used is %r%s' % (dialect, got, '' if got == want else ', expected %r' % want), fn=f)
    run.floor('C16-EXPLICIT', n, 6)


def declared(run, p):
    run.rule('C16-DECLARED', 'a column whose type the metadata declares keeps it: in csv2pandas every poss_upgrade_to_int call is reached '
                             'only for columns outside the declared dtype map, and that map is what read_csv was given - its '
                             'definition does not depend on any on/off option of csv2pandas (data and control dependence)')
    f = p.fn('tdda.serial.reader.csv2pandas')
    gm = GuardMap(f.node)
    flags = {a for a, d in f.defaults.items() if isinstance(d, ast.Constant) and isinstance(d.value, bool)}
    n = 0
    for x in p.own_nodes(f):
        if not (isinstance(x, ast.Call) and getattr(x.func, 'id', '') == 'poss_upgrade_to_int'):
            continue
        n += 1
        col = norm(x.args[1]) if len(x.args) > 1 else None
        prot = None
        for g in gm.chain(x) or ():
            if g.kind != 'if':
                continue
            for c in ast.walk(g.test):
                if isinstance(c, ast.Compare) and len(c.ops) == 1 and isinstance(c.ops[0], (ast.In, ast.NotIn)) and norm(c.left) == col:
                    prot = c.comparators[0]
        key = '%s::%s::poss_upgrade_to_int' % (f.rel, f.short)
        if prot is None:
            run.ob('C16-DECLARED', key, False, 'possible-int upgrading is applied without excluding the declared columns', fn=f, node=x)
            continue
        src = names_in(prot) - {col}
        # from the protection set back to what read_csv was given (kw), not beyond: how kw itself was found is another matter
        clo = dep_closure(f.node, src, control=True, stop=('kw', 'md_kw', 'md')) | src
        bad = sorted((clo & flags) - {'upgrade_possible_ints'})
        run.ob('C16-DECLARED', key, not bad and bool(clo & {'kw', 'md_kw', 'md'}),
               'declared columns are excluded through %s, which %s' % (norm(prot)[:40], 'derives from the read_csv arguments only' if not bad else
                                                                       'also depends on the option(s) %s: with that option off nothing is protected' % bad),
               fn=f, node=x)
    run.floor('C16-DECLARED', n, 1)


def fields_metadata_eval(p, columns, extensions=False):
    """CSVWMetadata.get_fields_metadata evaluated on column descriptions -> ([attributes of each field], messages)"""
    from ..pyeval import Interp, Obj, Unsupported, Raised
    c = p.cls('CSVWMetadata')
    f = p.lookup_method(c.qn, 'get_fields_metadata')
    o = Obj(c)
    o.attrs.update(fields=[], _columns=list(columns), _extensions=extensions, errors=[], warnings=[], _verbosity=0)
    msgs = []
    I = Interp(p)

    def hook(m, args, kwargs, selfobj):
        if m.name in ('warn', 'error') and m.cls is not None and selfobj is o:
            msgs.append((m.name, args[0] if args else ''))
            return True, None
        return False, None
    I.on_call = hook
    try:
        I.call(f, [], selfobj=o)
    except (Unsupported, Raised) as e:
        raise AnalysisError('get_fields_metadata is not evaluable: %s' % e)
    return [dict(x.attrs) for x in o.attrs['fields']], msgs


def datefmt(run, p):
    """a date format written the CSVW way reaches pandas in the strftime form, whichever spelling names the column's type"""
    run.rule('C16-DATEFMT', 'a date / time format given in CSVW notation (dd/MM/yyyy HH:mm:ss ...) is handed on translated, for every '
                            'spelling of the column type that denotes a date or a date-time (date, datetime, dateTime; as a datatype '
                            'object with base + format, or as a plain name with a column-level format): get_fields_metadata evaluated; '
                            'an untranslated format makes pandas fall back to guessing, month first')
    f = p.method('CSVWMetadata', 'get_fields_metadata')
    n = 0
    for fmt in ('dd/MM/yyyy HH:mm:ss', 'dd.MM.yyyy', 'yyyy-MM-dd'):
        seen = {}
        for spelling in ('date', 'datetime', 'dateTime'):
            for form, col in (('datatype object', {'name': 'd', 'datatype': {'base': spelling, 'format': fmt}}),
                              ('column-level format', {'name': 'd', 'datatype': spelling, 'format': fmt})):
                fields, msgs = fields_metadata_eval(p, [col])
                if len(fields) != 1:
                    continue
                got = fields[0].get('format')
                if form == 'column-level format' and got is None:
                    continue                  # a column-level format is not read for this form: nothing to translate
                seen[(spelling, form)] = got
        # the spellings are siblings: one translation for all of them, and it is a translation (not the CSVW text handed on)
        vals = sorted(set(map(str, seen.values())))
        for (spelling, form), got in sorted(seen.items()):
            n += 1
            ok = len(vals) == 1 and got != fmt
            run.ob('C16-DATEFMT', '%s::%s::%s:%s:%s' % (f.rel, f.short, spelling, form, fmt), ok,
                   'type %s (%s) with format %r is loaded with format %r%s' % (spelling, form, fmt, got, '' if len(vals) == 1 else
                                                                                '; the other spellings give %s' % [v for v in vals if v != str(got)]), fn=f)
    run.floor('C16-DATEFMT', n, 9)


def titles(run, p):
    run.rule('C16-TITLES', 'a column\'s titles are kept as the metadata lists them: get_fields_metadata, evaluated on columns whose '
                           'titles are a string, a list (with and without the column\'s own name in it) or a language map, leaves '
                           'exactly those titles in altnames - a string as a one-element list - never a filtered copy (the reader '
                           'decides from altnames whether to pass names= to read_csv; dropping a title equal to the name loses the '
                           'column names of a header-less file)')
    f = p.method('CSVWMetadata', 'get_fields_metadata')
    cases = [('a string', 'Amount', ['Amount']), ('the name itself', 'amount', ['amount']), ('a list', ['Amount', 'Amt'], ['Amount', 'Amt']),
             ('a list holding the name', ['amount', 'Amt'], ['amount', 'Amt']), ('a one-name list', ['amount'], ['amount']),
             ('a language map', {'en': ['Amount'], 'fr': ['Montant']}, {'en': ['Amount'], 'fr': ['Montant']}), ('absent', None, None)]
    n = 0
    for what, given, want in cases:
        col = {'name': 'amount', 'datatype': 'integer'}
        if given is not None:
            col['titles'] = given
        fields, msgs = fields_metadata_eval(p, [{'name': 'id', 'datatype': 'string'}, col])
        n += 1
        got = fields[1].get('altnames') if len(fields) == 2 else '<column not loaded>'
        run.ob('C16-TITLES', '%s::%s::titles:%s' % (f.rel, f.short, what), got == want,
               'titles given as %s (%r) are kept as %r' % (what, given, got), fn=f)
    run.floor('C16-TITLES', n, 7)


def ownmeta(run, p):
    """the metadata found for a data file is that file's own"""
    from ..pyeval import Interp, Unsupported, Raised, FakeFS
    run.rule('C16-OWNMETA', 'a CSV file is read with its own metadata: find_associated_metadata_file, evaluated on an in-memory directory '
                            'for data files with plain, dotted and dashed names (sales.csv, sales.eu.csv, readings.2024.csv, a-b.csv), '
                            'returns the metadata file named after the whole file name minus its last extension when there is one - '
                            'also when a sibling with a shorter name (sales-metadata.json next to sales.eu.csv) has metadata too - and '
                            'None when only the sibling has')
    f = p.fn('tdda.serial.utils.find_associated_metadata_file')
    m = p.mod('tdda.serial.utils')
    try:
        styles = p.const(m, 'METADATA_STYLES')
    except AnalysisError:
        raise AnalysisError('METADATA_STYLES not found')
    suffixes = [(sx, ex) for sxs, exs in styles for sx in sxs for ex in exs]
    if len(suffixes) < 3:
        raise AnalysisError('METADATA_STYLES holds %d spellings' % len(suffixes))
    n = 0
    for stem, sibling in (('sales', None), ('sales.eu', 'sales'), ('readings.2024', 'readings'), ('a-b', 'a'), ('v1.2.3.final', 'v1')):
        for sx, ex in (suffixes[0], suffixes[len(suffixes) // 2], suffixes[-1]):
            own = '/d/%s%s%s' % (stem, sx, ex)
            sib = '/d/%s%s%s' % (sibling, sx, ex) if sibling else None
            for have_own, have_sib in ((True, True), (True, False), (False, True)):
                if sib is None and have_sib:
                    continue
                files = {'/d/%s.csv' % stem: 'a\n1\n'}
                if have_own:
                    files[own] = '{}'
                if have_sib:
                    files[sib] = '{}'
                fs = FakeFS(files)
                I = Interp(p)
                I.extra_names.update({'os': fs.os(path_expanduser=lambda q: q)})
                try:
                    got = I.call(f, ['/d/%s.csv' % stem], {})
                except Unsupported as e:
                    raise AnalysisError('find_associated_metadata_file is not evaluable: %s' % e)
                except Raised as e:
                    got = 'raises %s' % e
                want = own if have_own else None
                n += 1
                run.ob('C16-OWNMETA', '%s.csv%s%s:%s%s' % (stem, sx, ex, 'own' if have_own else '', '+sibling' if have_sib else ''), got == want,
                       '%s.csv with %s present: finds %r, its own metadata would be %r' % (stem, sorted(k for k in files if not k.endswith('.csv')), got, want), fn=f)
    run.floor('C16-OWNMETA', n, 30)
