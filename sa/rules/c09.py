"""C09 - .tdda files round-trip: same text, same verdicts, unknown keys ignored."""
import ast

from ..flow import GuardMap
from ..model import AnalysisError, norm
from .c01 import datelang
from .c06 import kinds_and_methods
from .common import names_in, dep_closure, guard_requires


def kind_classes(p):
    km = kinds_and_methods(p)
    out = {}
    for kind in sorted(km):
        cname = ''.join(part.title() for part in kind.split('_')) + 'Constraint'
        out[kind] = p.cls(cname)
    return out


def check(run):
    p = run.prog
    kc = kind_classes(p)
    run.attempt(keys, run, p, kc)
    run.attempt(datepath, run, p, kc)
    run.attempt(datelang, run, p)
    run.rules['C09-DATELANG'] = run.rules.pop('C01-DATELANG')
    for o in run.obs:
        if o.rule == 'C01-DATELANG':
            o.rule = 'C09-DATELANG'
    run.floors = [(('C09-DATELANG' if r == 'C01-DATELANG' else r), c, m) for r, c, m in run.floors]
    run.attempt(datetype, run, p)
    run.attempt(nullg, run, p, kc)
    run.attempt(unknown, run, p)
    run.attempt(samepath, run, p)
    run.attempt(nomutate, run, p)
    from .common import shared_rule
    from .c02 import keeps_constraints as _keeps, kinds_and_methods as _km2
    shared_rule(run, lambda *a: _keeps(*a, rid='C09-KEEPS'), (run, p, _km2(p)), 'C09-KEEPS', 'C09-KEEPS',
                ' (a loaded constraint set that has been verified with still writes the text it was loaded from)')
    run.attempt(entry, run, p)
    run.attempt(preset, run, p)
    run.attempt(sameprep, run, p)
    from .common import nocache_rule
    nocache_rule(run, 'C09-NOCACHE', p, ['tdda.constraints.base'],
                 'a .tdda file is read each time it is loaded: no memoising decorator, no class-level container and no module-level '
                 'table filled in by a function in the constraints module (a rewritten file must take effect, whatever its timestamp)')
    from .common import keyorder_rule
    n = keyorder_rule(run, 'C09-KEYORDER', p, [f for f in p.funcs.values() if f.rel == 'tdda/constraints/base.py'],
                      'loading does not depend on the order of keys in the JSON objects (the format says it is immaterial): no loop '
                      'over a dictionary\'s items carries a plain local from the handling of one key to the handling of another')
    run.floor('C09-KEYORDER', n, 2)
    from .. import ief, triage
    run.attempt(ief.run_ief, run, 'C09', [p.fn('DatasetConstraints.to_json'), p.fn('DatasetConstraints.load'), p.fn('DatasetConstraints.initialize_from_dict')], triage=triage.IEF)
    run.floor('C09-IEF', run.units.get('ief_functions_checked', 0), 10)
    run.attempt(strip, run, p)
    run.trust('json.dumps / json.loads round-trip str, int, bool, None and float exactly (CPython)')


def dict_keys(f):
    out = set()
    for n in ast.walk(f.node):
        if isinstance(n, ast.Call) and getattr(n.func, 'id', '') in ('OrderedDict', 'dict') and n.args:
            for t in ast.walk(n.args[0]):
                if isinstance(t, ast.Tuple) and len(t.elts) == 2 and isinstance(t.elts[0], ast.Constant) and isinstance(t.elts[0].value, str):
                    out.add(t.elts[0].value)
        if isinstance(n, ast.Dict):
            out |= {k.value for k in n.keys if isinstance(k, ast.Constant) and isinstance(k.value, str)}
    return out


def keys(run, p, kc):
    run.rule('C09-KEYS', 'whatever keys a constraint class writes as a dictionary value are parameters of its constructor (the loader '
                         'calls constructor(**value)); the writer\'s key order and the reader\'s dispatch table are built from the same tuple')
    for kind, c in sorted(kc.items()):
        w = c.methods.get('to_dict_value')
        init = c.methods.get('__init__')
        if init is None:
            raise AnalysisError('%s has no __init__' % c.name)
        ks = dict_keys(w) if w is not None else set()
        params = set(init.params) - {'self'}
        run.ob('C09-KEYS', 'class:%s' % c.name, ks <= params,
               '%s writes keys %s; constructor accepts %s' % (c.name, sorted(ks) or 'a plain value', sorted(params)), fn=w or init,
               nontrivial=bool(ks))
    base = p.mod('tdda.constraints.base')
    from ..pyeval import Interp, Unsupported, Raised
    I = Interp(p)

    def value_of(name):
        node = base.consts.get(name)
        if node is None:
            raise AnalysisError('%s vanished from base.py' % name)
        try:
            return I.expr(node, {}, base)
        except Unsupported as e:
            raise AnalysisError('%s is not evaluable: %s' % (name, e))
    std = tuple(value_of('STANDARD_FIELD_CONSTRAINTS'))
    suffix = value_of('CONSTRAINT_SUFFIX_MAP')
    fm = base.consts.get('FIELD_CONSTRAINTS_MAP')
    cc = p.fn('tdda.constraints.base.constraint_class')
    reader = {}
    if isinstance(fm, ast.Dict):
        for k, v in zip(fm.keys, fm.values):
            if isinstance(k, ast.Constant):
                reader[k.value] = norm(v)
    elif isinstance(fm, ast.DictComp) and len(fm.generators) == 1:
        try:
            # the table itself, evaluated: kind -> class
            whole = I.expr(fm, {}, base)
            for kind, k_ in whole.items():
                reader[kind] = p.classes[k_[1].target].name if isinstance(k_, tuple) and k_[:1] == ('#sym',) and k_[1].target in p.classes else repr(k_)
        except (Unsupported, Raised, AttributeError, KeyError) as e:
            raise AnalysisError('FIELD_CONSTRAINTS_MAP is not evaluable: %s' % e)
    else:
        raise AnalysisError('FIELD_CONSTRAINTS_MAP has an unexpected form')
    want = {kind: I.call(cc, [kind]) for kind in std}
    fc = p.method('FieldConstraints', 'to_dict_value')
    order_from_std = 'STANDARD_FIELD_CONSTRAINTS' in names_in(fc.node)
    ok = reader == want and set(std) == set(suffix) and all(any(c_.name == name for c_ in p.classes.values()) for name in want.values()) and order_from_std
    run.ob('C09-KEYS', 'tables', ok,
           'the reader dispatches %d kinds (%s) to the classes constraint_class() names; the writer orders keys by the same %d kinds'
           % (len(reader), 'equal to STANDARD_FIELD_CONSTRAINTS' if set(reader) == set(std) else 'NOT the standard kinds: %s' % sorted(set(reader) ^ set(std)), len(std)),
           rel=base.rel, line=fm.lineno if fm is not None else 1)
    run.floor('C09-KEYS', len(kc) + 1, 11)


def datepath(run, p, kc):
    import datetime as dt
    import json
    from ..pyeval import Interp, Obj, Unsupported, Raised
    run.rule('C09-DATEPATH', 'to_dict_value of every constraint class, evaluated with date, datetime and plain values (and with and '
                             'without a precision where the class takes one), returns what json.dumps accepts, with a date bound '
                             'rendered by str(); a raw datetime would make json.dumps raise')
    n = 0
    for kind, c in sorted(kc.items()):
        w = p.lookup_method(c.qn, 'to_dict_value')
        if w is None:
            raise AnalysisError('constraint class %s has no to_dict_value' % c.name)
        dated = kind in ('min', 'max')
        values = [dt.date(2020, 2, 29), dt.datetime(2020, 2, 29, 1, 2, 3, 456)] if dated else []
        values += [{'min': 5, 'max': 5.5, 'sign': 'positive', 'type': 'int', 'max_nulls': 0, 'no_duplicates': True,
                    'allowed_values': ['a', 'b'], 'rex': ['^a$'], 'min_length': 0, 'max_length': 3}.get(kind, 1)]
        bad = []
        for v in values:
            for prec in ((None, 'fuzzy') if dated else (None,)):
                o = Obj(c)
                o.attrs.update(kind=kind, value=v, precision=prec, comment=None)
                I = Interp(p)
                I.safe_modules = {'datetime'}
                I.extra_names['datetime'] = dt
                try:
                    got = I.call(w, [], {'raw': False}, selfobj=o)
                except (Unsupported, Raised) as e:
                    raise AnalysisError('%s.to_dict_value is not evaluable: %s' % (c.name, e))
                n += 1
                inner = got.get('value') if isinstance(got, dict) else got
                try:
                    json.dumps(got)
                    ok = inner == (str(v) if isinstance(v, dt.date) else v)
                except TypeError:
                    ok = False
                if not ok:
                    bad.append((v, prec, got))
        run.ob('C09-DATEPATH', '%s::%s' % (w.rel, c.name + '.to_dict_value'), not bad,
               '%s.to_dict_value over %d values%s' % (c.name, len(values), '' if not bad else
                                                      ': value %r (precision %r) is written as %r, which %s' % (
                                                          bad[0] + ('is not JSON serialisable' if isinstance(bad[0][0], dt.date) else 'is not the value',))),
               fn=w)
    run.floor('C09-DATEPATH', n, 12)


def datetype(run, p):
    run.rule('C09-DATETYPE', 'a bound written by str(date) is re-read as a value whose str() is the same text: the three-group (date only) '
                             'reader must not build a datetime')
    f = p.fn('tdda.constraints.base.get_date')
    ctors = {norm(c.func) for c in ast.walk(f.node) if isinstance(c, ast.Call) and norm(c.func) in ('datetime.datetime', 'datetime.date')}
    branches_on_L = any(isinstance(x, ast.Compare) and 'L' in names_in(x) and any(isinstance(c, ast.Constant) and c.value == 3 for c in x.comparators)
                        for x in ast.walk(f.node))
    ok = 'datetime.date' in ctors and branches_on_L
    run.ob('C09-DATETYPE', 'tdda/constraints/base.py::get_date::date-only', ok,
           'date-only text is rebuilt with %s%s' % (sorted(ctors), '' if ok else ': "2020-01-01" comes back as a datetime and re-serialises as "2020-01-01 00:00:00"'), fn=f)


def nullg(run, p, kc):
    run.rule('C09-NULLG', 'null-valued constraints load: every constructor that iterates, measures or subscripts its value does so under a '
                          'type/None test, and the date conversion applied by the loader tolerates a null value')
    from ..pyeval import Interp, Obj, Raised, Unsupported
    I = Interp(p)
    for kind, c in sorted(kc.items()):
        init = c.methods['__init__']
        gm = GuardMap(init.node)
        bad = []
        for x in p.own_nodes(init):
            tgt = None
            if isinstance(x, (ast.For, ast.comprehension)) and isinstance(x.iter, ast.Name) and x.iter.id == 'value':
                tgt = x.iter
            if isinstance(x, ast.Call) and getattr(x.func, 'id', '') in ('len', 'sorted', 'list', 'set', 'tuple') and x.args and \
                    isinstance(x.args[0], ast.Name) and x.args[0].id == 'value':
                tgt = x
            if isinstance(x, ast.Subscript) and isinstance(x.value, ast.Name) and x.value.id == 'value':
                tgt = x
            if tgt is None:
                continue
            ch = gm.chain(tgt) or ()
            ok = any(g.kind == 'if' and 'value' in names_in(g.test) and
                     ('type(' in ast.unparse(g.test) or 'isinstance' in ast.unparse(g.test) or ' is None' in ast.unparse(g.test)
                      or ' is not None' in ast.unparse(g.test)) for g in ch)
            if not ok:
                bad.append(tgt)
        # the constructor itself, evaluated on the one input the clause is about: value = None
        try:
            I.call(init, [None], selfobj=Obj(c))
            outcome = 'returns'
        except Raised as e:
            outcome = 'raises'
        except (TypeError, ValueError, KeyError, IndexError, AttributeError) as e:
            outcome = 'fails with %s (%s)' % (type(e).__name__, e)
        except Unsupported as e:
            outcome = None
            run.note('C09-NULLG', '%s(None) not evaluated: %s' % (c.name, e), fn=init)
        if outcome is not None:
            run.ob('C09-NULLG', '%s::%s::value=None' % (init.rel, init.short), outcome == 'returns',
                   '%s(None) %s (abstract evaluation of the constructor and check_validity on the null value)' % (c.name, outcome), fn=init)
        if outcome is None:
            # fallback when the constructor could not be evaluated
            # a validity check applied to the value (or precision) as a whole must list None among the admitted values
            for x in p.own_nodes(init):
                if isinstance(x, ast.Call) and isinstance(x.func, ast.Attribute) and x.func.attr == 'check_validity' and len(x.args) >= 3 \
                        and isinstance(x.args[1], ast.Name) and x.args[1].id in init.params:
                    admits = False
                    for v in x.args[2:]:
                        try:
                            vals = p.fold(init.mod, v)
                        except Exception:
                            vals = None
                        if isinstance(v, (ast.List, ast.Tuple)) and any(isinstance(e, ast.Constant) and e.value is None for e in v.elts):
                            admits = True
                        elif isinstance(vals, (list, tuple, set, frozenset)) and None in vals:
                            admits = True
                    run.ob('C09-NULLG', '%s::%s::check_validity(%s)' % (init.rel, init.short, x.args[1].id), admits,
                           '%s validates %s against %s, which %s None (a null-valued constraint means "no constraint" and must load)'
                           % (init.short, x.args[1].id, ', '.join(norm(v) for v in x.args[2:]), 'admits' if admits else 'does not admit'),
                           fn=init, node=x)
        run.ob('C09-NULLG', '%s::%s' % (init.rel, init.short), not bad,
               '%s %s' % (init.short, 'accepts a null value' if not bad else 'uses its value unguarded: `%s` fails for null' % norm(bad[0])[:40]),
               fn=init, node=bad[0] if bad else None)
    # loader conversion
    f = p.method('DatasetConstraints', 'initialize_from_dict')
    gm = GuardMap(f.node)
    gd = p.fn('tdda.constraints.base.get_date')
    gdm = GuardMap(gd.node)
    param = gd.posparams[0]
    inner_ok = True
    for x in p.own_nodes(gd):
        if isinstance(x, ast.Call) and norm(x.func) in ('re.match', 're.fullmatch', 're.search') and len(x.args) > 1 and param in names_in(x.args[1]):
            ch = gdm.chain(x) or ()
            inner_ok = inner_ok and any(g.kind == 'if' and param in names_in(g.test) for g in ch)
    for x in p.own_nodes(f):
        if isinstance(x, ast.Call) and getattr(x.func, 'id', '') == 'get_date':
            ch = gm.chain(x) or ()
            ok = inner_ok or any(g.kind == 'if' and ('None' in ast.unparse(g.test)) and (names_in(g.test) & (names_in(x.args[0]) | {'value'})) for g in ch)
            run.ob('C09-NULLG', '%s::%s::get_date' % (f.rel, f.short), ok,
                   'the loader converts date bounds with get_date(%s) %s' % (norm(x.args[0]), 'which tolerates null' if ok else
                                                                             'without a null test: re.match(rex, None) raises TypeError'), fn=f, node=x)
    run.floor('C09-NULLG', len(kc) + 1, 11)


def load_dict(p, d):
    """DatasetConstraints().initialize_from_dict(d), evaluated -> (fields {name: {kind: {attr: value}}}, metadata attrs, warnings, error)"""
    import datetime as dt
    from ..pyeval import Interp, Obj, Unsupported, Raised, pure_sys
    c = p.cls('DatasetConstraints')
    warned = []

    def fake_print(*a, **k):
        warned.append(' '.join(str(x) for x in a))
    fake_print._pyeval_model = True
    I = Interp(p)
    I.safe_modules = {'datetime', 're'}
    I.extra_names.update({'datetime': dt, 'print': fake_print, 'sys': pure_sys()})
    o = Obj(c)
    err = None
    try:
        I.call(c.methods['__init__'], [], selfobj=o)
        I.call(c.methods['initialize_from_dict'], [d], selfobj=o)
    except Raised as e:
        err = str(e)
    except Unsupported as e:
        raise AnalysisError('initialize_from_dict is not evaluable: %s' % e)
    fields = {}
    fo = o.attrs.get('fields')
    for name, fc in (fo.items.items() if fo is not None else ()):
        cs = fc.attrs.get('constraints')
        cs = cs.items if hasattr(cs, 'attrs') else cs
        fields[name] = {k: dict(v.attrs) for k, v in cs.items()}
    meta = {k: v for k, v in o.attrs.items() if k != 'fields'}
    return fields, meta, warned, err


def load_path(p, text):
    """DatasetConstraints().load(path) evaluated with the file's text held in memory -> fields as load_dict gives them"""
    import datetime as dt
    import json
    import collections
    from ..pyeval import Interp, Obj, Unsupported, Raised, pure_sys, FakeFS
    c = p.cls('DatasetConstraints')
    fs = FakeFS({'/data/c.tdda': text})
    warned = []

    def fake_print(*a, **k):
        warned.append(' '.join(str(x) for x in a))
    fake_print._pyeval_model = True
    I = Interp(p)
    I.safe_modules = {'datetime', 're', 'json', 'collections'}
    I.extra_names.update({'datetime': dt, 'print': fake_print, 'sys': pure_sys(), 'open': fs.open, 'os': fs.os(), 'json': json})
    o = Obj(c)
    err = None
    try:
        I.call(c.methods['__init__'], [], selfobj=o)
        I.call(c.methods['load'], ['/data/c.tdda'], selfobj=o)
    except Raised as e:
        err = str(e)
    except Unsupported as e:
        raise AnalysisError('DatasetConstraints.load is not evaluable: %s' % e)
    fields = {}
    fo = o.attrs.get('fields')
    for name, fc in (fo.items.items() if fo is not None else ()):
        cs = fc.attrs.get('constraints')
        cs = cs.items if hasattr(cs, 'attrs') else cs
        fields[name] = {k: dict(v.attrs) for k, v in cs.items()}
    return fields, warned, err


def samepath(run, p):
    """a .tdda file and the dictionary it holds load alike"""
    import json
    run.rule('C09-SAMELOAD', 'constraints loaded from a .tdda file are the constraints loaded from the dictionary the file holds: load(path) '
                             'and initialize_from_dict(json of the same text), both evaluated, give the same fields with the same '
                             'constraints - for fields whose names begin with # or contain odd characters, for # comment keys and unknown '
                             'kinds next to constraints, for dates and precisions')
    f = p.method('DatasetConstraints', 'load')
    docs = {
        'plain': {'fields': {'a': {'type': 'int', 'min': 1, 'max': {'value': 7, 'precision': 'closed'}}, 'b': {'type': 'string', 'allowed_values': ['x', '']}}},
        'odd-field-names': {'fields': {'#CHROM': {'type': 'string', 'min_length': 1}, '# of items': {'type': 'int', 'min': 0}, 'a b': {'type': 'bool'},
                                       '': {'type': 'int'}}},
        'comments-and-unknown-kinds': {'fields': {'a': {'type': 'int', '#note': 'why', 'frob': 3, 'max_nulls': 0}}, '#top': 'comment',
                                       'creation_metadata': {'source': 'x'}},
        'dates': {'fields': {'d': {'type': 'date', 'min': '2020-01-02', 'max': {'value': '2021-03-04 05:06:07', 'precision': 'closed'}}}},
    }
    n = 0
    for name, d in sorted(docs.items()):
        text = json.dumps(d, indent=4)
        via_path, w1, e1 = load_path(p, text)
        via_dict, _m, w2, e2 = load_dict(p, json.loads(text))
        n += 1
        same = via_path == via_dict and e1 == e2
        diff = ''
        if not same:
            only = sorted(set(via_dict) ^ set(via_path))
            diff = ': fields only one way %s' % only if only else ': %s / %s' % (str(via_path)[:80], str(via_dict)[:80])
            if e1 != e2:
                diff = ': from the file %s, from the dictionary %s' % (e1 or 'loads', e2 or 'loads')
        run.ob('C09-SAMELOAD', '%s::%s::%s' % (f.rel, f.short, name), same,
               '%s: %d field(s) from the file, %d from the dictionary%s' % (name, len(via_path), len(via_dict), diff), fn=f)
    run.floor('C09-SAMELOAD', n, 4)


def nomutate(run, p, rid='C09-NOMUTATE'):
    """a constraints dictionary handed in by the caller is read, not rewritten"""
    import copy
    import datetime as dt
    run.rule(rid, 'loading constraints from an in-memory dictionary leaves the dictionary as it was: initialize_from_dict, evaluated on '
                  'dictionaries with date bounds (plain and with a precision), nulls and comments, does not store anything into what it was '
                  'given - the same dictionary can be used for the next verify_df / detect_df call')
    f = p.method('DatasetConstraints', 'initialize_from_dict')
    docs = {
        'date-bounds': {'fields': {'d': {'type': 'date', 'min': '2020-01-02', 'max': {'value': '2021-03-04 05:06:07', 'precision': 'closed'}},
                                   'n': {'type': 'int', 'min': 1, 'max': {'value': 5, 'precision': 'fuzzy'}}}},
        'nulls-and-comments': {'fields': {'d': {'type': 'date', 'min': None, '#c': 1, 'max_nulls': 0}}, 'creation_metadata': {'source': 's'}},
    }
    n = 0
    for name, d in sorted(docs.items()):
        before = copy.deepcopy(d)
        fields, meta, warned, err = load_dict(p, d)
        n += 1
        same = d == before and repr(d) == repr(before)
        what = ''
        if not same:
            for fn_, fc in d.get('fields', {}).items():
                for k, v in fc.items():
                    if repr(v) != repr(before['fields'][fn_].get(k)):
                        what = ': %s.%s was %r and is now %r' % (fn_, k, before['fields'][fn_].get(k), v)
        run.ob(rid, '%s::%s::%s' % (f.rel, f.short, name), same, '%s: the dictionary handed in is %s%s' % (
            name, 'unchanged' if same else 'changed', what), fn=f)
    run.floor(rid, n, 2)


def unknown(run, p):
    run.rule('C09-UNKNOWN', 'the loader, evaluated on constraint dictionaries: an unknown constraint kind neither raises nor adds a '
                            'constraint, and is warned about unless its key starts with #; the known kinds next to it load; stored '
                            'values that are false in Python (0, "", false, an empty list) load as they are, for constraints and '
                            'metadata alike')
    f = p.method('DatasetConstraints', 'initialize_from_dict')
    d = {'fields': {'a': {'type': 'int', 'min': 1, 'bogus': 3, '#note': 'x', 'max': {'value': 7, 'precision': 'closed'}, '#': None},
                    'e': {'frob': 1, '#why': 'only unknown kinds'}},
         'creation_metadata': {'source': 'x', 'bogus': 1}}
    fields, meta, warned, err = load_dict(p, d)
    got = {k: sorted(v) for k, v in fields.items()}
    ok = err is None and got.get('a') == ['max', 'min', 'type'] and not got.get('e') and 'bogus' not in meta
    run.ob('C09-UNKNOWN', '%s::%s::unknown-arm' % (f.rel, f.short), ok,
           'unknown kinds next to known ones: %s' % ('the loader raises (%s)' % err if err else 'constraints loaded %s' % got), fn=f)
    hashes = [w for w in warned if '#' in w]
    named = all(any(k in w for w in warned) for k in ('bogus', 'frob'))
    run.ob('C09-UNKNOWN', '%s::%s::hash-keys' % (f.rel, f.short), err is None and not hashes and named,
           'warnings given: %s' % warned, fn=f)
    d = {'fields': {'z': {'type': 'int', 'min': 0, 'max': 0.0, 'max_nulls': 0, 'no_duplicates': False, 'allowed_values': [], 'min_length': 0,
                          'max_length': 0, 'rex': []},
                    's': {'type': 'string', 'allowed_values': [''], 'min': ''}},
         'creation_metadata': {'n_records': 0, 'n_selected': 0, 'source': '', 'dataset': None}}
    fields, meta, warned, err = load_dict(p, d)
    bad = []
    for name, cs in d['fields'].items():
        for kind, v in cs.items():
            gotv = fields.get(name, {}).get(kind, {'value': '<not loaded>'}).get('value')
            if gotv != v or type(gotv) is not type(v):
                bad.append('%s.%s = %r loads as %r' % (name, kind, v, gotv))
    for k, v in d['creation_metadata'].items():
        if v is not None and (meta.get(k) != v or type(meta.get(k)) is not type(v)):
            bad.append('metadata %s = %r loads as %r' % (k, v, meta.get(k)))
    run.ob('C09-UNKNOWN', '%s::%s::falsy-values' % (f.rel, f.short), err is None and not bad,
           'values that are false in Python %s' % ('load as they are' if err is None and not bad else
                                                    'are dropped or changed: %s' % (err or '; '.join(bad[:3]))), fn=f)
    run.floor('C09-UNKNOWN', 3, 3)


def _truthy_names(t):
    """Names used as bare truth values in a test."""
    if isinstance(t, ast.Name):
        return [t]
    if isinstance(t, ast.BoolOp):
        return [y for v in t.values for y in _truthy_names(v)]
    if isinstance(t, ast.UnaryOp) and isinstance(t.op, ast.Not):
        return _truthy_names(t.operand)
    return []


def entry(run, p):
    run.rule('C09-ENTRY', 'a constraints file given as a path, as a dictionary or re-serialised all funnel into '
                          'initialize_from_dict(native_definite(.))')
    n = 0
    for f in p.funcs.values():
        if not f.mod.name.startswith('tdda.constraints'):
            continue
        for x in p.own_nodes(f):
            if isinstance(x, ast.Call) and isinstance(x.func, ast.Attribute) and x.func.attr == 'initialize_from_dict':
                n += 1
                ok = len(x.args) == 1 and isinstance(x.args[0], ast.Call) and getattr(x.args[0].func, 'id', '') == 'native_definite'
                run.ob('C09-ENTRY', '%s::%s' % (f.rel, f.short), ok, '%s loads through %s' % (f.short, norm(x)[:70]), fn=f, node=x)
    ld = p.method('DatasetConstraints', 'load')
    ok = any('json.loads' in ast.unparse(p.funcs[qn].node) or 'json.load(' in ast.unparse(p.funcs[qn].node)
             for (qn, ctx) in p.reach([ld]) if p.funcs[qn].rel.startswith('tdda/constraints/'))
    run.ob('C09-ENTRY', '%s::%s::json' % (ld.rel, ld.short), ok, 'load() parses the file with json.loads', fn=ld, nontrivial=False)
    run.floor('C09-ENTRY', n, 2)


def preset(run, p):
    run.rule('C09-PRESET', 'what a file records wins over constructor defaults: in DatasetConstraints.__init__ no attribute that the '
                           'loader fills from the file\'s creation metadata (METADATA_KEYS, loadpath) is assigned after self.load(), '
                           'so a loaded set re-serialises the metadata it was loaded with')
    from .c10 import stored_names
    init = p.method('DatasetConstraints', '__init__')
    ifd = p.method('DatasetConstraints', 'initialize_from_dict')
    mk = p.fold(init.mod, init.mod.consts['METADATA_KEYS']) if 'METADATA_KEYS' in init.mod.consts else None
    if not mk:
        raise AnalysisError('METADATA_KEYS vanished')
    loaded = set(mk)
    for x in p.own_nodes(ifd):
        if isinstance(x, (ast.Assign, ast.AugAssign)):
            for t in (x.targets if isinstance(x, ast.Assign) else [x.target]):
                if isinstance(t, ast.Attribute) and isinstance(t.value, ast.Name) and t.value.id == 'self':
                    loaded.add(t.attr)
    loads = [x for x in p.own_nodes(init) if isinstance(x, ast.Call) and norm(x.func) in ('self.load', 'self.initialize_from_dict')]
    if not loads:
        raise AnalysisError('DatasetConstraints.__init__ no longer loads')
    first = min(x.lineno for x in loads)
    n = 0
    late = []
    for x in p.own_nodes(init):
        if isinstance(x, (ast.Assign, ast.AugAssign, ast.AnnAssign)):
            for t in (x.targets if isinstance(x, ast.Assign) else [x.target]):
                for a in ast.walk(t):
                    if isinstance(a, ast.Attribute) and isinstance(a.value, ast.Name) and a.value.id == 'self' and \
                            isinstance(a.ctx, ast.Store) and a.attr in loaded:
                        n += 1
                        if x.lineno > first:
                            late.append((a.attr, x))
    run.ob('C09-PRESET', '%s::%s' % (init.rel, init.short), not late,
           '%d loader-filled attributes are preset, %s' % (n, 'all before self.load()' if not late else
                                                          '%s is assigned after self.load() and overrides what the file records' % late[0][0]),
           fn=init, node=late[0][1] if late else None)
    run.floor('C09-PRESET', n, 8)


def strip(run, p):
    import json
    from ..pyeval import Interp, Obj, Unsupported, Raised
    run.rule('C09-STRIP', 'to_json, evaluated on constraint dictionaries holding every Unicode line separator (U+2028, U+2029, U+0085, '
                          'VT, FF, FS..US), non-ASCII text and trailing blanks inside values, returns text that is valid JSON for the '
                          'same dictionary, keeps non-ASCII characters as they are, ends in one newline and has no line ending in '
                          'blanks (str.splitlines in strip_lines would split inside string values and break the JSON)')
    f = p.method('DatasetConstraints', 'to_json')
    samples = [
        {'fields': {'a': {'type': 'string', 'allowed_values': ['x\u2028y', 'p\u2029q', 'n\x85m', 'v\x0bt', 'f\x0cf', 'fs\x1cgs\x1dus\x1f']}}},
        {'fields': {'caf\u00e9': {'type': 'string', 'rex': ['^\u00e9t\u00e9 +$'], 'min_length': 1}}, 'creation_metadata': {'source': 'x  '}},
        {'fields': {}},
        {'fields': {'n': {'type': 'int', 'min': -3, 'max': 7, 'sign': 'null', 'max_nulls': 0, 'no_duplicates': True}}},
    ]
    bad = []
    for d in samples:
        I = Interp(p)

        def hook(m, args, kwargs, selfobj, d=d):
            if m.name == 'to_dict':
                return True, d
            return False, None
        I.on_call = hook
        try:
            out = I.call(f, [], selfobj=Obj(p.cls('DatasetConstraints')))
        except (Unsupported, Raised) as e:
            raise AnalysisError('to_json is not evaluable: %s' % e)
        why = None
        try:
            if json.loads(out) != d:
                why = 'reads back as a different dictionary'
        except (ValueError, TypeError) as e:
            why = 'is not valid JSON (%s)' % e
        if why is None and not (out.endswith('\n') and not out.endswith('\n\n')):
            why = 'does not end in exactly one newline'
        if why is None and any(line != line.rstrip(' \t') for line in out.split('\n')):
            why = 'has a line ending in blanks'
        if why is None and any(ord(ch) > 127 for ch in json.dumps(d, ensure_ascii=False)) and not any(ord(ch) > 127 for ch in out):
            why = 'escapes non-ASCII characters'
        if why:
            bad.append((d, why))
    run.ob('C09-STRIP', '%s::%s' % (f.rel, f.short), not bad,
           'to_json over %d dictionaries%s' % (len(samples), '' if not bad else ': the text for %r %s' % (bad[0][0], bad[0][1])), fn=f)
    s = p.fn('tdda.constraints.base.strip_lines')
    sb = []
    for text, want in (('a  \nb\t\n', 'a\nb\n'), ('x\u2028y \n', 'x\u2028y\n'), ('one', 'one'), ('', ''), ('k: "v\x85w"  \n}', 'k: "v\x85w"\n}')):
        try:
            got = Interp(p).call(s, [text])
        except (Unsupported, Raised) as e:
            raise AnalysisError('strip_lines is not evaluable: %s' % e)
        if got.rstrip('\n') != want.rstrip('\n') or got.count('\n') < want.count('\n') - 1:
            sb.append((text, got))
    run.ob('C09-STRIP', '%s::%s::separator' % (s.rel, s.short), not sb,
           'strip_lines strips each "\\n"-separated line and nothing else%s' % ('' if not sb else ': %r becomes %r' % sb[0]), fn=s)
    run.floor('C09-STRIP', len(samples) + 5, 9)


def sameprep(run, p, rid='C09-SAMEPREP'):
    from .common import must_pass
    run.rule(rid, 'constraints given as a path and as a dictionary are prepared alike: in verify_df and detect_df every path on which '
                  'repair is requested passes the call to repair_field_types (directly, or inside a helper all of whose paths do), '
                  'whichever form the constraints came in')
    n = 0

    def header(s):
        """What a statement itself evaluates (for a compound statement only its header, not its blocks)."""
        if isinstance(s, (ast.If, ast.While)):
            return [s.test]
        if isinstance(s, (ast.For, ast.AsyncFor)):
            return [s.iter]
        if isinstance(s, (ast.With, ast.AsyncWith)):
            return [i.context_expr for i in s.items]
        if isinstance(s, (ast.Try, ast.FunctionDef, ast.ClassDef, ast.AsyncFunctionDef)):
            return []
        return [s]

    def is_repair(s):
        return any(isinstance(x, ast.Call) and isinstance(x.func, ast.Attribute) and x.func.attr == 'repair_field_types'
                   for h in header(s) for x in ast.walk(h))

    def helper_ok(g, depth=0):
        if depth > 3:
            return False
        bad = must_pass(g, lambda s: is_repair(s) or calls_ok_helper(g, s, depth))
        return not [b for b in bad if 'not repair' not in (b[2] or '')]

    def calls_ok_helper(f, s, depth):
        for x in (y for h in header(s) for y in ast.walk(h)):
            if isinstance(x, ast.Call) and isinstance(x.func, ast.Name):
                try:
                    g = p.fn(f.mod.name + '.' + x.func.id)
                except Exception:
                    continue
                if g is not f and any(is_repair(y) for y in ast.walk(g.node)) and helper_ok(g, depth + 1):
                    return True
        return False
    for name in ('verify_df', 'detect_df'):
        f = p.fn('tdda.constraints.pd.constraints.' + name)
        n += 1
        bad = must_pass(f, lambda s, f=f: is_repair(s) or calls_ok_helper(f, s, 0))
        bad = [b for b in bad if 'not repair' not in (b[2] or '')]
        if not bad:
            run.ob(rid, '%s::%s' % (f.rel, f.short), True, '%s repairs field types on every path with repair on' % name, fn=f)
        for k, node, atoms in bad:
            run.ob(rid, '%s::%s::exit[%s]' % (f.rel, f.short, (atoms or '')[:60]), False,
                   '%s can return without repair_field_types although repair was requested (path: %s)' % (name, atoms or 'unconditional'),
                   fn=f, node=node if hasattr(node, 'lineno') else None)
    run.floor(rid, n, 2)
