"""C10 - references are rewritten only on request, and a regenerated reference passes."""
import ast

from .. import ief, triage
from ..effects import Effects, fold_bool
from ..flow import GuardMap
from ..model import AnalysisError, norm

REGEN = '_should_regenerate'
TMP_OK = ('TMP', 'BASENAME', 'RELSAFE')


def assertion_methods(p):
    c = p.cls('ReferenceTest')
    return [f for n, f in sorted(c.methods.items()) if n.startswith('assert')]


# documented design, frozen: the on-disk DataFrame assertions file parquet references under the 'csv' kind
# ("CSV is used here, and applies, for now, to parqet as well as CSV" in both docstrings)
KIND_ALIAS_METHODS = {
    'assertOnDiskDataFrameCorrect': 'docstring: the csv kind applies to parquet as well',
    'assertOnDiskDataFramesCorrect': 'docstring: the csv kind applies to parquet as well',
}


def stored_names(n):
    """Names (re)bound directly by node n."""
    tg = []
    if isinstance(n, ast.Assign):
        tg = n.targets
    elif isinstance(n, (ast.AugAssign, ast.AnnAssign, ast.NamedExpr)):
        tg = [n.target]
    elif isinstance(n, (ast.For, ast.AsyncFor, ast.comprehension)):
        tg = [n.target]
    elif isinstance(n, (ast.With, ast.AsyncWith)):
        tg = [i.optional_vars for i in n.items if i.optional_vars is not None]
    elif isinstance(n, ast.ExceptHandler) and n.name:
        return [n.name]
    elif isinstance(n, (ast.Import, ast.ImportFrom)):
        return [(a.asname or a.name).split('.')[0] for a in n.names]
    elif isinstance(n, ast.Delete):
        tg = n.targets
    out = []
    for t in tg:
        for x in ast.walk(t):
            if isinstance(x, ast.Name) and isinstance(x.ctx, (ast.Store, ast.Del)):
                out.append(x.id)
    return out


def regen_guard(g):
    """(polarity, kind-argument expr) if g is a test of self._should_regenerate(k)."""
    if g.kind != 'if':
        return None
    e = g.expr
    if isinstance(e, ast.Call) and isinstance(e.func, ast.Attribute) and e.func.attr == REGEN and len(e.args) == 1:
        return (g.pol, e.args[0])
    return None


def prov_is_tmp(prov):
    return 'TMP' in prov and all(t in TMP_OK or t.startswith('const:') for t in prov)


def kindflag(run, p, rid='C10-KINDFLAG'):
    from ..pyeval import Interp, Obj, Unsupported, Raised
    run.rule(rid, 'whether a reference of some kind is rewritten is what was last said about that kind: _should_regenerate, evaluated '
                  'over the flag tables set_regeneration can leave (nothing, all kinds on / off, one kind on / off, and a kind '
                  'switched off after all kinds were switched on, or on after all were switched off) and three kinds, answers the '
                  'flag of the kind itself when there is one - False included - and the flag for all kinds otherwise; never True '
                  'when both are absent.  A reference is overwritten instead of compared exactly when this answers True')
    rt = p.cls('ReferenceTest')
    f = rt.methods.get(REGEN)
    if f is None:
        raise AnalysisError('ReferenceTest._should_regenerate vanished')
    tables_ = [{}, {None: True}, {None: False}, {'csv': True}, {'csv': False}, {'csv': False, None: True}, {'csv': True, None: False},
               {'text': True, None: False}, {'text': False, 'csv': True, None: True}, {'csv': None, None: True}]
    n = 0
    for tb in tables_:
        for kind in ('csv', 'text', 'graph'):
            o = Obj(rt)
            o.attrs['regenerate'] = dict(tb)
            I = Interp(p)
            try:
                got = I.call(f, [kind], {}, selfobj=o)
            except Unsupported as e:
                raise AnalysisError('_should_regenerate is not evaluable: %s' % e)
            except Raised as e:
                got = 'raises %s' % e
            want = tb[kind] if kind in tb else tb.get(None, False)
            n += 1
            run.ob(rid, 'flags=%r,kind=%s' % (sorted(tb.items(), key=repr), kind), (not isinstance(got, str)) and bool(got) == bool(want),
                   'flags %r, kind %r: answers %r, the flags say %r' % (tb, kind, got, bool(want)), fn=f)
    run.floor(rid, n, 30)


def check(run):
    p = run.prog
    methods = assertion_methods(p)
    if len(methods) < 10:
        raise AnalysisError('ReferenceTest has %d assert* methods; 10 confirmed on the pinned tree' % len(methods))
    rt = p.cls('ReferenceTest')
    if p.lookup_method(rt.qn, REGEN) is None:
        raise AnalysisError('ReferenceTest._should_regenerate vanished')
    E = Effects(p)

    run.rule('C10-GUARD', 'every file-system effect whose path derives from _resolve_reference_path(s) is reached only under '
                          'the true arm of self._should_regenerate(.) on every call chain from an assertion method')
    run.rule('C10-NOWRITE', 'every effect reached on the false arm (normal mode) writes under self.tmp_dir only: its path '
                            'has provenance TMP with relative-safe components, never the reference, a caller path or an unclassifiable expression')
    run.rule('C10-KINDFWD', 'the regeneration decision and the reference location are taken for the assertion\'s own `kind` '
                            'parameter (wrappers forward kind=kind)')
    n_eff = 0
    for m in methods:
        effs, _ = E.summary(m, rt.qn)
        has_regen = False
        for e in effs:
            n_eff += 1
            rgs = [regen_guard(g) for g in e.guards]
            rgs = [x for x in rgs if x]
            pos = [x for x in rgs if x[0]]
            neg = [x for x in rgs if not x[0]]
            site = '%s::%s::%s(%s)%s' % (m.rel, m.short, e.kind, ','.join(sorted(e.prov)),
                                        '@' + '>'.join(e.via) if e.via else '')
            if 'REF' in e.prov:
                has_regen = has_regen or bool(pos)
                run.ob('C10-GUARD', site, bool(pos) and not neg,
                       'reference write %s' % e.describe(), fn=m, node=e.node,
                       detail={'guards': [g.text() for g in e.guards], 'via': list(e.via)})
            elif pos:
                # regeneration arm writing elsewhere (e.g. nothing today): allowed only under TMP
                run.ob('C10-NOWRITE', site, prov_is_tmp(e.prov) or e.prov <= {'REF'},
                       'regeneration-arm effect %s' % e.describe(), fn=m, node=e.node)
            else:
                run.ob('C10-NOWRITE', site, prov_is_tmp(e.prov),
                       'normal-mode effect %s' % e.describe(), fn=m, node=e.node,
                       detail={'provenance': sorted(e.prov), 'via': list(e.via)})
        # KINDFWD
        if 'kind' in m.params:
            bad = []
            seen_k = 0
            for e in effs:
                for g in e.guards:
                    rg = regen_guard(g)
                    if rg:
                        seen_k += 1
                        if not (isinstance(rg[1], ast.Name) and rg[1].id == 'kind'):
                            bad.append(('regeneration decided for %s' % ast.unparse(rg[1]), e.node))
            for n in p.own_nodes(m):
                if isinstance(n, ast.Call) and isinstance(n.func, ast.Attribute) and \
                        isinstance(n.func.value, ast.Name) and n.func.value.id == 'self':
                    nm = n.func.attr
                    karg = None
                    if nm == REGEN and n.args:
                        karg = n.args[0]
                    elif nm in ('_resolve_reference_path', '_resolve_reference_paths') or nm.startswith('assert'):
                        for k in n.keywords:
                            if k.arg == 'kind':
                                karg = k.value
                        if karg is None and nm.startswith('_resolve') and len(n.args) > 1:
                            karg = n.args[1]
                        if karg is None:
                            tgt = p.lookup_method(rt.qn, nm)
                            if tgt is not None and 'kind' in tgt.params:
                                bad.append(('%s called without the kind' % nm, n))
                            continue
                    else:
                        continue
                    seen_k += 1
                    if not (isinstance(karg, ast.Name) and karg.id == 'kind'):
                        bad.append(('%s receives %s instead of kind' % (nm, ast.unparse(karg)), n))
            # the parameter itself must still be the caller's label when it is used: the statements that rebind it are
            # evaluated for sample labels; only the documented alias (parquet filed under csv, in the on-disk DataFrame
            # assertions) may change a label
            rebinders = []
            for st in m.node.body:
                if any('kind' in stored_names(x) for x in ast.walk(st) if isinstance(x, ast.stmt)):
                    rebinders.append(st)
            if rebinders:
                from ..pyeval import Interp, Unsupported
                alias_ok = m.name in KIND_ALIAS_METHODS
                for sample in ('parquet', 'csv', 'table', 'graph', None):
                    I = Interp(p)
                    env = {q: None for q in m.params}
                    env['kind'] = sample
                    try:
                        for st in rebinders:
                            I.stmt(st, env, m.mod)
                    except Unsupported as e:
                        raise AnalysisError('%s: rebinding of kind not evaluable: %s' % (m.short, e))
                    seen_k += 1
                    want_k = 'csv' if (alias_ok and sample == 'parquet') else sample
                    if env['kind'] != want_k:
                        bad.append(('the kind label %r is rewritten to %r before it is used' % (sample, env['kind']), rebinders[0]))
                if alias_ok:
                    run.note('C10-KINDFWD', 'documented alias kept in %s: %s' % (m.short, KIND_ALIAS_METHODS[m.name]), fn=m, node=rebinders[0])
            dd = {}
            for msg, node in bad:
                dd[msg] = node
            if not dd:
                run.ob('C10-KINDFWD', '%s::%s::kind' % (m.rel, m.short), True,
                       'all %d uses of the kind are the method\'s own parameter' % seen_k, fn=m)
            for msg, node in sorted(dd.items()):
                run.ob('C10-KINDFWD', '%s::%s::kind' % (m.rel, m.short), False,
                       '%s: %s' % (m.short, msg), fn=m, node=node)
    run.floor('C10-GUARD', sum(1 for o in run.obs if o.rule == 'C10-GUARD'), 8)
    run.floor('C10-NOWRITE', sum(1 for o in run.obs if o.rule == 'C10-NOWRITE'), 20)
    run.floor('C10-KINDFWD', sum(1 for o in run.obs if o.rule == 'C10-KINDFWD'), 9)

    run.attempt(whosets, run, p, rt)
    run.attempt(flags, run, p)
    run.attempt(kindflag, run, p)
    from .c04 import sameenc
    run.attempt(sameenc, run, p, p.cls('FilesComparison'), 'C10-SAMEENC')
    run.rules['C10-SAMEENC'] += ' (a reference just regenerated from the actual file must compare equal to it)'
    run.attempt(rw, run, p, E, rt)
    run.attempt(verbatim, run, p, rt)
    from .c04 import split
    run.attempt(split, run, p, p.cls('FilesComparison'))
    run.rules['C10-SPLIT'] = run.rules.pop('C04-SPLIT') + ' (a reference regenerated from a string must split back into the lines the string splits into)'
    for o in run.obs:
        if o.rule == 'C04-SPLIT':
            o.rule = 'C10-SPLIT'
    run.floors = [(('C10-SPLIT' if r == 'C04-SPLIT' else r), c, m) for r, c, m in run.floors]
    run.attempt(ief.run_ief, run, 'C10', methods, triage=triage.IEF)
    run.floor('C10-IEF', run.units.get('ief_functions_checked', 0), 60)
    run.assume('user callbacks (preprocess, condition, csv_read_fn, a custom writer/loader) are effect-free')
    run.trust('os/shutil/open/pandas write primitives are exactly those listed in sa/effects.py')


def _other_objects_attribute(p, rt, f, tgt):
    """the attribute called `regenerate` that is stored belongs to an object of a class that has nothing to do with ReferenceTest
    (a record of command-line switches with a field of the same name)"""
    x = tgt if isinstance(tgt, ast.Attribute) else None
    if x is None or not isinstance(x.value, ast.Name):
        return False
    family = set(p.mro(rt.qn)) | set(p.subclasses(rt.qn)) | {rt.qn}

    def unrelated(cq):
        return cq in p.classes and cq not in family and not (set(p.mro(cq)) & family)
    nm = x.value.id
    if nm in ('self', 'cls') and f.cls is not None and f.posparams[:1] == [nm]:
        return unrelated(f.cls.qn)
    ks = p.local_types(f).get(nm)
    if ks and all(unrelated(k) for k in ks):
        return True
    return False


def whosets(run, p, rt):
    run.rule('C10-WHOSETS', 'the regeneration table is stored into only by set_regeneration, and set_regeneration is called only '
                            'from functions that read the command line (argv / pytest getoption)')
    stores = []
    for f in p.funcs.values():
        for n in p.own_nodes(f):
            tgt = None
            if isinstance(n, (ast.Assign, ast.AugAssign, ast.AnnAssign, ast.Delete)):
                tgts = n.targets if isinstance(n, (ast.Assign, ast.Delete)) else [n.target]
                for t in tgts:
                    for x in ast.walk(t):
                        if isinstance(x, ast.Attribute) and x.attr == 'regenerate' and \
                                isinstance(x.ctx, (ast.Store, ast.Del, ast.Load)):
                            # attribute store, or subscript store through it
                            if isinstance(x.ctx, (ast.Store, ast.Del)) or isinstance(t, ast.Subscript):
                                tgt = x
            if isinstance(n, ast.Call) and isinstance(n.func, ast.Attribute) and \
                    n.func.attr in ('update', 'clear', 'pop', 'setdefault', 'popitem', '__setitem__') and \
                    isinstance(n.func.value, ast.Attribute) and n.func.value.attr == 'regenerate':
                tgt = n.func.value
            if isinstance(n, ast.Call) and isinstance(n.func, ast.Name) and n.func.id == 'setattr' and len(n.args) >= 2 \
                    and isinstance(n.args[1], ast.Constant) and n.args[1].value == 'regenerate':
                tgt = n
            if tgt is not None and not _other_objects_attribute(p, rt, f, tgt):
                stores.append((f, n))
    # class-level assignments other than the initial empty table
    for c in p.classes.values():
        for b in c.node.body:
            if isinstance(b, ast.Assign) and any(isinstance(t, ast.Name) and t.id == 'regenerate' for t in b.targets):
                ok = isinstance(b.value, ast.Dict) and not b.value.keys
                run.ob('C10-WHOSETS', '%s::%s::class-attribute' % (c.mod.rel, c.name), ok,
                       'class-level regenerate table starts empty' if ok else 'class-level regenerate table is pre-populated: %s' % norm(b),
                       rel=c.mod.rel, line=b.lineno, nontrivial=False)
    for f, n in stores:
        ok = f.name == 'set_regeneration'
        run.ob('C10-WHOSETS', '%s::%s::store' % (f.rel, f.short), ok,
               'store into the regeneration table in %s' % f.short, fn=f, node=n)
        if ok and isinstance(n, ast.Assign):
            # exactly the named kind: the key is the kind parameter itself, the value the regenerate parameter
            for t in n.targets:
                if isinstance(t, ast.Subscript):
                    key_ok = isinstance(t.slice, ast.Name) and t.slice.id in f.params and t.slice.id == 'kind'
                    val_ok = isinstance(n.value, ast.Name) and n.value.id in f.params
                    run.ob('C10-WHOSETS', '%s::%s::key' % (f.rel, f.short), key_ok and val_ok,
                           '`%s`: the table is keyed by %s and set to %s' % (norm(n), norm(t.slice), norm(n.value)) +
                           ('' if key_ok else ' - not the kind as given, so another kind (or all kinds) can be switched on'), fn=f, node=n)
    callers = []
    for f in p.funcs.values():
        for n in p.own_nodes(f):
            if isinstance(n, ast.Call) and isinstance(n.func, ast.Attribute) and n.func.attr == 'set_regeneration':
                callers.append((f, n))
    def reads_cli(g):
        for x in p.own_nodes(g):
            if isinstance(x, ast.Name) and x.id == 'argv':
                return True
            if isinstance(x, ast.Call) and isinstance(x.func, ast.Attribute) and x.func.attr == 'getoption':
                return True
        return False

    def cli_context(f):
        # the function reads the command line itself, hands the job to a helper that does, or is a helper of functions that do
        if reads_cli(f):
            return True
        if any(reads_cli(g) for _c, ts, _k in p.calls(f) for g, _ctx in ts):
            return True
        users = [g for g in p.funcs.values() if g is not f and any(t is f for _c, ts, _k in p.calls(g) for t, _ctx in ts)]
        return bool(users) and all(reads_cli(g) for g in users)
    for f, n in callers:
        run.ob('C10-WHOSETS', '%s::%s::call:%s' % (f.rel, f.short, norm(n)), cli_context(f),
               '%s calls %s' % (f.short, norm(n)), fn=f, node=n)
    run.floor('C10-WHOSETS', len(stores), 1)
    for rel in ('tdda/referencetest/referencetestcase.py', 'tdda/referencetest/referencepytest.py'):
        if not any(f.rel == rel for f, _n in callers):
            raise AnalysisError('no call of set_regeneration left in %s: the command-line front end has changed shape' % rel)


def flags(run, p):
    from ..pyeval import Interp, Model, Unsupported, Raised
    run.rule('C10-FLAGS', 'regeneration is switched on exactly as the command line says, however it is spelled: over representative '
                          'argument lists (-W, bundled -W letters, --W, --write-all; -w / --w / --write with one or several, '
                          'comma-separated kinds; -wquiet / --wquiet; none of them; mixed with unittest options and the tagging '
                          'options) the unittest parser calls set_regeneration() for all kinds only for a write-all spelling and '
                          'set_regeneration(kind) exactly for the named kinds; the pytest fixture does the same for --write-all / '
                          '--write; every pytest option read is declared - decided by abstract execution of both parsers')
    f = p.fn('tdda.referencetest.referencetestcase._set_flags_from_argv')
    cases = [
        (['t.py'], []), (['t.py', '-v'], []), (['t.py', '-W'], [None]), (['t.py', '-1W'], [None]), (['t.py', '-W1'], [None]),
        (['t.py', '--W'], [None]), (['t.py', '--write-all'], [None]), (['t.py', '-v', '--write-all'], [None]),
        (['t.py', '--write', 'table'], ['table']), (['t.py', '--w', 'table,graph'], ['table', 'graph']),
        (['t.py', '-w', 'table', 'graph'], ['table', 'graph']), (['t.py', '--write', 'a,b', 'c'], ['a', 'b', 'c']),
        (['t.py', '--wquiet', '--write', 'table'], ['table']), (['t.py', '-wquiet', '--write-all'], [None]),
        (['t.py', '--tagged'], []), (['t.py', '-1'], []), (['t.py', 'TestX', '--write', 'table'], ['table']),
        (['t.py', '--write'], 'raise'),
        # the write-all letter followed (or preceded) by another single-dash argument of its own
        (['t.py', '-W', '-v'], [None]), (['t.py', '-v', '-W'], [None]), (['t.py', '-W', '-1'], [None]), (['t.py', '-1', '-W'], [None]),
        (['t.py', '-W', '-wquiet'], [None]), (['t.py', '-1', '-v'], []), (['t.py', '-W', '-q', 'TestX'], [None]),
    ]
    n = 0
    for argv, want in cases:
        I = Interp(p)
        calls = []

        def hook(m, args, kwargs, selfobj, calls=calls):
            if m.name == 'set_regeneration':
                kind = args[0] if args else kwargs.get('kind')
                val = args[1] if len(args) > 1 else kwargs.get('regenerate', True)
                calls.append((kind, val))
                return True, None
            if m.name == 'set_defaults':
                return True, None
            return False, None
        I.on_call = hook
        outcome = 'ok'
        try:
            I.call(f, [list(argv)])
        except Raised:
            outcome = 'raise'
        except Unsupported as e:
            raise AnalysisError('_set_flags_from_argv is not evaluable: %s' % e)
        n += 1
        if want == 'raise':
            ok = outcome == 'raise' or not calls        # nothing named: refusing or regenerating nothing both satisfy the property
        else:
            ok = outcome == 'ok' and sorted(calls, key=repr) == sorted(((k, True) for k in want), key=repr)
        run.ob('C10-FLAGS', 'unittest argv=%s' % ' '.join(argv[1:]), ok,
               '%s: %s (expected %s)' % (' '.join(argv), 'raises' if outcome == 'raise' else 'set_regeneration calls %s' % calls,
                                         'an error or no regeneration' if want == 'raise' else [(k, True) for k in want]), fn=f)
    # pytest
    r = p.fn('tdda.referencetest.referencepytest.ref')

    class Config(Model):
        def __init__(self, opts):
            self.opts = opts
            self.asked = []

        def getoption(self, name, default=None):
            self.asked.append(name)
            return self.opts.get(name, default)

    class Request(Model):
        def __init__(self, opts):
            self.config = Config(opts)
    pcases = [({}, []), ({'--write-all': True}, [None]), ({'--write': ['table']}, ['table']), ({'--write': ['a,b', 'c']}, ['a', 'b', 'c']),
              ({'--write-all': True, '--write': ['x']}, [None]), ({'--wquiet': True, '--write': ['t']}, ['t']), ({'--tagged': True}, [])]
    asked = set()
    for opts, want in pcases:
        I = Interp(p)
        calls = []

        def hook(m, args, kwargs, selfobj, calls=calls):
            if m.name == 'set_regeneration':
                calls.append((args[0] if args else kwargs.get('kind'), args[1] if len(args) > 1 else kwargs.get('regenerate', True)))
                return True, None
            if m.name in ('set_defaults',) or (m.name == '__init__' and m.cls is not None and m.cls.name == 'ReferenceTest'):
                return True, None
            return False, None
        I.on_call = hook
        req = Request(opts)
        try:
            I.call(r, [req])
        except Unsupported as e:
            raise AnalysisError('referencepytest.ref is not evaluable: %s' % e)
        asked |= set(req.config.asked)
        n += 1
        ok = sorted(calls, key=repr) == sorted(((k, True) for k in want), key=repr)
        run.ob('C10-FLAGS', 'pytest options=%s' % sorted(opts), ok,
               'pytest %s: set_regeneration calls %s (expected %s)' % (opts, calls, [(k, True) for k in want]), fn=r)
    # every option the fixtures read is declared by addoption (evaluated against a recording parser)
    ao = p.fn('tdda.referencetest.referencepytest.addoption')

    class Parser(Model):
        def __init__(self):
            self.names = []

        def addoption(self, *names, **kw):
            self.names += list(names)
    parser = Parser()
    try:
        Interp(p).call(ao, [parser])
    except (Unsupported, Raised) as e:
        raise AnalysisError('referencepytest.addoption is not evaluable: %s' % e)
    adds = set(parser.names)
    for opt in sorted(asked):
        n += 1
        run.ob('C10-FLAGS', 'pytest declares %s' % opt, opt in adds, 'option %s read by the fixture is %s by addoption' % (opt, 'declared' if opt in adds else 'NOT declared'),
               fn=ao, nontrivial=False)
    run.floor('C10-FLAGS', n, 25)


def open_calls(p, f):
    out = []
    for n in p.own_nodes(f):
        if isinstance(n, ast.Call) and isinstance(n.func, ast.Name) and n.func.id == 'open':
            mode = n.args[1] if len(n.args) > 1 else None
            enc = None
            for k in n.keywords:
                if k.arg == 'mode':
                    mode = k.value
                if k.arg == 'encoding':
                    enc = k.value
            out.append((n, mode, enc))
    return out


def open_calls_deep(p, f):
    """open() calls of f and of the helpers of its own class / module that it calls (a reader moved into read_bytes(path) ...)"""
    out = list(open_calls(p, f))
    for _c, ts, _k in p.calls(f):
        for g, _ctx in ts:
            if g is not f and g.mod is f.mod and (g.cls is f.cls or g.cls is None) and not g.name.startswith('check_'):
                out += open_calls(p, g)
    return out


def rw(run, p, E, rt):
    """Reference writer and reader agree per kind of result."""
    run.rule('C10-RW', 'per result kind the regeneration writer and the comparison reader agree: binary wb/rb; DataFrame '
                       'to_parquet/read_parquet chosen by the same extension test; text written with the encoding the reader assumes')
    # binary: _write_reference_result opens 'wb' when binary, check_binary_file opens expected 'rb'
    w = p.method('ReferenceTest', '_write_reference_result')
    oc = open_calls(p, w)
    modes = []
    encs = []
    for n, mode, enc in oc:
        ms = E._modes(mode, _mode_env(w, E), w)
        modes += ms
        encs.append(enc)
    # the writer may hand the job to a helper of its module
    for _c, ts, _k in p.calls(w):
        for g, _ctx in ts:
            if g.mod is w.mod and g is not w and g.cls is None:
                for n, mode, enc in open_calls(p, g):
                    ms = [m for m in E._modes(mode, _mode_env(g, E), g) if 'w' in m or 'a' in m]
                    if ms:
                        modes += ms
                        encs.append(enc)
                        oc = oc + [(n, mode, enc)]
    rb = p.method('FilesComparison', 'check_binary_file')
    rmodes = [m.value for n, m, e in open_calls_deep(p, rb) if isinstance(m, ast.Constant)]
    run.ob('C10-RW', '%s::%s::binary' % (w.rel, w.short), 'wb' in modes and rmodes and all(m == 'rb' for m in rmodes),
           'binary references: written with %s, read with %s' % (sorted(set(modes)), sorted(set(rmodes))), fn=w)
    # dataframe: extension test identical on both sides
    wd = p.method('PandasComparison', '_write_reference_dataframe')
    rd = p.method('PandasComparison', 'load_serialized_dataframe')

    from ..pyeval import Interp, Unsupported
    SAMPLES = ['r.parquet', 'R.PARQUET', 'r.Parquet', 'r.csv', 'r.parquet.csv', 'r.csv.parquet', 'r', 'r.parq', 'dir.parquet/r.txt']

    def uses_parquet(f, attr):
        """For each sample path: is the to_parquet / read_parquet call of f reached?  The guards of the call (including those
        implied by earlier early returns) are evaluated with the path parameter bound to the sample; locals that depend on
        the path only (ext = os.path.splitext(path)[1].lower()) and helper predicates are evaluated too."""
        gm = GuardMap(f.node)
        calls = [n for n in p.own_nodes(f) if isinstance(n, ast.Call) and isinstance(n.func, ast.Attribute) and n.func.attr == attr]
        if not calls:
            raise AnalysisError('%s no longer calls %s' % (f.short, attr))
        pathp = [q for q in f.posparams if q in ('path', 'ref_path', 'expected_path', 'csvpath')]
        if not pathp:
            raise AnalysisError('%s: path parameter not found' % f.short)
        out = []
        for sample in SAMPLES:
            I = Interp(p)
            env = {pathp[0]: sample}
            for st in f.node.body:
                if isinstance(st, ast.Assign) and len(st.targets) == 1 and isinstance(st.targets[0], ast.Name):
                    try:
                        env[st.targets[0].id] = I.expr(st.value, env, f.mod)
                    except Unsupported:
                        pass
            reached = False
            for c in calls:
                try:
                    ok = all(bool(I.expr(g.test, env, f.mod)) == bool(g.pol) for g in (gm.chain(c) or ()) if g.kind == 'if')
                except Unsupported as e:
                    raise AnalysisError('%s: guard of %s not evaluable: %s' % (f.short, attr, e))
                reached = reached or ok
            out.append(reached)
        return out
    wt = uses_parquet(wd, 'to_parquet')
    rdt = uses_parquet(rd, 'read_parquet')
    want = [s_.lower().endswith('.parquet') for s_ in SAMPLES]
    run.ob('C10-RW', '%s::%s::parquet' % (wd.rel, wd.short), wt == rdt == want,
           'DataFrame references over %d sample paths: written as parquet for %s, read as parquet for %s' % (
               len(SAMPLES), [s_ for s_, v in zip(SAMPLES, wt) if v], [s_ for s_, v in zip(SAMPLES, rdt) if v]), fn=wd)
    # text: encoding of writer vs reader
    readers = [p.method('FilesComparison', 'check_file'), p.method('FilesComparison', 'check_string_against_file')]
    txt_enc = [ast.unparse(e) if e is not None else None for (n, mode, e) in oc]
    rd_enc = []
    for r in readers:
        for n, mode, enc in open_calls_deep(p, r):
            rd_enc.append(ast.unparse(enc) if enc is not None else None)
    ok = all(e is not None for e in txt_enc) or all(e is None for e in rd_enc)
    run.ob('C10-RW', '%s::%s::text-encoding' % (w.rel, w.short), ok,
           'text references: writer open() encodings %s, reader open() encodings %s' % (txt_enc, rd_enc), fn=w,
           node=oc[0][0] if oc else None)
    # the encoding the readers assume, per reference extension: what the writer produces (UTF-8 under a UTF-8 locale; the locale
    # dependence itself is the recorded finding above) for every text extension; .pdf alone is read as iso-8859-1
    ge = p.fn('tdda.referencetest.utils.get_encoding')
    wrong = []
    for name in ('r.txt', 'r.csv', 'r.json', 'r.html', 'r.svg', 'r.ps', 'r.eps', 'r.xml', 'r.md', 'r', 'r.TXT', 'dir.pdf/r.txt', 'r.pdf'):
        try:
            got = Interp(p).call(ge, [name])
        except Unsupported as e:
            raise AnalysisError('get_encoding is not evaluable: %s' % e)
        want = 'iso-8859-1' if name.endswith('.pdf') else 'utf-8'
        if got != want:
            wrong.append((name, got))
    run.ob('C10-RW', '%s::%s::reader-encoding' % (ge.rel, ge.short), not wrong,
           'references are read as UTF-8 whatever their extension (.pdf aside)%s' % (
               '' if not wrong else ' - not %s, read as %s: a regenerated reference holding non-ASCII text no longer compares equal' % wrong[0]), fn=ge)
    run.floor('C10-RW', 4, 4)


def _mode_env(f, E=None):
    env = {}
    for n in ast.walk(f.node):
        if E is not None and isinstance(n, ast.Assign) and len(n.targets) == 1 and isinstance(n.targets[0], (ast.Tuple, ast.List)):
            cols = E._table_cells(n.value, f, len(n.targets[0].elts))      # (read_mode, write_mode) = MODES[bool(binary)]
            if cols is not None:
                for a, col in zip(n.targets[0].elts, cols):
                    if isinstance(a, ast.Name):
                        env['#modes:' + a.id] = sorted(set(col))
        if isinstance(n, ast.Assign) and len(n.targets) == 1 and isinstance(n.targets[0], ast.Name) \
                and isinstance(n.value, ast.IfExp) and all(isinstance(x, ast.Constant) for x in (n.value.body, n.value.orelse)):
            env['#modes:' + n.targets[0].id] = [n.value.body.value, n.value.orelse.value]
    return env


def verbatim(run, p, rt):
    from ..pyeval import Interp, Obj, Model, Unsupported, Raised, FakeFS, pure_sys
    run.rule('C10-VERBATIM', 'regeneration stores the actual result as it is: _write_reference_result, evaluated on an in-memory file '
                             'system, leaves in the reference file exactly the text or bytes it was given (unicode, CR/LF, no final '
                             'newline, empty), whatever the stripping options say; _write_reference_file stores what a read of the '
                             'actual file gives; nothing else is written')
    w = p.lookup_method(rt.qn, '_write_reference_result')
    f = p.lookup_method(rt.qn, '_write_reference_file')
    texts = ['alpha\nbeta\n', 'no final newline', '', 'caf\u00e9 \u2192\n', '  padded  \n\n', 'cr\r\nlf\n']
    blobs = [b'', b'\x00\xff\r\n\x1a', b'abc']
    bad = []
    n = 0

    def evaluate(fn, args, kw, files):
        fs = FakeFS(files)
        I = Interp(p)

        class FileCmp(Model):
            # filecmp as the library has it: shallow (the default) trusts equal size and time stamp
            def cmp(self, a, b, shallow=True):
                x, y = fs.files[a], fs.files[b]
                return len(x) == len(y) if shallow else x == y
        I.extra_names.update({'open': fs.open, 'os': fs.os(), 'sys': pure_sys(), 'filecmp': FileCmp()})
        o = Obj(rt)
        o.attrs.update(verbose=False, print_fn=None)
        try:
            I.call(fn, args, kw, selfobj=o)
        except Raised as e:
            return fs, 'raises %s' % e
        except Unsupported as e:
            raise AnalysisError('%s is not evaluable: %s' % (fn.short, e))
        except TypeError as e:
            return fs, 'raises TypeError (%s): text handed to a binary file or bytes to a text file' % e
        return fs, None
    for content in texts + blobs:
        binary = isinstance(content, bytes)
        for strip in (False, True):
            fs, err = evaluate(w, [content, '/ref/r.out'], {'binary': binary, 'lstrip': strip, 'rstrip': strip}, {})
            n += 1
            if err or fs.written != {'/ref/r.out': content}:
                bad.append(('result %r (binary=%s, strip=%s)' % (content, binary, strip), err or fs.written))
    run.ob('C10-VERBATIM', '%s::%s' % (w.rel, w.short), not bad,
           '_write_reference_result over %d results%s' % (n, '' if not bad else ': %s gives %r' % bad[0]), fn=w)
    bad2 = []
    for content in texts + blobs:
        binary = isinstance(content, bytes)
        fs, err = evaluate(f, ['/w/actual.out', '/ref/r.out'], {'binary': binary}, {'/w/actual.out': content})
        n += 1
        want = content if binary else content.replace('\r\n', '\n').replace('\r', '\n')       # what a text-mode read gives
        if err or fs.written != {'/ref/r.out': want}:
            bad2.append(('actual file %r (binary=%s)' % (content, binary), err or fs.written))
    # a stale reference is replaced whatever it holds: same length, same time stamp, different content
    for content, stale in (('value 1234\n', 'value 5678\n'), (b'\x00\x01\x02', b'\x00\x09\x02'), ('same\n', 'same\n')):
        binary = isinstance(content, bytes)
        fs, err = evaluate(f, ['/w/actual.out', '/ref/r.out'], {'binary': binary}, {'/w/actual.out': content, '/ref/r.out': stale})
        n += 1
        if err or fs.files.get('/ref/r.out') != content:
            bad2.append(('actual file %r over a stale reference %r of the same size' % (content, stale), err or fs.files.get('/ref/r.out')))
    run.ob('C10-VERBATIM', '%s::%s' % (f.rel, f.short), not bad2,
           '_write_reference_file stores what it read%s' % ('' if not bad2 else ': %s gives %r' % bad2[0]), fn=f)
    run.floor('C10-VERBATIM', n, 20)
