"""C10 - references are rewritten only on request, and a regenerated reference passes."""
from .. import ief, triage


def assertion_methods(p):
    c = p.cls('ReferenceTest')
    return [f for n, f in sorted(c.methods.items()) if n.startswith('assert')]


def check(run):
    p = run.prog
    roots = assertion_methods(p)
    ief.run_ief(run, 'C10', roots, triage=triage.IEF)
    run.floor('C10-IEF', run.units['ief_functions_checked'], 60)
