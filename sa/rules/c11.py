"""C11 - gentest: for a repeatable command the generated test exists, compiles and passes."""
import ast
import re

from .. import ief, triage
from ..effects import Effects
from ..flow import GuardMap, Walker, World
from ..model import AnalysisError, norm
from ..pyeval import Interp, Unsupported, SAFE_ATTR_CALLS, Obj, Raised, pure_os
from .common import names_in, dep_closure

ROOTS = ['gentest.gentest', 'gentest.gentest_wrapper']
GT = 'tdda.referencetest.gentest.'


def check(run):
    p = run.prog
    roots = [p.fn(r) for r in ROOTS]
    run.attempt(ief.run_ief, run, 'C11', roots, triage=triage.IEF, noreturn=('self.fail',))
    run.floor('C11-IEF', run.units.get('ief_functions_checked', 0), 100)
    run.attempt(exc, run, p)
    from . import gentest_script
    run.attempt(gentest_script.run_rule, run, p, 'C11')
    run.attempt(template, run, p, 'C11')
    run.attempt(flagkw, run, p)
    run.attempt(refmap, run, p)
    run.attempt(effects, run, p)
    run.attempt(mustemit, run, p, 'C11-MUSTEMIT')
    run.attempt(refdir, run, p)
    run.attempt(joinrepr, run, p)
    run.attempt(attrs, run, p)
    run.attempt(snapshot, run, p)
    run.attempt(encfallback, run, p)
    run.attempt(globs, run, p)
    run.attempt(specifics, run, p)
    run.attempt(mkdirsafe, run, p)
    from .c04 import split
    run.attempt(split, run, p, p.cls('FilesComparison'))
    run.rules['C11-SPLIT'] = run.rules.pop('C04-SPLIT') + (' (the generated stdout/stderr tests compare the captured output, a raw string that '
                                                           'keeps its carriage returns, with a reference read in text mode: only str.splitlines treats \\r\\n, \\r and \\n alike)')
    for o in run.obs:
        if o.rule == 'C04-SPLIT':
            o.rule = 'C11-SPLIT'
    run.floors = [(('C11-SPLIT' if r == 'C04-SPLIT' else r), c, m) for r, c, m in run.floors]
    run.assume('file names of scripts and encodings are made of characters that need no escaping in Python source')
    run.trust('repr() of a str is a valid Python expression denoting it; os.path functions are pure')


def backed(run, rid, key, ok, msg, backing, **kw):
    """An obligation decided from the shape of the code, backed by one decided by evaluation: when the shape is not the one the
    structural rule knows, the evaluation rule decides alone (a note records it) - a violation needs the evaluation to fail too,
    or the structural rule to recognise a wrong shape while the evaluation grid happens not to reach it."""
    if ok or not all(o.ok for o in run.obs if o.rule == backing) or not any(o.rule == backing for o in run.obs):
        run.ob(rid, key, ok, msg, **kw)
    else:
        run.note(rid, 'shape not recognised, decided by %s alone: %s' % (backing, msg[:160]), fn=kw.get('fn'), node=kw.get('node'))


def refmap(run, p):
    """reference copies of files that share a base name: where they are stored is where the generated test will look"""
    from ..pyeval import Obj, Model, FakeFS, Raised
    import posixpath
    run.rule('C11-REFMAP', 'copy_reference_files, evaluated for runs 1..3 on output files that share a base name (in different '
                           'directories, differing in case only) with an in-memory file system and a recording copy: every file is copied, '
                           'no two to the same place, and the place recorded for the generated test (ref_map, else refdir/<name>) is '
                           'the run-1 copy - under the reference directory itself, not a later run\'s subdirectory that is removed afterwards')
    c = p.cls('TestGenerator')
    f = c.methods['copy_reference_files']
    files = ['/w/job/north/summary.csv', '/w/job/south/summary.csv', '/w/job/east/Summary.CSV', '/w/job/out.txt', '/w/job/a/stdout']
    o = Obj(c)
    o.attrs.update(cwd='/w/job', refdir='/w/job/ref/cmd', ref_map={}, reference_files={r: list(files) for r in (1, 2, 3)}, verbose=False)
    copies = {1: [], 2: [], 3: []}
    fs = FakeFS({q: 'x' for q in files})

    class Shutil(Model):
        pass
    sh = Shutil()
    n = 0
    probs = []
    for r in (1, 2, 3):
        def copyfile(src, dst, r=r):
            copies[r].append((src, dst))
        sh.copyfile = copyfile
        sh.copy = copyfile
        sh.copy2 = copyfile
        I = Interp(p)
        I.extra_names.update({'os': fs.os(), 'shutil': sh, 'print': _quiet})
        try:
            I.call(f, [r], selfobj=o)
        except Raised as e:
            probs.append('run %d raises %s' % (r, e))
        except Unsupported as e:
            raise AnalysisError('copy_reference_files is not evaluable: %s' % e)
        n += 1
        dsts = [d.lower() for _s, d in copies[r]]
        if sorted(s_ for s_, _d in copies[r]) != sorted(files):
            probs.append('run %d copies %s' % (r, sorted(s_ for s_, _d in copies[r])))
        if len(set(dsts)) != len(dsts):
            probs.append('run %d copies two files to the same place: %s' % (r, sorted(dsts)))
        want_dir = '/w/job/ref/cmd' if r == 1 else '/w/job/ref/cmd/%d' % r
        if any(posixpath.dirname(d) != want_dir for _s, d in copies[r]):
            probs.append('run %d copies outside %s: %s' % (r, want_dir, [d for _s, d in copies[r] if posixpath.dirname(d) != want_dir][:1]))
    first = dict(copies[1])
    for q in files:
        recorded = o.attrs['ref_map'].get(q, '/w/job/ref/cmd/' + posixpath.basename(q))
        if first.get(q) is not None and recorded != first[q]:
            probs.append('the test for %s will read %s, the run-1 copy is %s' % (q, recorded, first[q]))
    run.ob('C11-REFMAP', '%s::%s' % (f.rel, f.short), not probs,
           'five output files, three of them called summary.csv up to case, one called stdout: %s' % ('; '.join(probs[:2]) or
                                                                                                     'each run-1 copy is where the test will look'), fn=f)
    run.floor('C11-REFMAP', n, 3)


def _quiet(*a, **k):
    return None


_quiet._pyeval_model = True


def flagkw(run, p):
    """every option of `tdda gentest` reaches gentest() under a parameter name it has"""
    import argparse
    from ..pyeval import Raised
    run.rule('C11-FLAGKW', 'every command-line option of tdda gentest can be used: gentest_params, evaluated with the real argparse on '
                           'each option and on all of them together, hands gentest() only keyword arguments it accepts, with the value '
                           'given (an option passed on under a name gentest() does not have is a TypeError before anything runs)')
    f = p.fn(GT + 'gentest_params')
    g = p.fn(GT + 'gentest')
    accepted = set(g.params)
    cases = [(['-m', '7'], 7), (['--max-files', '7'], 7), (['-r'], True), (['-n', '3'], 3), (['-n', '1'], 1), (['-O'], True), (['-E'], True),
             (['-Z'], True), (['-C'], True), ([], None), (['-m', '7', '-r', '-n', '3', '-O', '-E', '-Z', '-C'], None)]
    n = 0
    for opts, val in cases:
        I = Interp(p)
        I.safe_modules = {'argparse'}
        I.extra_names['argparse'] = argparse
        args = list(opts) + ['echo hi', 'test_x.py', 'out.txt']
        try:
            pos, kw = I.call(f, [args])
        except (Unsupported, Raised) as e:
            raise AnalysisError('gentest_params is not evaluable: %s' % e)
        n += 1
        extra = sorted(set(kw) - accepted)
        ok = not extra and list(pos) == ['echo hi', 'test_x.py', 'out.txt']
        if ok and val is not None:
            ok = val in kw.values() and len(kw) == 1
        run.ob('C11-FLAGKW', '%s::%s::%s' % (f.rel, f.short, ' '.join(opts) or 'no options'), ok,
               'tdda gentest %s ...: gentest() is called with %s%s' % (' '.join(opts), kw, '' if not extra else
                                                                      ' - it has no parameter %s (TypeError)' % ', '.join(extra)), fn=f)
    run.floor('C11-FLAGKW', n, 11)


# ---------------------------------------------------------------------------
def exc(run, p):
    run.rule('C11-EXC', 'every datetime construction from numbers found in the command\'s output sits inside a try that catches ValueError '
                        '(three numbers in a line are usually not a date)')
    n = 0
    for f in p.funcs.values():
        if f.mod.name != 'tdda.referencetest.gentest':
            continue
        gm = None
        for x in p.own_nodes(f):
            if isinstance(x, ast.Call) and norm(x.func) in ('datetime.datetime', 'datetime.date') and x.args and \
                    not all(isinstance(a, ast.Constant) for a in x.args):
                # only numbers parsed out of text (regex groups, month-name lookups) can fail to be a date
                srcs = set()
                for a in x.args:
                    srcs |= names_in(a)
                parsed = False
                for s2 in ast.walk(f.node):
                    if isinstance(s2, ast.Assign) and any(nm in {y.id for t in s2.targets for y in ast.walk(t) if isinstance(y, ast.Name)} for nm in srcs) \
                            and ('.group(' in ast.unparse(s2.value) or 'MONTH_MAP' in ast.unparse(s2.value)):
                        parsed = True
                if srcs and srcs <= set(f.params) and all(isinstance(a, ast.Name) for a in x.args):
                    parsed = True          # a helper that builds a date from numbers it is handed
                if not parsed:
                    continue
                n += 1
                gm = gm or GuardMap(f.node)
                ok = False
                for g in gm.chain(x) or ():
                    if g.kind == 'try':
                        ok = ok or any(h.type is None or 'ValueError' in ast.unparse(h.type) or norm(h.type) == 'Exception'
                                       for h in g.test.handlers)
                run.ob('C11-EXC', '%s::%s::%s' % (f.rel, f.short, norm(x)[:40]), ok,
                       '%s in %s %s' % (norm(x)[:40], f.short, 'is guarded' if ok else 'raises ValueError for numbers that are not a date (e.g. "version 1.2.0 build 15", "31/02/2020")'),
                       fn=f, node=x)
    run.floor('C11-EXC', n, 1)


# ---------------------------------------------------------------------------
def slot_contexts(tmpl):
    """{KEY: context} for %(KEY)s slots of the script header template."""
    out = {}
    doc = re.search(r'"""(.*?)"""', tmpl, re.S)
    for m in re.finditer(r'%\((\w+)\)([sd])', tmpl):
        key, spec = m.group(1), m.group(2)
        if spec == 'd':
            ctx = 'int'
        elif doc and doc.start() < m.start() < doc.end():
            ctx = 'docstring'
        else:
            before = tmpl[:m.start()]
            after = tmpl[m.end():]
            line_before = before.rsplit('\n', 1)[-1]
            line_after = after.split('\n', 1)[0]
            if re.search(r'[A-Za-z0-9_]$', line_before) or re.match(r'[A-Za-z0-9_]', line_after):
                ctx = 'identifier'
            elif line_before.strip() == '' and line_after.strip() == '':
                ctx = 'block'
            else:
                ctx = 'expression'
        out.setdefault(key, set()).add(ctx)
    return out


def is_sanitiser(e):
    """''.join(c if c.isalnum() else '_' for c in X) or a call to a function that does that."""
    if isinstance(e, ast.Call) and isinstance(e.func, ast.Attribute) and e.func.attr == 'join' and e.args and \
            isinstance(e.args[0], (ast.GeneratorExp, ast.ListComp)):
        elt = e.args[0].elt
        return isinstance(elt, ast.IfExp) and 'isalnum' in ast.unparse(elt.test) and isinstance(elt.orelse, ast.Constant)
    return False


def sanitising_function(f):
    return any(is_sanitiser(x) for x in ast.walk(f.node)) or 'sub(' in ast.unparse(f.node) and '[^' in ast.unparse(f.node)


def value_class(p, f, e, depth=0):
    """Class of a value written into generated source."""
    if isinstance(e, ast.Constant):
        return 'CONST'
    if isinstance(e, ast.Call):
        fn = e.func
        name = fn.attr if isinstance(fn, ast.Attribute) else getattr(fn, 'id', None)
        if name == 'repr':
            return 'PY_EXPR'
        if is_sanitiser(e):
            return 'IDENT'
        if name in ('upper', 'lower', 'title', 'strip') and isinstance(fn, ast.Attribute):
            return value_class(p, f, fn.value, depth)
        if name == 'replace' and isinstance(fn, ast.Attribute) and len(e.args) == 2 and isinstance(e.args[0], ast.Constant) \
                and e.args[0].value == '"""':
            inner = value_class(p, f, fn.value, depth)
            return 'DOC_SAFE' if inner in ('REPR_TEXT', 'CONST', 'DOC_SAFE') else inner
        if name == 'basename':
            inner = e.args[0] if e.args else None
            if inner is not None and 'script' in ast.unparse(inner) and '[' not in ast.unparse(inner):
                return 'FILENAME'
            return 'RAW'
        if name in ('quote_raw', 'as_join_repr'):
            return 'PY_EXPR'
        ts, kind = p.resolve_call(f, e, f.cls.qn if f.cls else None)
        if kind == 'resolved' and ts and depth < 2:
            g = ts[0][0]
            if sanitising_function(g):
                return 'IDENT'
            rets = [r.value for r in ast.walk(g.node) if isinstance(r, ast.Return) and r.value is not None]
            cls = {text_class(p, g, r, depth + 1) for r in rets}
            if cls <= {'REPR_TEXT', 'CONST'}:
                return 'REPR_TEXT' if 'REPR_TEXT' in cls else 'CONST'
            return 'BLOCK'
        return 'RAW'
    if isinstance(e, ast.Name):
        return 'BLOCK'
    if isinstance(e, ast.Attribute):
        return 'INT' if e.attr in ('exit_code',) else 'RAW'
    return 'RAW'


def text_class(p, f, e, depth):
    """REPR_TEXT if e is text assembled only from constants and repr()/sanitised pieces."""
    if isinstance(e, ast.Constant):
        return 'CONST'
    if isinstance(e, ast.BinOp) and isinstance(e.op, (ast.Add, ast.Mod)):
        parts = [e.left] + (list(e.right.elts) if isinstance(e.op, ast.Mod) and isinstance(e.right, ast.Tuple) else [e.right])
        cls = {text_class(p, f, x, depth) for x in parts}
        return 'REPR_TEXT' if cls <= {'CONST', 'REPR_TEXT'} else 'RAW'
    if isinstance(e, ast.IfExp):
        cls = {text_class(p, f, e.body, depth), text_class(p, f, e.orelse, depth)}
        return 'REPR_TEXT' if cls <= {'CONST', 'REPR_TEXT'} else 'RAW'
    if isinstance(e, ast.Call):
        name = e.func.attr if isinstance(e.func, ast.Attribute) else getattr(e.func, 'id', None)
        if name == 'repr':
            return 'REPR_TEXT'
        if name == 'join' and e.args:
            a = e.args[0]
            if isinstance(a, (ast.GeneratorExp, ast.ListComp)):
                return text_class(p, f, a.elt, depth)
            if isinstance(a, ast.BinOp):
                return text_class(p, f, a, depth)
            if isinstance(a, ast.Name):
                return text_class(p, f, a, depth)
        if name == 'strip' and isinstance(e.func, ast.Attribute):
            return text_class(p, f, e.func.value, depth)
        return 'RAW'
    if isinstance(e, ast.Name):
        vals = [s.value for s in ast.walk(f.node) if isinstance(s, ast.Assign) and any(norm(t) == e.id for t in s.targets)]
        app = [c.args[0] for c in ast.walk(f.node) if isinstance(c, ast.Call) and isinstance(c.func, ast.Attribute)
               and c.func.attr == 'append' and norm(c.func.value) == e.id and c.args]
        aug = [s.value for s in ast.walk(f.node) if isinstance(s, ast.AugAssign) and norm(s.target) == e.id]
        if not vals:
            return 'RAW'
        cls = {text_class(p, f, v, depth) if not isinstance(v, (ast.List, ast.Tuple)) else
               ('CONST' if all(isinstance(x, ast.Constant) for x in v.elts) else 'RAW') for v in vals + app + aug}
        return 'REPR_TEXT' if cls <= {'CONST', 'REPR_TEXT'} else 'RAW'
    if isinstance(e, ast.List) and all(isinstance(x, ast.Constant) for x in e.elts):
        return 'CONST'
    return 'RAW'


NEED = {'docstring': {'DOC_SAFE', 'FILENAME', 'CONST'}, 'identifier': {'IDENT', 'CONST'}, 'expression': {'PY_EXPR', 'CONST'},
        'block': {'BLOCK', 'CONST', 'PY_EXPR'}, 'int': {'INT', 'CONST'}}


def template(run, p, pid):
    rid = pid + '-TEMPLATE'
    run.rule(rid, 'every slot of the generated script is filled with text of the right class for its place in Python source: identifiers '
                  'are sanitised, expressions are repr()/quote_raw()/as_join_repr(), text inside the module docstring cannot end it or '
                  'form an invalid escape, test names come from the sanitising test_name()')
    bp = p.mod('tdda.referencetest.gentest_boilerplate')
    header = p.const(bp, 'HEADER')
    ctxs = slot_contexts(header)
    ws = p.method('TestGenerator', 'write_script')
    d = None
    for x in ast.walk(ws.node):
        if isinstance(x, ast.BinOp) and isinstance(x.op, ast.Mod) and norm(x.left) == 'HEADER' and isinstance(x.right, ast.Dict):
            d = x.right
    if d is None:
        raise AnalysisError('write_script no longer fills HEADER with a dict literal')
    given = {k.value: v for k, v in zip(d.keys, d.values) if isinstance(k, ast.Constant)}
    for key, cs in sorted(ctxs.items()):
        if key not in given:
            run.ob(rid, 'HEADER:%s' % key, False, 'slot %s of the header is never filled' % key, fn=ws, node=d)
            continue
        vc = value_class(p, ws, given[key])
        for c in sorted(cs):
            ok = vc in NEED[c]
            backed(run, rid, 'HEADER:%s' % key, ok,
                   'header slot %s is %s context and receives %s (%s)' % (key, c, norm(given[key])[:50], vc), pid + '-SCRIPT', fn=ws, node=given[key])
    # test_def slots: checked at its call sites in write_script
    n = 0
    from .c12 import test_def_sites
    for x, name, actual, _aclo, ref, _rclo in test_def_sites(p, ws):
        n += 1
        nc = 'CONST' if isinstance(name, ast.Constant) else _name_class(p, getattr(name, '_ctx', ws), name)
        backed(run, rid, 'test_def:%s:name' % norm(name)[:20], nc in ('CONST', 'IDENT'),
               'test method name %s is %s' % (norm(name), nc), pid + '-SCRIPT', fn=ws, node=x)
        for role, a in (('actual', actual), ('reference', ref)):
            ac = 'CONST' if isinstance(a, ast.Constant) else _name_class(p, getattr(a, '_ctx', ws), a)
            backed(run, rid, 'test_def:%s:%s' % (norm(name)[:20], role), ac in ('CONST', 'PY_EXPR'),
                   '%s argument %s is %s' % (role, norm(a), ac), pid + '-SCRIPT', fn=ws, node=x)
    td = p.fn(GT + 'test_def')
    for x in ast.walk(td.node):
        if isinstance(x, ast.BinOp) and isinstance(x.op, ast.Mod) and isinstance(x.left, ast.Constant) and isinstance(x.left.value, str) \
                and x.left.value.strip().startswith('%s,'):
            arg = x.right
            vc = 'PY_EXPR' if isinstance(arg, ast.Call) and getattr(arg.func, 'id', '') in ('quote_raw', 'repr') else \
                ('PY_EXPR' if isinstance(arg, ast.Name) and arg.id == 's' else 'RAW')
            backed(run, rid, 'test_def:list-item:%s' % norm(arg)[:20], vc == 'PY_EXPR', 'list item `%s` is written as %s' % (norm(x)[:40], vc), pid + '-SCRIPT', fn=td, node=x)
    qr = p.fn(GT + 'quote_raw')
    bad = []
    nq = 0
    bodies = ['abc', "it's", 'say "hi"', "both ' and \"", "a'''b\"c", "all ''' and \"\"\" here", 'back\\slash \\d+\\.', 'caf\u00e9 \u2192',
              '\\N{x} \\u12 \\x', "'", '"', "'''", '\"\"\"', '%s %d', '{0}']
    for body in bodies:
        for text in ('^' + body + '$', body + ' end'):
            try:
                out = Interp(p).call(qr, [text])
            except Unsupported as e:
                raise AnalysisError('quote_raw is not evaluable: %s' % e)
            nq += 1
            try:
                okq = ast.literal_eval(out) == text
            except (SyntaxError, ValueError):
                okq = False
            if not okq:
                bad.append((text, out))
    run.ob(rid, 'quote_raw', not bad, 'quote_raw(text) is a Python literal denoting the text, for %d patterns holding quotes of every kind, '
           'backslashes and escape-like sequences%s' % (nq, '' if not bad else '; not for %r, written as %s' % bad[0]), fn=qr)
    run.floor(rid, len(ctxs) + n, 12)


def _name_class(p, f, e):
    if isinstance(e, ast.Name):
        defs = [s for s in ast.walk(f.node) if isinstance(s, ast.Assign) and any(norm(t) == e.id for t in s.targets)
                and s.lineno < e.lineno]
        # the definition that reaches a use in straight-line code is the last one before it
        vals = [max(defs, key=lambda s: s.lineno).value] if defs else []
        cls = {value_class(p, f, v) for v in vals}
        if len(cls) == 1:
            return next(iter(cls))
        return 'RAW' if 'RAW' in cls or not cls else sorted(cls)[0]
    return value_class(p, f, e)


# ---------------------------------------------------------------------------
def effects(run, p):
    run.rule('C11-EFFECTS', 'every file-system write or delete that test generation performs targets the reference directory, a path under '
                            'it, or the script itself (the fresh mkdtemp directory under the system temp dir aside)')
    E = Effects(p, extra_ref_producers=('ref_path', 'stdout_path', 'stderr_path'), tmp_attrs=(),
                attr_tags={'refdir': 'REFDIR', 'script': 'SCRIPT'})
    c = p.cls('TestGenerator')
    effs, _ = E.summary(c.methods['__init__'], c.qn)
    ok_tags = {'REFDIR', 'REF', 'SCRIPT', 'BASENAME', 'RELSAFE', 'SYSTMP', 'INT'}
    for e in effs:
        good = bool(e.prov & {'REFDIR', 'REF', 'SCRIPT', 'SYSTMP'}) and all(t in ok_tags or t.startswith('const:') for t in e.prov)
        run.ob('C11-EFFECTS', '%s(%s)@%s' % (e.kind, ','.join(sorted(e.prov)), '>'.join(e.via)), good,
               e.describe()[:200], fn=e.fn, node=e.node, detail={'provenance': sorted(e.prov)})
    # module-level effects
    m = p.mod('tdda.referencetest.gentest')
    for s in m.tree.body:
        for x in ast.walk(s) if not isinstance(s, (ast.FunctionDef, ast.ClassDef)) else []:
            if isinstance(x, ast.Call) and norm(x.func) in ('tempfile.mkdtemp', 'os.mkdir', 'os.makedirs', 'open'):
                run.ob('C11-EFFECTS', 'module:%s' % norm(x)[:30], norm(x.func) == 'tempfile.mkdtemp',
                       'module-level effect %s' % norm(x)[:40], rel=m.rel, line=x.lineno, nontrivial=False)
    # no other primitive effect anywhere in the module outside the TestGenerator closure
    seen = p.reach([(c.methods['__init__'], c.qn)])
    reach = {q for q, _ in seen}
    for f in p.funcs.values():
        if f.mod.name != 'tdda.referencetest.gentest' or f.qn in reach:
            continue
        e2, _ = E.summary(f, f.cls.qn if f.cls else None)
        for e in e2:
            if not e.via:
                run.note('C11-EFFECTS', 'effect outside the generation path: %s' % e.describe()[:120], f, e.node)
    run.floor('C11-EFFECTS', len(effs), 9)


# ---------------------------------------------------------------------------
class _Emit(Walker):
    def init_state(self):
        return 0

    test_locals = frozenset()      # locals of the loop body every binding of which is a test_def(...) call

    def transfer(self, s, ws):
        n = 0
        for x in ast.walk(s) if isinstance(s, ast.Expr) else []:
            if isinstance(x, ast.Call) and getattr(x.func, 'id', '') == 'test_def':
                n += 1
            elif isinstance(x, ast.Call) and isinstance(x.func, ast.Attribute) and x.func.attr == 'write' and len(x.args) == 1 \
                    and isinstance(x.args[0], ast.Name) and x.args[0].id in self.test_locals:
                n += 1                 # the test text was computed into a local first
        if n:
            return [World(w.asg, w.atoms, w.weak, w.state + n) for w in ws]
        return ws


def mustemit(run, p, rid):
    run.rule(rid, 'in write_script every pass through the per-reference-file loop writes exactly one test (TextFile or BinaryFile); the '
                  'stdout test is written exactly when check_stdout, the stderr test exactly when check_stderr')
    ws = p.method('TestGenerator', 'write_script')
    loop = None
    for x in ast.walk(ws.node):
        if isinstance(x, ast.For) and any(isinstance(c, ast.Call) and getattr(c.func, 'id', '') == 'test_def' for c in ast.walk(x)):
            loop = x
    backing = 'C12-SCRIPT' if rid.startswith('C12') else 'C11-SCRIPT'
    if loop is None:
        if any(o.rule == backing for o in run.obs) and all(o.ok for o in run.obs if o.rule == backing):
            run.note(rid, 'write_script has no loop over reference files calling test_def itself: the shape rule does not apply, %s decides alone' % backing, fn=ws)
            run.floor(rid, 3, 3)
            return
        raise AnalysisError('write_script: loop over reference files not found')
    fake = ast.FunctionDef(name='_body', args=ast.arguments(posonlyargs=[], args=[], kwonlyargs=[], kw_defaults=[], defaults=[]),
                           body=loop.body, decorator_list=[], lineno=loop.lineno, col_offset=0)
    w = _Emit(fake, {'self', 'f', 'path', 'reference_files', 'r', 'actual_paths'})
    bound = {}
    for st in ast.walk(fake):
        if isinstance(st, ast.Assign):
            for t in st.targets:
                for nm in ([t] if isinstance(t, ast.Name) else [e for e in getattr(t, 'elts', []) if isinstance(e, ast.Name)]):
                    bound.setdefault(nm.id, []).append(st.value if isinstance(t, ast.Name) else None)
    w.test_locals = frozenset(k for k, vs in bound.items() if vs and all(isinstance(v, ast.Call) and getattr(v.func, 'id', '') == 'test_def' for v in vs))
    w.run()
    counts = set()
    for kind, node, wl in w.exits:
        for x in wl:
            if not x.weak:
                counts.add(x.state)
    run.ob(rid, 'write_script:per-file', counts == {1}, 'tests written per reference file on the paths of the loop body: %s' % sorted(counts), fn=ws, node=loop)
    gm = GuardMap(ws.node)
    for stream, flag, var in (('stdout', 'self.check_stdout', 'self.output'), ('stderr', 'self.check_stderr', 'self.error')):
        sites = _stream_test_sites(p, ws, stream)
        ok = len(sites) == 1
        if ok:
            call, actual = sites[0]
            ch = [g for g in gm.chain(call) or () if g.kind == 'if']
            ok = len(ch) == 1 and ch[0].pol and norm(ch[0].test) == flag and actual == var
        backed(run, rid, 'write_script:%s' % stream, ok, 'the %s test is written once, under exactly [%s], on %s' % (stream, flag, var),
               'C12-SCRIPT' if rid.startswith('C12') else 'C11-SCRIPT', fn=ws, node=sites[0][0] if sites else None)
    run.floor(rid, 3, 3)


def _stream_test_sites(p, ws, stream):
    """[(call in write_script, the expression text the test checks)] for the test of one captured stream: test_def(stream, actual, ...)
    called directly, or through a helper method that hands its own parameters on to an unconditional test_def."""
    out = []
    for x in p.own_nodes(ws):
        if not isinstance(x, ast.Call):
            continue
        if getattr(x.func, 'id', '') == 'test_def':
            if x.args and isinstance(x.args[0], ast.Constant) and x.args[0].value == stream and len(x.args) > 1 \
                    and isinstance(x.args[1], ast.Constant):
                out.append((x, x.args[1].value))
            continue
        for h, _ctx in [t for _c, ts, _k in p.calls(ws) if _c is x for t in ts]:
            if h.cls is None or h is ws:
                continue
            inner = [c for c in p.own_nodes(h) if isinstance(c, ast.Call) and getattr(c.func, 'id', '') == 'test_def' and len(c.args) > 1]
            if len(inner) != 1 or any(g.kind in ('if', 'loop', 'except') for g in GuardMap(h.node).chain(inner[0]) or ()):
                continue
            pos = list(h.posparams)[1:]
            bound = {}
            for i, a in enumerate(x.args):
                if i < len(pos):
                    bound[pos[i]] = a
            for k in x.keywords:
                if k.arg:
                    bound[k.arg] = k.value
            vals = []
            for a in inner[0].args[:2]:
                a = bound.get(a.id) if isinstance(a, ast.Name) else a
                vals.append(a.value if isinstance(a, ast.Constant) else None)
            if vals[0] == stream and vals[1] is not None:
                out.append((x, vals[1]))
    return out


# ---------------------------------------------------------------------------
def refdir(run, p):
    """two generated scripts in one directory never share a reference directory (generating the second would rewrite the first's
    reference files): ref_subdir evaluated on script names that differ only after the test_ prefix"""
    run.rule('C11-REFDIR', 'script names that differ map to different reference sub-directories: ref_subdir, evaluated on test_report.py, '
                           'test__report.py, test___report.py, test_report_.py, test_a_b.py, test_a__b.py, gives six different names, so '
                           'generating one test does not rewrite the reference files of another')
    c = p.cls('TestGenerator')
    f = c.methods.get('ref_subdir')
    if f is None:
        raise AnalysisError('TestGenerator.ref_subdir vanished')
    import posixpath
    names = ['test_report.py', 'test__report.py', 'test___report.py', 'test_report_.py', 'test_a_b.py', 'test_a__b.py']
    got = {}
    for nm in names:
        o = Obj(c)
        o.attrs.update(script='/w/job/' + nm, raw_script='/w/job/' + nm)
        I = Interp(p)
        I.extra_names['os'] = pure_os()
        try:
            got[nm] = I.call(f, [], selfobj=o)
        except (Unsupported, Raised) as e:
            raise AnalysisError('ref_subdir is not evaluable: %s' % e)
    clash = [(a, b) for i, a in enumerate(names) for b in names[i + 1:] if got[a] == got[b]]
    run.ob('C11-REFDIR', 'ref_subdir', not clash, 'reference sub-directories %s%s' % (
        [got[n] for n in names], '' if not clash else ': %s and %s share %r' % (clash[0][0], clash[0][1], got[clash[0][0]])), fn=f)
    run.floor('C11-REFDIR', len(names), 6)


def joinrepr(run, p):
    run.rule('C11-JOINREPR', 'the path expression as_join_repr writes into the script denotes the original path when evaluated with '
                             'self.cwd / self.refdir set as the generated class sets them (evaluated on a grid of path/cwd shapes)')
    import os.path as osp
    f = p.fn(GT + 'as_join_repr')
    I = Interp(p, consts={'TMPDIR': '/tmp/tmpXYZ', 'TERM_TMPDIR': '/tmp/tmpXYZ/'})
    extra = {'os.path.join': osp.join, 'os.path.isabs': osp.isabs, 'os.path.basename': osp.basename, 'os.path.split': osp.split,
             'os.path.abspath': osp.normpath, 'os.path.normpath': osp.normpath}
    saved = dict(SAFE_ATTR_CALLS)
    SAFE_ATTR_CALLS.update(extra)

    class _P:
        sep = '/'
    cwd = '/w/job'
    name = 'cmd'
    paths = ['/w/job/out.txt', '/w/job/sub/dir/out.txt', '/w/job_outputs/result.txt', '/w/jobs.txt', '/other/place/x.txt',
             '/w/job/ref/cmd/STDOUT', '/w/job/ref/cmd/out.txt', '/w/job/ref/other/out.txt', "/w/job/it's.txt", '/w/job/a b/c.txt']
    bad = []
    n = 0
    try:
        for path in paths:
            for c in (cwd, cwd + '/'):
                I.consts['os'] = None
                out = _call_with_os(I, f, [path, c, name])
                n += 1
                val = _eval_expr(out, {'cwd': cwd, 'refdir': cwd + '/ref/' + name, 'tmpdir': '/tmp/tmpXYZ'})
                if val != path:
                    bad.append((path, c, out, val))
    except Unsupported as e:
        raise AnalysisError('as_join_repr not interpretable: %s' % e)
    finally:
        SAFE_ATTR_CALLS.clear()
        SAFE_ATTR_CALLS.update(saved)
    run.ob('C11-JOINREPR', 'as_join_repr', not bad,
           '%d (path, cwd) shapes evaluated%s' % (n, '' if not bad else '; as_join_repr(%r, %r) = %s which denotes %r' % bad[0]), fn=f)
    run.floor('C11-JOINREPR', n, 16)


def _call_with_os(I, f, args):
    # os.path.sep is the only attribute of os that as_join_repr reads besides the functions whitelisted above
    orig = I.expr

    def expr(e, env, mod):
        if isinstance(e, ast.Attribute) and norm(e) == 'os.path.sep':
            return '/'
        return orig(e, env, mod)
    I.expr = expr
    try:
        return I.call(f, args)
    finally:
        I.expr = orig


def _eval_expr(src, attrs):
    """Value of the tiny expression language as_join_repr emits: a string literal or os.path.join(self.X, 'lit')."""
    import os.path as osp
    e = ast.parse(src, mode='eval').body
    if isinstance(e, ast.Constant):
        return e.value
    if isinstance(e, ast.Call) and norm(e.func) == 'os.path.join' and len(e.args) == 2 and isinstance(e.args[1], ast.Constant):
        a = e.args[0]
        key = a.attr if isinstance(a, ast.Attribute) else getattr(a, 'id', None)
        if key in attrs:
            return osp.join(attrs[key], e.args[1].value)
    return '<uninterpretable: %s>' % src


def attrs(run, p):
    run.rule('C11-ATTRS', 'where the generator reads an attribute by a name taken from a constant tuple (getattr(self, k)), every name in '
                          'the tuple is an attribute the class assigns')
    c = p.cls('TestGenerator')
    assigned = set(c.attrs_assigned)
    n = 0
    for f in c.methods.values():
        for loop in ast.walk(f.node):
            if isinstance(loop, ast.For) and isinstance(loop.target, ast.Name) and isinstance(loop.iter, (ast.Tuple, ast.List)) \
                    and all(isinstance(x, ast.Constant) and isinstance(x.value, str) for x in loop.iter.elts):
                k = loop.target.id
                uses = [x for x in ast.walk(loop) if isinstance(x, ast.Call) and getattr(x.func, 'id', '') == 'getattr' and len(x.args) >= 2
                        and norm(x.args[0]) == 'self' and norm(x.args[1]) == k and len(x.args) == 2]
                if not uses:
                    continue
                for lit in loop.iter.elts:
                    n += 1
                    run.ob('C11-ATTRS', '%s::%s::%s' % (f.rel, f.short, lit.value), lit.value in assigned,
                           'getattr(self, %r) in %s: the class %s' % (lit.value, f.short, 'assigns it' if lit.value in assigned else 'never assigns such an attribute (AttributeError)'),
                           fn=f, node=uses[0])
    run.floor('C11-ATTRS', n, 6)


def snapshot(run, p):
    run.rule('C11-SNAPSHOT', 'the time stored in the pre-run filesystem snapshot and the time later compared with it are the same kind of '
                             'timestamp (both ctime): a file is an output only if it changed after the snapshot')
    c = p.cls('TestGenerator')
    kinds = {}
    for f in c.methods.values():
        src = ast.unparse(f.node)
        if 'self.snapshot' not in src:
            continue
        for x in ast.walk(f.node):
            k = None
            if isinstance(x, ast.Attribute) and x.attr in ('st_ctime', 'st_mtime', 'st_atime', 'st_ctime_ns', 'st_mtime_ns'):
                k = x.attr.replace('st_', '').replace('_ns', '')
            if isinstance(x, ast.Call) and norm(x.func) in ('os.path.getmtime', 'os.path.getctime', 'os.path.getatime'):
                k = norm(x.func)[-5:]
            if k:
                kinds.setdefault(f.short, set()).add(k)
    allk = set().union(*kinds.values()) if kinds else set()
    run.ob('C11-SNAPSHOT', 'TestGenerator:snapshot', len(kinds) >= 2 and allk == {'ctime'},
           'timestamps used with self.snapshot: %s' % {k: sorted(v) for k, v in sorted(kinds.items())}, fn=c.methods['snapshot_filesystem'])
    run.floor('C11-SNAPSHOT', len(kinds), 2)


def encfallback(run, p):
    from ..mirror import blocks_of as mirror_blocks
    run.rule('C11-ENCODING', 'the generated assertion names the encoding the file was actually read with: in protected_readlines every '
                             'read that opens the file with a literal fallback encoding records that encoding on the FileType '
                             'object before it returns the lines (a store placed after the return never runs), and that attribute is '
                             'the one write_script emits as encoding=')
    f = p.fn('tdda.referencetest.utils.protected_readlines')
    ft = f.posparams[1] if len(f.posparams) > 1 else None
    if ft is None:
        raise AnalysisError('protected_readlines lost its filetype parameter')
    n = 0
    for w in p.own_nodes(f):
        if not isinstance(w, ast.With):
            continue
        enc = None
        for it in w.items:
            c = it.context_expr
            if isinstance(c, ast.Call) and getattr(c.func, 'id', '') == 'open':
                for k in c.keywords:
                    if k.arg == 'encoding' and isinstance(k.value, ast.Constant) and isinstance(k.value.value, str):
                        enc = k.value.value
        if enc is None:
            continue
        n += 1
        # walk the with-body and then the statements that follow the with in its block: the store must come before the
        # first return on that straight line
        seq = list(w.body)
        for b in mirror_blocks(f.node):
            if w in b:
                seq += b[b.index(w) + 1:]
        stored = False
        verdict = False
        for s in seq:
            if isinstance(s, ast.Assign) and any(norm(t) == '%s.encoding' % ft for t in s.targets) and \
                    isinstance(s.value, ast.Constant) and s.value.value == enc:
                stored = True
            if any(isinstance(x, ast.Return) for x in ast.walk(s)):
                verdict = stored
                break
        run.ob('C11-ENCODING', '%s::%s::open(encoding=%r)' % (f.rel, f.short, enc), bool(verdict),
               'fallback read with %r %s' % (enc, 'records the encoding before returning' if verdict else
                                             'returns without recording the encoding: the generated test will name the original guess'),
               fn=f, node=w)
    # the guess itself is made from the whole file: the loop that feeds the detector runs over the opened file (not a slice or a
    # sample of it) and stops early only when the detector says it is done
    nfeed = 0
    for g in p.funcs.values():
        if g.mod.name != 'tdda.referencetest.utils':
            continue
        opened = set()
        for x in p.own_nodes(g):
            if isinstance(x, ast.With):
                for it in x.items:
                    if isinstance(it.context_expr, ast.Call) and getattr(it.context_expr.func, 'id', '') == 'open' and isinstance(it.optional_vars, ast.Name):
                        opened.add(it.optional_vars.id)
            if isinstance(x, ast.Assign) and isinstance(x.value, ast.Call) and getattr(x.value.func, 'id', '') == 'open':
                opened |= {t.id for t in x.targets if isinstance(t, ast.Name)}
        for lp in p.own_nodes(g):
            if not isinstance(lp, (ast.For, ast.While)):
                continue
            feeds = [x for st in lp.body for x in ast.walk(st) if isinstance(x, ast.Call) and isinstance(x.func, ast.Attribute) and x.func.attr == 'feed']
            if not feeds:
                continue
            nfeed += 1
            det = norm(feeds[0].func.value)
            def _file(e):
                return (isinstance(e, ast.Call) and getattr(e.func, 'id', '') == 'open') or (isinstance(e, ast.Name) and e.id in opened)

            def _all_of(e):
                # the file, iter(file), file.readlines(), file.read().splitlines(...)
                if _file(e):
                    return True
                if isinstance(e, ast.Call) and getattr(e.func, 'id', '') in ('iter', 'enumerate') and len(e.args) == 1 and not e.keywords:
                    return _all_of(e.args[0])
                if isinstance(e, ast.Call) and isinstance(e.func, ast.Attribute) and e.func.attr == 'readlines' and not e.args:
                    return _file(e.func.value)
                if isinstance(e, ast.Call) and isinstance(e.func, ast.Attribute) and e.func.attr in ('splitlines', 'split'):
                    r_ = e.func.value
                    return isinstance(r_, ast.Call) and isinstance(r_.func, ast.Attribute) and r_.func.attr == 'read' and not r_.args and _file(r_.func.value)
                return False
            whole = isinstance(lp, ast.For) and _all_of(lp.iter)
            if isinstance(lp, ast.For) and not whole:
                # a truncation is named as such; any other iterable is not understood
                cut = any((isinstance(x, ast.Call) and (getattr(x.func, 'id', '') or getattr(x.func, 'attr', '')) in ('islice', 'zip', 'range', 'head', 'takewhile'))
                          or isinstance(x, ast.Slice) or (isinstance(x, ast.Call) and isinstance(x.func, ast.Attribute) and x.func.attr in ('read', 'readlines') and x.args)
                          for x in ast.walk(lp.iter))
                if not cut:
                    raise AnalysisError('the loop feeding the detector in %s runs over %s, which is not understood' % (g.short, norm(lp.iter)[:60]))
            early = []
            for st in lp.body:
                if isinstance(st, ast.If) and norm(st.test) == '%s.done' % det and not st.orelse and all(isinstance(b, ast.Break) for b in st.body):
                    continue
                early += [x for x in ast.walk(st) if isinstance(x, (ast.Break, ast.Return))]
            ok = whole and not early
            run.ob('C11-ENCODING', '%s::%s::detector-sees-the-whole-file' % (g.rel, g.short), ok,
                   'the loop feeding %s in %s %s' % (det, g.short, 'runs over the opened file and stops early only on %s.done' % det if ok else
                                                      ('runs over `%s`, not the opened file itself: bytes beyond it are never seen and the encoding written into the '
                                                       'test may not decode the file' % norm(lp.iter if isinstance(lp, ast.For) else lp.test)[:60] if not whole else
                                                       'can stop before the end of the file for another reason than %s.done' % det)), fn=g, node=lp)
    if not nfeed:
        raise AnalysisError('no loop feeding a chardet detector found in tdda.referencetest.utils')
    ws = p.method('TestGenerator', 'write_script')
    from . import gentest_script
    try:
        rows = gentest_script.encodings_emitted(p)
    except (SyntaxError, ValueError) as e:
        rows = None
    bad = [r for r in rows or () if r[1] != r[2]]
    run.ob('C11-ENCODING', '%s::%s::emits-filetype-encoding' % (ws.rel, ws.short), bool(rows) and not bad,
           'write_script, evaluated: each text-file test passes encoding= the encoding recorded on the FileType object%s' % (
               '' if rows and not bad else ' - not so: %s' % (bad[:1] or 'script not readable')), fn=ws, nontrivial=False)
    run.floor('C11-ENCODING', n, 1)


def specifics(run, p):
    from ..pyeval import Interp, Obj, Unsupported, Raised, FakeFS, pure_os
    run.rule('C11-SPECIFICS', 'what will differ between the generating run and a later run of the test is recognised on every line that '
                              'mentions it, wherever on the line: check_for_specific_references, evaluated on a file of lines that '
                              'name the host, the address, the working directory, the home directory, the user and gentest\'s temporary '
                              'directory - alone on the line, at its end, followed by a path separator, followed by other text - flags '
                              'exactly those lines with exactly that kind, records that the temporary directory was used, and flags '
                              'no plain line (an unflagged mention is compared verbatim by the generated test and fails on the next run)')
    c = p.cls('TestGenerator')
    f = c.methods['check_for_specific_references']
    TMP = '/tmp/tmpGEN'
    vals = {'host': 'deepthought', 'ip': 'IP.ADDR.OF.HOST', 'cwd': '/w/job', 'homedir': '/home/zaphod', 'tmpdir': TMP, 'user': 'zaphod'}
    shapes = ['%s', 'value %s', '%s/below/it.txt', 'before %s after', '"%s"', 'x=%s;']
    lines, want = ['a plain line', 'nothing to see here /usr/lib'], {}
    for kind, v in vals.items():
        for sh in shapes:
            lines.append(sh % v)
            w = {kind}
            if kind == 'homedir':
                pass                    # the user name inside the home directory is not reported again
            want[len(lines)] = w
    n = 0
    for shell_var in ('TMPDIR', None):
        fs = FakeFS({'/w/job/out.txt': '\n'.join(lines) + '\n'})
        I = Interp(p, consts={'TMPDIR': TMP, 'TERM_TMPDIR': TMP + '/'})
        I.safe_modules = {'re'}
        I.extra_names.update({'open': fs.open, 'os': pure_os()})
        g = Obj(c)
        g.attrs.update(host=vals['host'], ip_address=vals['ip'], cwd=vals['cwd'], homedir=vals['homedir'], user=vals['user'], user_in_home=True,
                       tmp_dir_shell_var=shell_var, tmpdir_used=False, min_time=None, max_time=None, verbose=False)
        ft = Obj(p.cls('FileType'))
        ft.attrs.update(binary=False, text=True, image=False, encoding=None, ext='txt')
        try:
            r = I.call(f, ['/w/job/out.txt', ft], {}, selfobj=g)
        except Unsupported as e:
            raise AnalysisError('check_for_specific_references is not evaluable: %s' % e)
        except Raised as e:
            run.ob('C11-SPECIFICS', 'shell-var=%s' % shell_var, False, 'check_for_specific_references raises %s' % e, fn=f)
            n += 1
            continue
        items = dict(r.items.items()) if isinstance(r, Obj) else dict(r)
        for ln, w in sorted(want.items()):
            if shell_var is None and 'tmpdir' in w:
                w = set()
            sp = items.get(ln)
            got = set()
            if sp is not None:
                rec = sp.attrs if isinstance(sp, Obj) else {k: getattr(sp, k, None) for k in getattr(type(sp), '_fields', ())}
                got = {k for k in ('host', 'ip', 'cwd', 'homedir', 'tmpdir', 'user') if rec.get(k)}
            n += 1
            run.ob('C11-SPECIFICS', 'shell-var=%s::line=%r' % (shell_var, lines[ln - 1]), got == w,
                   'the line %r is flagged as %s (it mentions %s)' % (lines[ln - 1], sorted(got) or 'nothing', sorted(w) or 'nothing specific'), fn=f)
        plain = [ln for ln in (1, 2) if ln in items]
        n += 1
        run.ob('C11-SPECIFICS', 'shell-var=%s::plain-lines' % shell_var, not plain, 'plain lines flagged: %s' % (plain or 'none'), fn=f)
        n += 1
        used = g.attrs.get('tmpdir_used')
        run.ob('C11-SPECIFICS', 'shell-var=%s::tmpdir_used' % shell_var, bool(used) == (shell_var is not None),
               'tmpdir_used is %s after a file that mentions the temporary directory (shell variable %s)' % (used, shell_var), fn=f)
    run.floor('C11-SPECIFICS', n, 70)


def mkdirsafe(run, p):
    from ..flow import GuardMap
    from .common import guard_requires
    run.rule('C11-MKDIRSAFE', 'generating again over what an earlier (finished, refused or interrupted) generation left behind works: every '
                              'os.mkdir / os.makedirs in the generator is under a test that the same path does not exist yet (or says '
                              'exist_ok=True) - a leftover directory otherwise ends the run with FileExistsError before the command is run')
    n = 0
    for f in p.funcs.values():
        if f.mod.name != 'tdda.referencetest.gentest':
            continue
        gm = None
        for x in p.own_nodes(f):
            if not (isinstance(x, ast.Call) and norm(x.func) in ('os.mkdir', 'os.makedirs') and x.args):
                continue
            n += 1
            path = norm(x.args[0])
            ok = any(k.arg == 'exist_ok' and isinstance(k.value, ast.Constant) and k.value.value is True for k in x.keywords)
            if not ok:
                gm = gm or GuardMap(f.node)
                for g in gm.chain(x) or ():
                    if g.kind != 'if':
                        continue
                    # `if not os.path.exists(P)` taken, or the else arm of `if os.path.exists(P)` / `os.path.isdir(P)`
                    if guard_requires(g.test, g.pol, lambda e, pol: (not pol) and isinstance(e, ast.Call) and norm(e.func) in ('os.path.exists', 'os.path.isdir', 'os.path.lexists')
                                      and e.args and norm(e.args[0]) == path):
                        ok = True
            run.ob('C11-MKDIRSAFE', '%s::%s::%s' % (f.rel, f.short, norm(x)[:40]), ok,
                   '%s %s' % (norm(x)[:50], 'only when the path does not exist yet' if ok else 'whether or not the path exists already'), fn=f, node=x)
    run.floor('C11-MKDIRSAFE', n, 2)


def globs(run, p):
    from .common import must_pass, names_in
    run.rule('C11-GLOBS', 'a wildcard argument never stays among the reference files (it names no file and would make copying and script '
                          'writing fail): every path through add_globs stores self.reference_files[run] with the set of patterns '
                          'subtracted - also when no pattern matched anything')
    f = p.method('TestGenerator', 'add_globs')
    # the set that collects the patterns: added to under the wildcard test
    pats = set()
    for x in p.own_nodes(f):
        if isinstance(x, ast.Call) and isinstance(x.func, ast.Attribute) and x.func.attr == 'add' and isinstance(x.func.value, ast.Name):
            pats.add(x.func.value.id)
    if not pats:
        raise AnalysisError('add_globs no longer collects the wildcard patterns in a set')

    def event(s):
        if not isinstance(s, ast.Assign):
            return False
        if not any(norm(t).startswith('self.reference_files[') for t in s.targets):
            return False
        for x in ast.walk(s.value):
            if isinstance(x, ast.BinOp) and isinstance(x.op, ast.Sub) and names_in(x.right) & pats:
                return True
            if isinstance(x, ast.Call) and isinstance(x.func, ast.Attribute) and x.func.attr == 'difference' and x.args and \
                    names_in(x.args[0]) & pats:
                return True
        return False
    bad = must_pass(f, event)
    # leaving early because there was no pattern at all leaves nothing to remove
    bad = [(k, node, atoms) for k, node, atoms in bad if not any(('not %s' % q) in (atoms or '') for q in pats)]
    if not bad:
        run.ob('C11-GLOBS', '%s::%s' % (f.rel, f.short), True, 'every path removes the patterns %s from the reference files' % sorted(pats), fn=f)
    for k, node, atoms in bad:
        run.ob('C11-GLOBS', '%s::%s::exit[%s]' % (f.rel, f.short, atoms[:60]), False,
               'add_globs can finish with the wildcard patterns still among the reference files (path: %s)' % (atoms or 'unconditional'),
               fn=f, node=node if hasattr(node, 'lineno') else None)
    run.floor('C11-GLOBS', 1, 1)
