"""C11 - gentest: for a repeatable command the generated test exists, compiles and passes."""
from .. import ief, triage

ROOTS = ['gentest.gentest', 'gentest.gentest_wrapper']


def check(run):
    p = run.prog
    roots = [p.fn(r) for r in ROOTS]
    ief.run_ief(run, 'C11', roots, triage=triage.IEF, noreturn=('self.fail',))
    run.floor('C11-IEF', run.units['ief_functions_checked'], 100)
