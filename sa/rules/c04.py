"""C04 - text comparison passes exactly when texts agree modulo declared exclusions."""
import ast

from .. import mirror
from ..flow import GuardMap
from ..model import AnalysisError, norm
from .common import mirror_rule, dep_closure, dep_closure_at, names_in, guard_requires

TEXT_ASSERTS = ['assertStringCorrect', 'assertTextFileCorrect', 'assertTextFilesCorrect', 'assertBinaryFileCorrect']


def check(run):
    p = run.prog
    fc = p.cls('FilesComparison')
    fns = [fc.methods[n] for n in ('check_strings', 'check_file', 'check_string_against_file', 'wrong_content', 'wrong_number',
                                   'check_binary_file', 'check_for_permutation_failures', 'check_patterns') if n in fc.methods]
    if len(fns) < 6:
        raise AnalysisError('FilesComparison lost its comparison methods')
    n = mirror_rule(run, 'C04-SYM', fns, mirror.ACTUAL_EXPECTED,
                    'the actual side and the expected side go through the same transformations before they are compared (preprocess, '
                    'trailing-empty strip, removal filter, normalisation, decoding): near-mirror statement pairs must be exact mirrors')
    run.floor('C04-SYM', n, 120)
    run.attempt(split, run, p, fc)
    run.attempt(prop, run, p, 'C04', TEXT_ASSERTS)
    run.attempt(exc, run, p, fc)
    run.attempt(perm, run, p, fc)
    run.attempt(oracle, run, p, fc)
    run.attempt(sameenc, run, p, fc)
    run.attempt(rawremove, run, p, fc)
    run.attempt(stateless, run, p, fc)
    from .common import nocache_rule
    nocache_rule(run, 'C04-NOCACHE', p, ['tdda.referencetest.checkfiles', 'tdda.referencetest.basecomparison'],
                 'no memoising decorator and no class-level container used as a cache in the text comparison modules')
    from .common import gotcha_rule
    n = gotcha_rule(run, 'C04-WHOLESTR', p, ['tdda.referencetest.checkfiles', 'tdda.referencetest.utils', 'tdda.referencetest.basecomparison'],
                    'file names, extensions and exclusion strings are compared whole: no constant written ("text") - a one-element '
                    'tuple without its comma - is used with `in` (a substring test that the empty extension passes, so an extensionless '
                    'reference would be read in the wrong encoding), and no list is extended by a single string')
    run.floor('C04-WHOLESTR', n, 3)
    from .. import ief, triage
    rt = p.cls('ReferenceTest')
    run.attempt(ief.run_ief, run, 'C04', [p.lookup_method(rt.qn, n) for n in TEXT_ASSERTS], triage=triage.IEF)
    run.floor('C04-IEF', run.units.get('ief_functions_checked', 0), 35)


def split(run, p, fc):
    from ..pyeval import Interp, Obj, Unsupported, Raised, FakeFS, pure_os, pure_sys
    texts = ['a \n b\t\nc\n', 'a\nb\nc\n', 'a\r\nb\rc\nd', 'x\x0by\x0cz\n', 'p\x1cq\x1dr\x1es\n', 'u\u2028v\u2029w\x85t', 'last line no newline', '', '\n', '\n\n']
    run.rule('C04-SPLIT', 'actual text and reference text are cut into lines alike in every entry point: check_file given two files '
                          'with the same content, and check_string_against_file given a string and a file with that content, hand '
                          'check_strings two equal line lists - evaluated for %d texts holding every line terminator Python knows '
                          '(\\n, \\r\\n, \\r, VT, FF, FS/GS/RS, NEL, U+2028/2029), no final newline and empty content' % len(texts))
    n = 0
    for name in ('check_file', 'check_string_against_file'):
        f = fc.methods[name]
        bad = []
        for text in texts:
            fs = FakeFS({'/t/ref.txt': text, '/t/act.txt': text})
            seen = []
            I = Interp(p)
            I.extra_names.update({'open': fs.open, 'os': pure_os(), 'sys': pure_sys()})

            def hook(m, args, kwargs, selfobj, seen=seen):
                if m.name == 'check_strings':
                    seen.append((list(args[0]), list(args[1])))
                    return True, (0, kwargs.get('msgs'))
                return False, None
            I.on_call = hook
            o = Obj(fc)
            o.attrs.update(print_fn=None, verbose=False, tmp_dir='/nowhere')
            try:
                if name == 'check_file':
                    I.call(f, ['/t/act.txt', '/t/ref.txt'], selfobj=o)
                else:
                    I.call(f, [text, '/t/ref.txt'], selfobj=o)
            except (Unsupported, Raised) as e:
                raise AnalysisError('%s is not evaluable: %s' % (name, e))
            n += 1
            if len(seen) != 1:
                bad.append((text, 'check_strings is called %d times' % len(seen)))
            elif seen[0][0] != seen[0][1]:
                bad.append((text, 'actual lines %r, reference lines %r' % seen[0]))
            else:
                # and the lines are the content: nothing but line terminators is dropped on the way
                import re as _re
                kept = ''.join(seen[0][1])
                if kept != _re.sub(r'[\n\r\x0b\x0c\x1c\x1d\x1e\x85\u2028\u2029]', '', text):
                    bad.append((text, 'the lines handed on are %r: characters of the content are lost' % (seen[0][1],)))
        run.ob('C04-SPLIT', '%s::%s' % (f.rel, f.short), not bad,
               '%s: the same content on both sides gives the same lines%s' % (name, '' if not bad else ' - not for %r: %s' % bad[0]), fn=f)
    run.floor('C04-SPLIT', n, 20)


def prop(run, p, pid, assert_names):
    rid = pid + '-PROP'
    run.rule(rid, 'in every assertion the failure count returned by the comparison reaches _check_failures, which asserts failures == 0; '
                  'the comparison returns failures=1 exactly under its difference condition')
    rt = p.cls('ReferenceTest')
    n = 0
    for name in assert_names:
        m = p.lookup_method(rt.qn, name)
        if m is None:
            raise AnalysisError('ReferenceTest.%s vanished' % name)
        calls = [x for x in p.own_nodes(m) if isinstance(x, ast.Call) and isinstance(x.func, ast.Attribute) and
                 (x.func.attr.startswith('check_')) and norm(x.func.value) in ('self.files', 'self.pandas')]
        cf = [x for x in p.own_nodes(m) if isinstance(x, ast.Call) and norm(x.func) == 'self._check_failures']
        for c in calls:
            n += 1
            # names that hold the first component (the failure count) of the call's result:
            #   (failures, msgs) = call(...)   |   r = call(...); (failures, msgs) = r   |   r[0]   |   r.failures
            first = set()
            whole = set()
            for s in ast.walk(m.node):
                if isinstance(s, ast.Assign) and s.value is c:
                    for t in s.targets:
                        if isinstance(t, ast.Name):
                            whole.add(t.id)
                        elif isinstance(t, (ast.Tuple, ast.List)) and t.elts and isinstance(t.elts[0], ast.Name):
                            first.add(t.elts[0].id)
            for s in ast.walk(m.node):
                if isinstance(s, ast.Assign) and isinstance(s.value, ast.Name) and s.value.id in whole:
                    for t in s.targets:
                        if isinstance(t, (ast.Tuple, ast.List)) and t.elts and isinstance(t.elts[0], ast.Name):
                            first.add(t.elts[0].id)
            ok = False
            for k in cf:
                if not k.args:
                    continue
                a0 = k.args[0]
                if isinstance(a0, ast.Name) and a0.id in first:
                    ok = True
                elif isinstance(a0, ast.Subscript) and isinstance(a0.value, ast.Name) and a0.value.id in whole and \
                        isinstance(a0.slice, ast.Constant) and a0.slice.value == 0:
                    ok = True
                elif isinstance(a0, ast.Attribute) and isinstance(a0.value, ast.Name) and a0.value.id in whole and a0.attr == 'failures':
                    ok = True
                elif isinstance(a0, ast.Starred) and isinstance(a0.value, ast.Name) and a0.value.id in whole:
                    ok = True
                elif isinstance(a0, ast.Starred) and a0.value is c:
                    ok = True
            run.ob(rid, '%s::%s::%s' % (m.rel, m.short, norm(c.func)), ok,
                   '%s: the first component of %s(...) is %s to _check_failures' % (m.short, norm(c.func), 'passed' if ok else 'NOT passed'), fn=m, node=c)
    ck = p.lookup_method(rt.qn, '_check_failures')
    fparam = ck.posparams[1] if len(ck.posparams) > 1 else None
    asserts = [x for x in p.own_nodes(ck) if isinstance(x, ast.Call) and norm(x.func) == 'self.assert_fn' and x.args and
               isinstance(x.args[0], ast.Compare) and len(x.args[0].ops) == 1 and isinstance(x.args[0].ops[0], ast.Eq) and
               {norm(x.args[0].left), norm(x.args[0].comparators[0])} == {fparam, '0'}]
    run.ob(rid, '%s::%s' % (ck.rel, ck.short), bool(asserts), '_check_failures asserts failures == 0', fn=ck, nontrivial=False)
    run.floor(rid, n, len(assert_names) - 1)
    return n


def _reports_failure(stmts, fnode=None):
    """a block that ends the comparison as failed: raise, return (1, ...), failures += n, or a positive count appended to the
    list whose sum the function returns as its failure count"""
    summed = set()
    if fnode is not None:
        for r in ast.walk(fnode):
            if isinstance(r, ast.Return) and isinstance(r.value, ast.Tuple) and r.value.elts:
                e0 = r.value.elts[0]
                if isinstance(e0, ast.Call) and getattr(e0.func, 'id', '') == 'sum' and len(e0.args) == 1 and isinstance(e0.args[0], ast.Name):
                    summed.add(e0.args[0].id)
    for st in stmts:
        for s in ast.walk(st):
            if isinstance(s, ast.Call) and isinstance(s.func, ast.Attribute) and s.func.attr == 'append' and isinstance(s.func.value, ast.Name) \
                    and s.func.value.id in summed and len(s.args) == 1 and isinstance(s.args[0], ast.Constant) \
                    and isinstance(s.args[0].value, int) and s.args[0].value > 0:
                return True
            if isinstance(s, ast.Raise):
                return True
            if isinstance(s, ast.Return) and isinstance(s.value, ast.Tuple) and s.value.elts and isinstance(s.value.elts[0], ast.Constant) \
                    and s.value.elts[0].value == 1:
                return True
            if isinstance(s, ast.AugAssign) and norm(s.target) == 'failures' and isinstance(s.op, ast.Add):
                return True
    return False


def _sentinel_checked(p, caller, call):
    """`x = helper(...)` directly followed by `if x is None: <reports a failure>` (or `if not x` / `if x is not None: ... else:`)"""
    for blk_owner in ast.walk(caller.node):
        for fld in ('body', 'orelse', 'finalbody'):
            blk = getattr(blk_owner, fld, None)
            if not isinstance(blk, list):
                continue
            for i, st in enumerate(blk):
                if isinstance(st, ast.Assign) and st.value is call and len(st.targets) == 1 and isinstance(st.targets[0], ast.Name):
                    x = st.targets[0].id
                    for nxt in blk[i + 1:i + 2]:
                        if not isinstance(nxt, ast.If):
                            return False
                        t = nxt.test
                        if isinstance(t, ast.Compare) and len(t.ops) == 1 and isinstance(t.left, ast.Name) and t.left.id == x and \
                                isinstance(t.comparators[0], ast.Constant) and t.comparators[0].value is None:
                            if isinstance(t.ops[0], ast.Is):
                                return _reports_failure(nxt.body)
                            if isinstance(t.ops[0], ast.IsNot):
                                return _reports_failure(nxt.orelse)
                        if isinstance(t, ast.UnaryOp) and isinstance(t.op, ast.Not) and isinstance(t.operand, ast.Name) and t.operand.id == x:
                            return _reports_failure(nxt.body)
                    return False
    return False


def exc(run, p, fc):
    run.rule('C04-EXC', 'no exception handler in the text comparison swallows a failure: each either re-raises, returns a failure, or adds to the '
                        'failure count; a handler in a helper that answers None instead has that None turned into a failure by every caller')
    n = 0
    methods = [f for name, f in sorted(fc.methods.items()) if name.startswith(('check_', 'wrong_', 'add_failures'))]
    # helpers of the module the comparison methods call (functions that are not methods of the class, or private ones): their
    # handlers belong to the comparison too
    helpers = {}
    todo = list(methods)
    while todo:
        f = todo.pop()
        for c_, ts, _k in p.calls(f):
            for g, _ctx in ts:
                if g.mod is fc.mod and g not in methods and g.qn not in helpers and isinstance(c_, ast.Call) and \
                        any(isinstance(h, ast.ExceptHandler) for h in ast.walk(g.node)) and (g.cls is None or g.cls is fc):
                    if g.cls is fc and not g.name.startswith('_'):
                        continue
                    helpers[g.qn] = g
                    todo.append(g)
    for f in methods + [helpers[q] for q in sorted(helpers)]:
        for h in ast.walk(f.node):
            if not isinstance(h, ast.ExceptHandler):
                continue
            n += 1
            ok = _reports_failure(h.body, f.node)
            how = 'reports a failure'
            if not ok:
                # the handler binds a positive count to a name, and what follows the try adds that name to the failure count
                bound = set()
                for st in h.body:
                    if isinstance(st, ast.Assign) and len(st.targets) == 1:
                        tg, v = st.targets[0], st.value
                        pairs = [(tg, v)]
                        if isinstance(tg, (ast.Tuple, ast.List)) and isinstance(v, (ast.Tuple, ast.List)) and len(tg.elts) == len(v.elts):
                            pairs = list(zip(tg.elts, v.elts))
                        for a, b in pairs:
                            if isinstance(a, ast.Name) and isinstance(b, ast.Constant) and isinstance(b.value, int) and not isinstance(b.value, bool) and b.value > 0:
                                bound.add(a.id)
                if bound:
                    for owner in ast.walk(f.node):
                        for fld in ('body', 'orelse', 'finalbody'):
                            blk = getattr(owner, fld, None)
                            if not isinstance(blk, list):
                                continue
                            for i, st in enumerate(blk):
                                if isinstance(st, ast.Try) and h in st.handlers:
                                    for nx in blk[i + 1:i + 3]:
                                        if isinstance(nx, ast.AugAssign) and isinstance(nx.op, ast.Add) and norm(nx.target) == 'failures' \
                                                and isinstance(nx.value, ast.Name) and nx.value.id in bound:
                                            ok = True
                                            how = 'counts one failure (%s, added to the failure count after the try)' % nx.value.id
                                        if any(isinstance(x, ast.Name) and x.id in bound and isinstance(x.ctx, ast.Store) for x in ast.walk(nx)):
                                            break
            for s in ast.walk(h):
                if isinstance(s, ast.Return) and isinstance(s.value, ast.Call):
                    # return self.helper(...): a helper of the class all of whose returns report one failure
                    for c_, ts, _k in p.calls(f):
                        if c_ is s.value:
                            for g, _ctx in ts:
                                rets = [r for r in ast.walk(g.node) if isinstance(r, ast.Return)]
                                if g.cls is f.cls and rets and all(isinstance(r.value, ast.Tuple) and r.value.elts and isinstance(r.value.elts[0], ast.Constant)
                                                                   and r.value.elts[0].value == 1 for r in rets):
                                    ok = True
            if not ok and f.qn in helpers:
                rets = [s for st in h.body for s in ast.walk(st) if isinstance(s, ast.Return)]
                if rets and all(r.value is None or (isinstance(r.value, ast.Constant) and r.value.value is None) for r in rets) and \
                        isinstance(h.body[-1], ast.Return):
                    sites = [(m, c_) for m in methods + list(helpers.values()) for c_, ts, _k in p.calls(m)
                             if isinstance(c_, ast.Call) and any(g is f for g, _ctx in ts)]
                    if sites and all(_sentinel_checked(p, m, c_) for m, c_ in sites):
                        ok = True
                        how = 'answers None, which each of its %d caller(s) turns into a failure' % len(sites)
            run.ob('C04-EXC', '%s::%s::except %s' % (f.rel, f.short, norm(h.type) if h.type else '*'), ok,
                   'handler `except %s` in %s %s' % (norm(h.type) if h.type else '', f.short, how if ok else 'continues as if the comparison had passed'),
                   fn=f, node=h)
    run.floor('C04-EXC', n, 5)


def perm(run, p, fc):
    run.rule('C04-PERM', 'the permutation allowance is applied only when the number of unexcused differences is within max_permutation_cases '
                         '(so the collected cases are all of them), and only on the same-length path')
    f = fc.methods['check_strings']
    gm = GuardMap(f.node)
    n = 0
    for x in p.own_nodes(f):
        if isinstance(x, ast.Call) and isinstance(x.func, ast.Attribute) and x.func.attr == 'check_for_permutation_failures':
            n += 1
            ch = gm.chain(x) or ()

            def bounded(e, pol):
                if not pol or not isinstance(e, ast.Compare) or len(e.ops) != 1:
                    return False
                l, r = e.left, e.comparators[0]
                names = names_in(e)
                if 'max_permutation_cases' not in names:
                    return False
                other = l if 'max_permutation_cases' in names_in(r) else r
                le = (isinstance(e.ops[0], (ast.LtE,)) and 'max_permutation_cases' in names_in(r)) or \
                     (isinstance(e.ops[0], (ast.GtE,)) and 'max_permutation_cases' in names_in(l))
                clo = dep_closure(f.node, names_in(other))
                return le and ('diffs' in clo or 'ndiffs' in names_in(other))
            ok = any(g.kind == 'if' and guard_requires(g.test, g.pol, bounded) for g in ch)
            run.ob('C04-PERM', '%s::%s::bound' % (f.rel, f.short), ok,
                   'permutation check is reached under [%s]' % ' & '.join(g.text() for g in ch if g.kind == 'if')[:160], fn=f, node=x)
    if n == 0:
        raise AnalysisError('check_strings no longer calls check_for_permutation_failures')
    run.floor('C04-PERM', n, 1)


def rawremove(run, p, fc):
    run.rule('C04-RAWREMOVE', 'lines are dropped for containing a remove-substring before any per-line stripping: the removal test reads the '
                              'lines as given, not their normalised form')
    f = fc.methods['check_strings']
    gm = GuardMap(f.node)
    n = 0
    for x in ast.walk(f.node):
        if isinstance(x, (ast.ListComp, ast.SetComp, ast.GeneratorExp)):
            for g in x.generators:
                for cond in g.ifs:
                    if 'remove_lines' in names_in(cond) and isinstance(cond, ast.Call) and getattr(cond.func, 'id', '') == 'any':
                        n += 1
                        clo = dep_closure_at(f.node, g.iter, gm)
                        bad = [c for c in clo if 'normalize' in c or c in ('lstrip', 'rstrip')]
                        src = ast.unparse(x)
                        bad2 = 'normalize(' in src or '.strip()' in src
                        run.ob('C04-RAWREMOVE', '%s::%s::%s' % (f.rel, f.short, norm(g.iter)[:40]), not bad and not bad2,
                               'removal is decided on %s, which %s' % (norm(g.iter)[:40], 'is the text as given' if not (bad or bad2) else 'has been normalised first'),
                               fn=f, node=x)
    if n == 0 and any(o.rule == 'C04-ORACLE' for o in run.obs) and all(o.ok for o in run.obs if o.rule == 'C04-ORACLE'):
        run.note('C04-RAWREMOVE', 'check_strings does not filter the removable lines itself: decided by C04-ORACLE (a remove-substring that '
                                  'only matches with its blanks, under every stripping option)', fn=f)
        return
    run.floor('C04-RAWREMOVE', n, 2)


def stateless(run, p, fc):
    run.rule('C04-STATELESS', 'the outcome of a text check depends on its own arguments only: outside __init__ no method of the text '
                              'comparison stores anything on the instance (compiled patterns, previous options) that a later check could '
                              'read back, and the class has no class-level container')
    n = 0
    bad = []
    classes = [p.classes[q] for q in p.mro(fc.qn) if q in p.classes]
    for c in classes:
        for m in c.methods.values():
            n += 1
            if m.name == '__init__':
                continue
            for x in p.own_nodes(m):
                if isinstance(x, ast.Attribute) and isinstance(x.value, ast.Name) and x.value.id == 'self' and isinstance(x.ctx, (ast.Store, ast.Del)):
                    bad.append((m, x))
    if not bad:
        run.ob('C04-STATELESS', '%s::%s' % (fc.mod.rel, fc.name), True, '%d methods store nothing on the instance' % n, fn=fc.methods['check_strings'])
    for m, x in bad:
        run.ob('C04-STATELESS', '%s::%s::self.%s' % (m.rel, m.short, x.attr), False,
               '%s stores self.%s: state carried from one check to the next (a list edited in place between two checks would be '
               'served stale)' % (m.short, x.attr), fn=m, node=x)
    run.floor('C04-STATELESS', n, 15)


# ---------------------------------------------------------------------------------------------
# C04-ORACLE: check_strings evaluated against an independent statement of the comparison rule

def _oracle(actual, expected, lstrip, rstrip, subs, pats, removes, maxperm, preprocess):
    """The comparison rule as the property states it (written here, independently of the code)."""
    import re
    if preprocess:
        actual, expected = preprocess(actual), preprocess(expected)
    if actual and actual[-1] == '':
        actual = actual[:-1]
    if expected and expected[-1] == '':
        expected = expected[:-1]
    A = [l for l in actual if not any(r in l for r in removes or ())]
    E = [l for l in expected if not any(r in l for r in removes or ())]

    def nrm(s):
        return s.strip() if lstrip and rstrip else s.lstrip() if lstrip else s.rstrip() if rstrip else s
    if len(A) != len(E):
        return False
    bad = []
    for a, e in zip(A, E):
        if nrm(a) == nrm(e):
            continue
        if any(s in e for s in subs or ()):
            continue
        if any(re.search(p_, a) and re.search(p_, e) and re.sub(p_, '\0', a) == re.sub(p_, '\0', e) for p_ in pats or ()):
            continue
        bad.append((a, e))
    if not bad:
        return True
    return len(bad) <= maxperm and sorted(a for a, _ in bad) == sorted(e for _, e in bad)


def _text_cases():
    """(name of the edit, actual lines, reference lines): a reference text and its near misses"""
    ref = ['alpha', 'beta 12 ms', 'gamma ray', 'delta']
    out = [('identical', list(ref), list(ref)),
           ('both-empty', [], []),
           ('one-line-changed', ['alpha', 'beta 12 ms', 'gamma ray', 'DELTA'], list(ref)),
           ('digits-changed', ['alpha', 'beta 977 ms', 'gamma ray', 'delta'], list(ref)),
           ('digits-and-text-changed', ['alpha', 'beta 977 s', 'gamma ray', 'delta'], list(ref)),
           ('ignorable-line-changed', ['alpha', 'beta 12 ms', 'something else', 'delta'], list(ref)),
           ('ignorable-text-only-in-actual', ['alpha', 'beta 12 ms', 'gamma ray', 'delta'], ['alpha', 'beta 12 ms', 'no marker here', 'delta']),
           ('line-added', ref + ['epsilon'], list(ref)),
           ('line-dropped', ref[:-1], list(ref)),
           ('first-line-dropped', ref[1:], list(ref)),
           ('two-lines-swapped', ['alpha', 'gamma ray', 'beta 12 ms', 'delta'], list(ref)),
           ('three-lines-rotated', ['beta 12 ms', 'gamma ray', 'alpha', 'delta'], list(ref)),
           ('swapped-and-one-changed', ['alpha', 'gamma ray', 'beta 12 ms', 'DELTA'], list(ref)),
           # the same texts on both sides, a different number of times each: not a permutation
           ('same-texts-other-multiplicities', ['ok', 'FAILED', 'ok', 'tail'], ['FAILED', 'ok', 'FAILED', 'tail']),
           ('repeated-lines-permuted', ['ok', 'ok', 'FAILED', 'tail'], ['FAILED', 'ok', 'ok', 'tail']),
           ('leading-blanks-added', ['  alpha', 'beta 12 ms', 'gamma ray', 'delta'], list(ref)),
           ('trailing-blanks-added', ['alpha', 'beta 12 ms  ', 'gamma ray', 'delta\t'], list(ref)),
           ('blanks-inside-changed', ['alpha', 'beta  12 ms', 'gamma ray', 'delta'], list(ref)),
           ('removable-line-added', ['alpha', 'SKIP me', 'beta 12 ms', 'gamma ray', 'delta'], list(ref)),
           ('removable-lines-differ', ['alpha', 'SKIP one', 'beta 12 ms', 'gamma ray', 'delta'], ['alpha', 'beta 12 ms', 'SKIP two', 'SKIP three', 'gamma ray', 'delta']),
           ('removable-marker-has-blanks', ['alpha', '  SKIP', 'beta 12 ms', 'gamma ray', 'delta'], list(ref)),
           ('removable-only-with-its-blanks', ['alpha', '  pad  ', 'beta 12 ms', 'gamma ray', 'delta'], ['alpha', 'beta 12 ms', 'gamma ray', 'pad', 'delta', '  pad ']),
           ('removal-evens-out-the-raw-line-counts', ['alpha', 'SKIP one', 'beta 12 ms', 'gamma ray'], list(ref)),
           ('removal-evens-out-raw-counts-reference-side', list(ref), ['alpha', 'beta 12 ms', 'gamma ray', 'SKIP x']),
           ('removal-text-is-not-a-pattern', ['alpha', 'x marks the spot', 'beta 12 ms', 'gamma ray', 'delta'], list(ref)),
           ('removal-text-with-metacharacters', ['alpha', 'tail [x] here', 'beta 12 ms', 'rev v1.0 built', 'gamma ray', 'delta'], list(ref)),
           ('removal-dot-is-literal', ['alpha', 'rev1c0de', 'beta 12 ms', 'gamma ray', 'delta'], list(ref)),
           ('removed-reference-line-shifts-the-numbering', ['alpha', 'gamma ray', 'beta 99 ms', 'delta'], ['SKIP x', 'alpha', 'gamma ray', 'beta 12 ms', 'delta']),
           ('removed-line-above-an-ignorable-pair', ['alpha', 'something else', 'beta 12 ms', 'delta'], ['SKIP x', 'alpha', 'gamma ray', 'beta 12 ms', 'delta']),
           ('trailing-empty-element', ref + [''], list(ref)),
           ('trailing-empty-both', ref + [''], ref + ['']),
           ('final-line-of-blanks-only-in-actual', ref + ['   '], list(ref)),
           ('final-line-of-blanks-only-in-reference', list(ref), ref + ['\t']),
           ('final-lines-of-different-blanks', ref + ['  '], ref + ['\t']),
           ('final-line-of-blanks-then-empty', ref + [' ', ''], ref + ['']),
           ('empty-line-inside', ['alpha', '', 'beta 12 ms', 'gamma ray', 'delta'], list(ref)),
           ('unicode-changed', ['alpha', 'beta 12 ms', 'gamma ray', 'délta'], ['alpha', 'beta 12 ms', 'gamma ray', 'délta']),
           ('comment-line-added', ['# note', 'alpha', 'beta 12 ms', 'gamma ray', 'delta'], list(ref)),
           ('actual-empty', [], list(ref)),
           ('reference-empty', list(ref), [])]
    return out


def oracle(run, p, fc):
    import itertools
    from ..pyeval import Interp, Obj, Unsupported, Raised, pure_os, pure_sys
    cases = _text_cases()
    run.rule('C04-ORACLE', 'check_strings agrees with an independent statement of the comparison rule (drop lines holding a '
                           'remove-substring, as given; strip per line as asked; same number of lines; each pair equal, or the '
                           'reference line holds an ignore-substring, or the pair differs only inside ignore-pattern matches; or '
                           'the differing lines are a permutation within the permitted number) on %d (actual, reference) pairs - '
                           'identical text and its near misses: one line changed, added, dropped, swapped, blanks, removable and '
                           'ignorable lines, trailing empty element, unicode - under every combination of lstrip, rstrip, '
                           'ignore_substrings, ignore_patterns, remove_lines, max_permutation_cases (and, in the thorough tier, a preprocessing function); '
                           'decided by evaluating check_strings itself' % len(cases))
    f = fc.methods['check_strings']

    def drop_comments(lines):
        return [l for l in lines if not l.startswith('#')]
    drop_comments._pyeval_model = True
    n = 0
    for name, actual, expected in cases:
        bad = []
        for lstrip, rstrip, subs, pats, removes, maxperm, pre in itertools.product(
                (False, True), (False, True), (None, ['gamma']), (None, [r'\d+']), (None, ['SKIP', '  pad ', '[x]', 'v1.0']), (0, 3), ((None, drop_comments) if run.tier == 'thorough' or name == 'comment-line-added' else (None,))):
            I = Interp(p)
            I.safe_modules = {'re'}
            I.extra_names.update({'os': pure_os(), 'sys': pure_sys()})

            def hook(m, args, kwargs, selfobj):
                if m.name == 'add_failures':
                    return True, None
                return False, None
            I.on_call = hook
            o = Obj(fc)
            o.attrs.update(print_fn=None, verbose=False, tmp_dir='/nowhere')
            kw = dict(lstrip=lstrip, rstrip=rstrip, ignore_substrings=subs, ignore_patterns=pats, remove_lines=removes,
                      max_permutation_cases=maxperm, preprocess=pre, create_temporaries=False)
            try:
                r = I.call(f, [list(actual), list(expected)], kw, selfobj=o)
                got = (r.failures == 0)
            except Raised as e:
                got = 'raises %s' % e
            except Unsupported as e:
                raise AnalysisError('check_strings is not evaluable: %s' % e)
            n += 1
            want = _oracle(list(actual), list(expected), lstrip, rstrip, subs, pats, removes, maxperm, pre)
            if got is not want:
                bad.append(({k: (v if k != 'preprocess' else bool(v)) for k, v in kw.items() if v and k != 'create_temporaries'}, got, want))
        run.ob('C04-ORACLE', 'text:%s' % name, not bad,
               '%s: %s' % (name, 'agrees with the rule under all option combinations' if not bad else
                           '%d option combinations disagree, e.g. %r: check_strings %s, the rule says %s (actual %r, reference %r)' % (
                               len(bad), bad[0][0], 'passes' if bad[0][1] is True else ('fails' if bad[0][1] is False else bad[0][1]),
                               'pass' if bad[0][2] else 'fail', actual, expected)), fn=f)
    run.floor('C04-ORACLE', n, 2100)


def sameenc(run, p, fc, rid='C04-SAMEENC'):
    """the two files of a pair are decoded alike"""
    from ..pyeval import Interp, Obj, Unsupported, Raised, FakeFS, pure_sys
    run.rule(rid, 'the two files of a pair are decoded alike: check_file, evaluated on an in-memory file system for pairs whose names '
                  'carry different extensions (a scratch name against summary.pdf, out.pdf against out.txt, .txt against .txt) with '
                  'and without an explicit encoding, opens the actual file with the encoding it opens the reference with - bytes '
                  'decoded two ways differ in every non-ASCII character although the files are identical')
    n = 0
    text = 'alpha\nbeta\n'
    for actual, refn in (('/w/tmpa9b8c7', '/ref/summary.pdf'), ('/w/out.pdf', '/ref/out.txt'), ('/w/out.txt', '/ref/out.txt'), ('/w/report.PDF', '/ref/report.md'), ('/w/x', '/ref/x')):
        for enc in (None, 'utf-8', 'latin-1'):
            fs = FakeFS({actual: text, refn: text})
            I = Interp(p)
            I.safe_modules = {'re'}
            I.extra_names.update({'open': fs.open, 'os': fs.os(), 'sys': pure_sys()})
            o = Obj(fc)
            o.attrs.update(print_fn=None, verbose=False, tmp_dir='/tmpdir')
            kw = {} if enc is None else {'encoding': enc}
            try:
                I.call(fc.methods['check_file'], [actual, refn], kw, selfobj=o)
            except Unsupported as e:
                raise AnalysisError('check_file is not evaluable: %s' % e)
            except Raised as e:
                pass
            ea, er = fs.encodings.get(actual, []), fs.encodings.get(refn, [])
            same = bool(ea) and bool(er) and {str(x).lower().replace('_', '-') for x in ea} == {str(x).lower().replace('_', '-') for x in er} if actual != refn else True
            n += 1
            run.ob(rid, '%s~%s:encoding=%s' % (actual, refn, enc), same,
                   'check_file(%s, %s%s) opens the actual file with encoding %s and the reference with %s' % (
                       actual, refn, '' if enc is None else ', encoding=%r' % enc, ea or 'never', er or 'never'), fn=fc.methods['check_file'])
    run.floor(rid, n, 12)
