"""C08 - database discovery is sound and database verification notices violating rows."""
import ast
import re

from .. import ief, triage, taint
from ..flow import GuardMap
from ..model import AnalysisError, norm
from .common import names_in, dep_closure

ROOTS = ['discover_db_table', 'verify_db_table']


def check(run):
    p = run.prog
    roots = [p.fn(r) for r in ROOTS]
    run.attempt(ief.run_ief, run, 'C08', roots, triage=triage.IEF)
    run.floor('C08-IEF', run.units.get('ief_functions_checked', 0), 150)
    sh = p.cls('SQLDatabaseHandler')
    run.attempt(sqlq, run, p, sh)
    run.attempt(emptyjoin, run, p, sh)
    run.attempt(total, run, p, sh)
    from . import rexpy_eval
    run.attempt(rexpy_eval.hook_rule, run, p, 'C08')
    run.attempt(exc, run, p, sh)
    run.attempt(rexflags, run, p)
    run.attempt(readonly, run, p, roots)
    # database discovery and verification run the same base classes and write the same .tdda text
    from .common import shared_rule
    from .c01 import loop as _loop
    from .c07 import discovery_table as _disc
    from .c09 import strip as _strip
    shared_rule(run, _disc, (run, p), 'C07-DISCOVERY', 'C08-DISCOVERY', ' (the database discoverer is this base class with SQL statistics)')
    shared_rule(run, _loop, (run, p), 'C01-LOOP', 'C08-LOOP', ' (a table verifies against the constraints discovered from it)')
    shared_rule(run, _strip, (run, p), 'C09-STRIP', 'C08-STRIP', ' (constraints discovered from a table are written through to_json before they are verified)')
    from .c02 import verdicts as _verdicts, kinds_and_methods as _km2
    shared_rule(run, _verdicts, (run, p, _km2(p)), 'C02-VERDICT', 'C08-VERDICT', ' (a table is judged by these base verifiers, fed with SQL statistics; date bounds always take the closed comparison)')
    from .common import zero_rule
    n = zero_rule(run, 'C08-ZERO', p, list(sh.methods.values()), {'execute_scalar', 'agg', 'min', 'max', 'len', 'sum'},
                  'zero is a statistic: in the SQL handler a value obtained from execute_scalar() or an aggregate (a minimum length of 0, '
                  'a count of 0, a minimum of 0) is compared or tested with `is None`, never used as a bare condition - a truthiness '
                  'test would turn "the shortest string is empty" into "no strings"')
    run.floor('C08-ZERO', n, 1)
    from .c07 import agg
    run.attempt(agg, run, p)
    from .common import nocache_rule
    nocache_rule(run, 'C08-NOSHARED', p, ['tdda.constraints.db.drivers', 'tdda.constraints.db.constraints', 'tdda.constraints.baseconstraints'],
                 'statistics and column types describe the table at hand: no memoising decorator and no class-level container used as a cache '
                 'in the database handlers (keyed by name only, shared by every connection in the process, never invalidated)')
    run.rules['C07-AGG'] = run.rules['C07-AGG'] + ' (shared with C07: the SQL side of discovery and verification)'
    run.trust('the table name given to the API is trusted SQL (stated policy); sqlite3/DB-API execute() runs exactly the text it is given')


def sqlq(run, p, sh):
    run.rule('C08-SQLQ', 'on the SQLite / dialect-independent path every slot of every SQL template is filled by the right class of text: '
                         'identifier slots by the identifier-quoting helper (or the trusted table name, a constant, or a fragment built '
                         'from those); slots inside single quotes by text whose quotes were doubled; and each quoting helper doubles its '
                         'own delimiter')
    t = taint.SQLTaint(p, sh)
    taint.CONST_SOURCE[0] = (p, sh.mod)
    nsites = 0
    for name, f in sorted(sh.methods.items()):
        gm = GuardMap(f.node)
        for call, issues in t.analyse(f):
            nsites += 1
            real = []
            for i in issues:
                if taint.non_sqlite_arm(gm, i.node) or taint.non_sqlite_arm(gm, call):
                    run.note('C08-SQLQ', 'non-SQLite arm, not exercised here: %s' % i.msg, f, i.node)
                    continue
                # the template may have been built in a non-sqlite arm and only executed later
                real.append(i)
            real = [i for i in real if not _built_in_non_sqlite_arm(t, f, gm, i)]
            key = '%s::%s::%s' % (f.rel, f.short, norm(call)[:40])
            if not real:
                run.ob('C08-SQLQ', key, True, 'every slot of the SQL reaching %s is quoted for its context' % norm(call)[:40], fn=f, node=call)
            for i in real:
                run.ob('C08-SQLQ', key + '::' + norm(i.node)[:30], False, '%s: %s' % (f.short, i.msg), fn=f, node=i.node)
    from ..pyeval import Interp, Obj, Unsupported, Raised
    h = sh.methods.get('quoted')
    if h is None:
        raise AnalysisError('SQLDatabaseHandler.quoted vanished')
    for dbtype in ('sqlite', 'postgres', 'mysql', 'sqlserver'):
        bad = []
        for name in ('col', 'two words', 'quo"te', 'back`tick', 'brack]et', 'a""b', '``', ']]', '"; DROP TABLE t; --', ''):
            o = Obj(sh)
            o.attrs['dbtype'] = dbtype
            try:
                got = Interp(p).call(h, [name], selfobj=o)
            except (Unsupported, Raised) as e:
                raise AnalysisError('quoted is not evaluable: %s' % e)
            ok = isinstance(got, str) and len(got) >= 2
            if ok:
                op, cl, inner = got[0], got[-1], got[1:-1]
                ok = (op, cl) in (('"', '"'), ('`', '`'), ('[', ']')) and inner.replace(cl * 2, '').count(cl) == 0 and inner.replace(cl * 2, cl) == name
            if not ok:
                bad.append((name, got))
        run.ob('C08-SQLQ', '%s::%s::%s' % (h.rel, h.short, dbtype), not bad,
               'quoted() for %s wraps a name in its delimiters and doubles the closing delimiter inside it%s' % (
                   dbtype, '' if not bad else ' - not for %r: %r' % bad[0]), fn=h)
    run.floor('C08-SQLQ', nsites, 15)


def _built_in_non_sqlite_arm(t, f, gm, issue):
    n = issue.node
    # find the statement that contains the offending expression
    for s in ast.walk(f.node):
        if isinstance(s, ast.stmt) and any(x is n for x in ast.walk(s)):
            if taint.non_sqlite_arm(gm, s):
                return True
    return False


def emptyjoin(run, p, sh):
    run.rule('C08-EMPTYJOIN', 'a list of SQL conditions joined with OR / AND (or a comma list) whose items come from a parameter that may be '
                              'empty has a constant fallback (`... or \'1 = 0\'`) or is dominated by a test that the list is non-empty - '
                              'an empty join would leave `NOT()` / `IN ()` in the statement')
    import re
    n = 0
    for name, f in sorted(sh.methods.items()):
        gm = GuardMap(f.node)
        parents = {}
        for x in ast.walk(f.node):
            for ch in ast.iter_child_nodes(x):
                parents[id(ch)] = x
        for j in p.own_nodes(f):
            if not (isinstance(j, ast.Call) and isinstance(j.func, ast.Attribute) and j.func.attr == 'join' and
                    isinstance(j.func.value, ast.Constant) and isinstance(j.func.value.value, str) and
                    re.search(r'\b(OR|AND)\b', j.func.value.value)):
                continue
            n += 1
            par = parents.get(id(j))
            fallback = isinstance(par, ast.BoolOp) and isinstance(par.op, ast.Or) and par.values[0] is j and \
                any(isinstance(v, ast.Constant) and v.value for v in par.values[1:])
            if not fallback and isinstance(par, ast.Assign) and len(par.targets) == 1 and isinstance(par.targets[0], ast.Name):
                # the joined text is named first: every use of the name must carry the fallback
                nm = par.targets[0].id
                uses = [x for x in ast.walk(f.node) if isinstance(x, ast.Name) and x.id == nm and isinstance(x.ctx, ast.Load)]
                fallback = bool(uses) and all(
                    isinstance(parents.get(id(u)), ast.BoolOp) and isinstance(parents[id(u)].op, ast.Or) and parents[id(u)].values[0] is u
                    and any(isinstance(v, ast.Constant) and v.value for v in parents[id(u)].values[1:]) for u in uses)
            src = names_in(j.args[0]) if j.args else set()
            clo = dep_closure(f.node, src)
            params = clo & set(f.params)
            ch = gm.chain(j) or ()
            tested = any(g.kind == 'if' and (names_in(g.test) & (src | params)) and 'is None' not in ast.unparse(g.test) for g in ch)
            run.ob('C08-EMPTYJOIN', '%s::%s::%s' % (f.rel, f.short, norm(j)[:40]), tested or fallback,
                   '%s in %s: %s' % (norm(j)[:40], f.short, 'guarded against an empty list' if (tested or fallback)
                                     else 'an empty %s leaves an empty condition in the SQL' % sorted(params or src)), fn=f, node=j)
    run.floor('C08-EMPTYJOIN', n, 1)


def _from_query(p, sh, f, names, depth=0):
    """do these names of f take their value from a query result - directly (self.execute...) or through a method of the handler
    that returns one?"""
    clo = dep_closure(f.node, names)
    if any(c.startswith('self.execute') for c in clo):
        return True
    if depth >= 2:
        return False
    for c in clo:
        if c.startswith('self.') and c[5:] in sh.methods and not c.startswith('self.execute'):
            g = sh.methods[c[5:]]
            rets = [r.value for r in p.own_nodes(g) if isinstance(r, ast.Return) and r.value is not None]
            for r in rets:
                direct = any(isinstance(x, ast.Call) and norm(x.func).startswith('self.execute') for x in ast.walk(r))
                if direct or _from_query(p, sh, g, names_in(r), depth + 1):
                    return True
    return False


def total(run, p, sh):
    run.rule('C08-TOTAL', 'a lookup in a closed dict literal (a local, a module-level or a class-level table) with a key derived from a query '
                          'result is a .get or is dominated by a membership test')
    n = 0
    class_tables = {t.id for b in sh.node.body if isinstance(b, ast.Assign) and isinstance(b.value, ast.Dict) for t in b.targets if isinstance(t, ast.Name)}
    for name, f in sorted(sh.methods.items()):
        dicts = {t.id for s in p.own_nodes(f) if isinstance(s, ast.Assign) and isinstance(s.value, ast.Dict)
                 for t in s.targets if isinstance(t, ast.Name)}
        # and the module's own closed tables
        dicts |= {k for k, v in f.mod.consts.items() if isinstance(v, ast.Dict)}
        if not dicts and not class_tables:
            continue
        gm = GuardMap(f.node)
        k = 0
        for x in sorted((x for x in p.own_nodes(f) if isinstance(x, ast.Subscript)), key=lambda x: (x.lineno, x.col_offset)):
            tab = None
            if isinstance(x.value, ast.Name) and x.value.id in dicts:
                tab = x.value.id
            elif isinstance(x.value, ast.Attribute) and isinstance(x.value.value, ast.Name) and x.value.value.id in ('self', 'cls', sh.name) \
                    and x.value.attr in class_tables:
                tab = x.value.attr
            if tab is None or not isinstance(x.ctx, ast.Load):
                continue
            n += 1
            from_query = _from_query(p, sh, f, names_in(x.slice))
            ch = gm.chain(x) or ()
            tested = any(g.kind == 'if' and g.pol and tab in ast.unparse(g.test) and ' in ' in ast.unparse(g.test) for g in ch)
            if tested or not from_query:
                run.ob('C08-TOTAL', '%s::%s::closed-table[ok:%s]' % (f.rel, f.short, norm(x)[:30]), True, '%s: %s' % (
                    norm(x)[:40], 'tested first' if tested else 'the key does not come from a query result'), fn=f, node=x)
                continue
            # (numbered among the lookups of the function that are not total, so that other tables coming and going do not rename it)
            run.ob('C08-TOTAL', '%s::%s::closed-table[%d]' % (f.rel, f.short, k), tested or not from_query,
                   '%s: key comes from a query result and the table is %s' % (norm(x)[:40], 'tested first' if tested else 'not total (KeyError for any other type name)'),
                   fn=f, node=x)
            k += 1
    run.floor('C08-TOTAL', n, 1)


def exc(run, p, sh):
    run.rule('C08-EXC', 'parsing of stored text (strptime / datetime construction on a query result) sits inside a try that catches ValueError')
    n = 0
    for name, f in sorted(sh.methods.items()):
        gm = GuardMap(f.node)
        for x in p.own_nodes(f):
            if isinstance(x, ast.Call) and norm(x.func).endswith(('strptime', 'fromisoformat')):
                n += 1
                ch = gm.chain(x) or ()
                ok = False
                for g in ch:
                    if g.kind == 'try':
                        ok = ok or any(h.type is None or 'ValueError' in ast.unparse(h.type) or 'Exception' in ast.unparse(h.type)
                                       for h in g.test.handlers)
                site = '%s(%s)' % (norm(x.func).split('.')[-1], norm(x.args[0])[:30] if x.args else '')
                run.ob('C08-EXC', '%s::%s' % (f.rel, site), ok,
                       '%s in %s %s' % (norm(x)[:50], f.short, 'is guarded' if ok else 'raises ValueError for any other stored date text'), fn=f, node=x)
    run.floor('C08-EXC', n, 1)


def rexflags(run, p):
    run.rule('C08-REXFLAGS', 'the REGEXP callback registered with SQLite matches with the flags rexpy inferred the expressions under')
    f = p.fn('tdda.constraints.db.drivers.regex_matcher')
    want = p.const('tdda.rexpy.rexpy', 'RE_FLAGS')
    calls = [x for x in ast.walk(f.node) if isinstance(x, ast.Call) and norm(x.func) in ('re.match', 're.compile', 're.fullmatch', 're.search')]
    ok = False
    got = None
    for c in calls:
        fl = c.args[2] if len(c.args) > 2 else next((k.value for k in c.keywords if k.arg == 'flags'), None)
        if norm(c.func) == 're.compile':
            fl = c.args[1] if len(c.args) > 1 else fl
        if fl is not None:
            try:
                got = p.fold(f.mod, fl)
            except AnalysisError:
                got = None
            ok = got == want
    run.ob('C08-REXFLAGS', '%s::%s' % (f.rel, f.short), ok, 'regex_matcher matches with flags %r (rexpy: %r)' % (got, want), fn=f)
    # and it is the function registered
    reg = [x for g in p.funcs.values() if g.mod.name == 'tdda.constraints.db.drivers' for x in p.own_nodes(g)
           if isinstance(x, ast.Call) and isinstance(x.func, ast.Attribute) and x.func.attr == 'create_function']
    ok2 = bool(reg) and all(len(x.args) == 3 and norm(x.args[2]) == 'regex_matcher' and isinstance(x.args[0], ast.Constant)
                            and x.args[0].value.lower() == 'regexp' for x in reg)
    run.ob('C08-REXFLAGS', 'registration', ok2, 'create_function registers regex_matcher as regexp: %s' % [norm(x) for x in reg], fn=f, nontrivial=False)
    run.floor('C08-REXFLAGS', 2, 2)


TXN_CALLS = {'commit', 'rollback', 'close', 'executescript', 'set_session', 'begin'}
DML = re.compile(r'^\s*(insert|update|delete|drop|create|alter|truncate|begin|commit|rollback|vacuum|replace|attach)\b', re.I)
TXN_POSITIVE = '''
def f(self):
    self.dbc.rollback()
    self.cursor.execute('DELETE FROM t')
    self.cursor.execute('SELECT 1')
'''


def txn_sites(nodes):
    out = []
    for x in nodes:
        if isinstance(x, ast.Call) and isinstance(x.func, ast.Attribute) and x.func.attr in TXN_CALLS:
            recv = norm(x.func.value)
            # close() on a file just opened is not transaction control; commit / rollback are, on anything
            if x.func.attr == 'close' and not re.search(r'(dbc|conn|connection|cursor|\bdb)\b', recv):
                continue
            out.append((x, '%s()' % norm(x.func)))
        if isinstance(x, ast.Attribute) and x.attr in ('autocommit', 'isolation_level') and isinstance(x.ctx, ast.Store):
            out.append((x, 'assignment to %s' % norm(x)))
        if isinstance(x, ast.Constant) and isinstance(x.value, str) and DML.match(x.value):
            out.append((x, 'SQL statement %r' % x.value[:40]))
    return out


def readonly(run, p, roots):
    run.rule('C08-READONLY', 'discovery and verification read the table as the caller\'s connection shows it and leave its transaction '
                             'alone: no function reachable from discover_db_table / verify_db_table commits, rolls back or closes a '
                             'connection, changes its autocommit / isolation level, or issues a data-changing SQL statement')
    if len(txn_sites(list(ast.walk(ast.parse(TXN_POSITIVE))))) != 2:
        raise AnalysisError('transaction rule no longer matches its embedded example')
    seen = dict(p.reach(roots))
    # the handler classes are instantiated through the DATABASE_HANDLERS table (handlerClass(dbtype, dbc)), which the
    # call graph does not resolve: their constructors run on every discovery and verification
    for c in p.classes.values():
        if c.mod.name == 'tdda.constraints.db.drivers' and '__init__' in c.methods:
            seen.setdefault((c.methods['__init__'].qn, c.qn), None)
    n = 0
    done = set()
    for (qn, ctx) in seen:
        if qn in done:
            continue
        done.add(qn)
        f = p.funcs[qn]
        if not f.rel.startswith('tdda/constraints/'):
            continue
        n += 1
        sites = txn_sites(list(p.own_nodes(f)))
        if not sites:
            run.ob('C08-READONLY', '%s::%s' % (f.rel, f.short), True, 'no transaction control, no data-changing SQL', fn=f, nontrivial=False)
        for node, what in sites:
            run.ob('C08-READONLY', '%s::%s::%s' % (f.rel, f.short, what[:50]), False,
                   '%s, reachable from the discovery / verification entry points, performs %s on the caller\'s connection' % (f.short, what),
                   fn=f, node=node)
    run.floor('C08-READONLY', n, 100)
