"""C08 - database discovery is sound and database verification notices violating rows."""
from .. import ief, triage

ROOTS = ['discover_db_table', 'verify_db_table']


def check(run):
    p = run.prog
    roots = [p.fn(r) for r in ROOTS]
    ief.run_ief(run, 'C08', roots, triage=triage.IEF)
    run.floor('C08-IEF', run.units['ief_functions_checked'], 150)
