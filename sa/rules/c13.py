"""C13 - every expression rexpy returns compiles, is anchored, and tagging only groups."""
import ast
import re
import re._parser as sre_parse
import re._constants as C

from ..model import AnalysisError, norm
from ..pyeval import Obj, Unsupported
from .c03 import interp, bracket, esc, klass, RX


def check(run):
    p = run.prog
    from . import rexpy_eval
    run.attempt(rexpy_eval.run_rule, run, p, 'C13')
    I = interp(p)
    flags = p.const('tdda.rexpy.rexpy', 'RE_FLAGS')
    run.attempt(anchor, run, p)
    run.attempt(tag, run, p)
    run.attempt(tagfree, run, p)
    run.attempt(quant, run, p, I, flags)
    run.attempt(esc, run, p)
    run.rules['C13-ESC'] = run.rules.pop('C03-ESC')
    for o in run.obs:
        if o.rule == 'C03-ESC':
            o.rule = 'C13-ESC'
    run.floors = [(('C13-ESC' if r == 'C03-ESC' else r), c, m) for r, c, m in run.floors]
    run.attempt(bracket, run, p, I, flags, 'C13')
    from .. import ief, triage
    run.attempt(ief.run_ief, run, 'C13', [p.fn(RX + 'extract'), p.fn(RX + 'pdextract'), p.method('Extractor', '__init__')], triage=triage.IEF, selfattr=True)
    run.floor('C13-IEF', run.units.get('ief_functions_checked', 0), 60)
    run.attempt(klass, run, p, I, flags)
    run.rules['C13-CLASS'] = run.rules.pop('C03-CLASS') + ' (an expression built from a class that does not contain its characters matches none of its examples)'
    for o in run.obs:
        if o.rule == 'C03-CLASS':
            o.rule = 'C13-CLASS'
    run.floors = [(('C13-CLASS' if r == 'C03-CLASS' else r), c, m) for r, c, m in run.floors]
    from .c03 import discard, wspad, catsync
    run.attempt(wspad, run, p, 'C13-WSPAD')
    before = len(run.obs)
    run.attempt(catsync, run, p)
    run.rules['C13-CATSYNC'] = run.rules.pop('C03-CATSYNC') + ' (an output class thinned against a different example list than the internal one renders an expression that matches none of the examples)'
    for o in run.obs[before:]:
        if o.rule == 'C03-CATSYNC':
            o.rule = 'C13-CATSYNC'
    run.floors = [(('C13-CATSYNC' if r == 'C03-CATSYNC' else r), c, m) for r, c, m in run.floors]
    run.attempt(discard, run, p, 'C13-STRIPCOUNT')
    run.rules['C13-STRIPCOUNT'] += ' (the stripped-examples counter decides whether the expressions get their \\s* wrappers: a blank example counted wrongly leaves an expression that matches none of the examples as given)'
    from .common import observed_rule
    n = observed_rule(run, 'C13-OBSERVED', p, [f for f in p.funcs.values() if f.mod.name == 'tdda.rexpy.rexpy' and f.cls is None],
                      'every example handed to the extractor is a value that is present: an expression learnt from a categorical '
                      'column\'s unused declared level (.cat.categories, unfiltered value_counts()) matches none of the examples')
    run.floor('C13-OBSERVED', n, 8)


def tagfree(run, p):
    from .common import dep_closure, names_in
    run.rule('C13-TAGFREE', 'which expressions are kept never depends on how they are written: on the extraction path (everything '
                            'reachable from Extractor.extract / __init__) the rendered expressions - whose text differs between tagged '
                            'and untagged runs - are only matched against strings or returned, never sorted, compared or ranked as text '
                            '(no sort / sorted / min / max / terminate_patterns_and_sort over values derived from results.rex)')
    ex = p.cls('Extractor')
    seen = p.reach([p.method('Extractor', 'extract'), p.method('Extractor', '__init__')])
    n = 0
    done = set()
    for (qn, ctx) in seen:
        if qn in done:
            continue
        done.add(qn)
        f = p.funcs[qn]
        if f.mod.name != 'tdda.rexpy.rexpy' or isinstance(f.node, ast.Lambda):
            continue
        n += 1
        bad = []
        for x in p.own_nodes(f):
            if not isinstance(x, ast.Call):
                continue
            nm = norm(x.func).split('.')[-1]
            args = list(x.args) + ([x.func.value] if isinstance(x.func, ast.Attribute) and nm == 'sort' else [])
            if nm not in ('sorted', 'sort', 'min', 'max', 'terminate_patterns_and_sort'):
                continue
            src = set()
            direct = False
            for a in args:
                src |= names_in(a)
                direct = direct or any(isinstance(y, ast.Attribute) and y.attr == 'rex' for y in ast.walk(a))
            clo = dep_closure(f.node, src) | src
            via = any(isinstance(s, ast.Assign) and any(isinstance(t, ast.Name) and t.id in clo for t in ast.walk(s.targets[0]))
                      and any(isinstance(y, ast.Attribute) and y.attr == 'rex' for y in ast.walk(s.value))
                      for s in p.own_nodes(f))
            if direct or via:
                bad.append(x)
        if not bad:
            run.ob('C13-TAGFREE', '%s::%s' % (f.rel, f.short), True, 'does not order or rank rendered expressions', fn=f, nontrivial=False)
        for x in bad:
            run.ob('C13-TAGFREE', '%s::%s::%s' % (f.rel, f.short, norm(x)[:50]), False,
                   '%s orders rendered expressions as text (%s): with capture groups "(" sorts differently from "[" or a literal, so '
                   'tagging can change which expressions survive' % (f.short, norm(x)[:60]), fn=f, node=x)
    run.floor('C13-TAGFREE', n, 40)


def _is_group_of(p, f, wrap, plain):
    """wrap denotes plain inside one pair of parentheses: both expressions evaluated with every name they use standing for a
    distinct piece of text"""
    from ..pyeval import Interp, Unsupported, Raised
    env = {}
    for x in list(ast.walk(wrap)) + list(ast.walk(plain)):
        if isinstance(x, ast.Name) and isinstance(x.ctx, ast.Load) and x.id not in f.mod.syms:
            env.setdefault(x.id, '<%s>' % x.id)
    try:
        I = Interp(p)
        return I.expr(wrap, dict(env), f.mod) == '(' + I.expr(plain, dict(env), f.mod) + ')'
    except (Unsupported, Raised, TypeError):
        return False


def anchor(run, p):
    run.rule('C13-ANCHOR', 'every expression stored in a result\'s rex list is produced by vrle2re/rle2re; every return of those passes the '
                           'anchoring wrapper poss_term_re, which is bound to ^...$ because TERMINATE folds to True')
    m = p.mod('tdda.rexpy.rexpy')
    term = p.const(m, 'TERMINATE')
    run.ob('C13-ANCHOR', 'TERMINATE', term is True, 'TERMINATE = %r' % (term,), rel=m.rel, line=m.consts['TERMINATE'].lineno, nontrivial=False)
    # binding of poss_term_re under `if TERMINATE:`
    bound = None
    for s in m.tree.body:
        if isinstance(s, ast.If) and norm(s.test) == 'TERMINATE':
            for x in s.body:
                if isinstance(x, ast.Assign) and any(norm(t) == 'poss_term_re' for t in x.targets):
                    bound = norm(x.value)
    from ..pyeval import Interp, Unsupported, Raised
    ok = False
    got = None
    if bound and bound.isidentifier() and p.has_fn(RX + bound):
        tr = p.fn(RX + bound)
        try:
            got = [Interp(p).call(tr, [x]) for x in ('abc', '[a-z]+\\d', '')]
            ok = got == ['^abc$', '^[a-z]+\\d$', '^$']
        except (Unsupported, Raised) as e:
            raise AnalysisError('%s is not evaluable: %s' % (bound, e))
    else:
        # bound some other way (a conditional expression, a def under the test ...): whatever the module-level name denotes, evaluated
        try:
            I = Interp(p)
            val = I.expr(ast.Name('poss_term_re', ast.Load()), {}, m)
            got = [I.apply(val, [x], {}) for x in ('abc', '[a-z]+\\d', '')]
            ok = got == ['^abc$', '^[a-z]+\\d$', '^$']
            bound = 'the module-level poss_term_re'
        except (Unsupported, Raised) as e:
            raise AnalysisError('poss_term_re is not evaluable: %s' % e)
    run.ob('C13-ANCHOR', 'poss_term_re', ok, 'poss_term_re is %s, which wraps an expression as %s' % (bound, got), rel=m.rel, line=1)
    for name in ('vrle2re', 'rle2re'):
        f = p.method('Extractor', name)
        rets = [r for r in ast.walk(f.node) if isinstance(r, ast.Return)]
        for r in rets:
            ok = isinstance(r.value, ast.Call) and getattr(r.value.func, 'id', '') == 'poss_term_re'
            run.ob('C13-ANCHOR', '%s::%s::%s' % (f.rel, f.short, norm(r)[:40]), ok, '%s returns %s' % (name, norm(r.value)[:50]), fn=f, node=r)
    # stores into .rex
    n = 0
    producers = {'vrle2re', 'rle2re', 'to_re'}
    for f in p.funcs.values():
        if f.mod.name != 'tdda.rexpy.rexpy':
            continue
        for x in p.own_nodes(f):
            val = None
            if isinstance(x, ast.Assign) and any(isinstance(t, ast.Attribute) and t.attr == 'rex' for t in x.targets):
                val = x.value
            if isinstance(x, ast.Call) and isinstance(x.func, ast.Attribute) and x.func.attr in ('append', 'extend', 'insert') \
                    and isinstance(x.func.value, ast.Attribute) and x.func.value.attr == 'rex':
                val = x.args[-1]
            if val is None:
                continue
            n += 1
            if isinstance(val, ast.Name) and val.id in f.params and f.name == '__init__':
                # constructor parameter: check the argument at the construction sites
                ok = True
                for g in p.funcs.values():
                    for c in p.own_nodes(g):
                        if isinstance(c, ast.Call) and getattr(c.func, 'id', '') == f.cls.name:
                            idx = f.posparams.index(val.id) - 1
                            arg = c.args[idx] if idx < len(c.args) else next((k.value for k in c.keywords if k.arg == val.id), None)
                            ok = ok and _from_producer(g, arg, producers)
                run.ob('C13-ANCHOR', '%s::%s::rex-param' % (f.rel, f.short), ok, 'the rex list handed to %s is built by vrle2re at every construction site' % f.cls.name, fn=f, node=x)
                continue
            ok = _elements_from(val, producers)
            run.ob('C13-ANCHOR', '%s::%s::%s' % (f.rel, f.short, norm(x)[:40]), ok, 'store into .rex: %s' % norm(x)[:70], fn=f, node=x)
    run.floor('C13-ANCHOR', n, 3)


def _is_rex_attr(e):
    return isinstance(e, ast.Attribute) and e.attr == 'rex'


def _elements_from(val, producers):
    """The stored list's elements are fresh results of a producer, or existing elements of a .rex list (a selection,
    slice or copy of it keeps them anchored)."""
    if isinstance(val, ast.Subscript) and _is_rex_attr(val.value):
        return True                                          # self.rex[:n]
    if isinstance(val, ast.Call) and getattr(val.func, 'id', '') in ('list', 'sorted') and val.args and _is_rex_attr(val.args[0]):
        return True
    if isinstance(val, ast.ListComp):
        elt = val.elt
        if isinstance(elt, ast.Subscript) and _is_rex_attr(elt.value):
            return True                                      # [self.rex[i] for i in kept]
        if isinstance(elt, ast.Name) and any(isinstance(g.target, ast.Name) and g.target.id == elt.id and _is_rex_attr(g.iter)
                                             for g in val.generators):
            return True                                      # [r for r in self.rex if ...]
        val = elt
    return isinstance(val, ast.Call) and isinstance(val.func, ast.Attribute) and val.func.attr in producers


def _from_producer(g, arg, producers):
    if arg is None:
        return False
    if isinstance(arg, ast.Name):
        for s in ast.walk(g.node):
            if isinstance(s, ast.Assign) and any(isinstance(t, ast.Name) and t.id == arg.id for t in s.targets):
                return _elements_from(s.value, producers)
        return False
    return _elements_from(arg, producers)


def tag(run, p):
    from ..mirror import blocks_of as mirror_blocks
    run.rule('C13-TAG', 'the tag/tagged flag is only ever forwarded (as an argument, or stored as self.tag) or used as the test of a conditional '
                        'whose two arms are group(X) and X: requesting capture groups cannot change what is matched')
    n = 0
    for f in p.funcs.values():
        if f.mod.name != 'tdda.rexpy.rexpy':
            continue
        uses = []
        parents = {}
        for x in ast.walk(f.node):
            for ch in ast.iter_child_nodes(x):
                parents[id(ch)] = x
        for x in p.own_nodes(f):
            if (isinstance(x, ast.Name) and x.id in ('tagged', 'tag', 'grouped') and isinstance(x.ctx, ast.Load) and x.id in f.params) or \
                    (isinstance(x, ast.Attribute) and x.attr == 'tag' and isinstance(x.ctx, ast.Load) and norm(x.value) in ('self', 'x')):
                uses.append(x)
        for u in uses:
            n += 1
            par = parents.get(id(u))
            ok = False
            how = 'other'
            if isinstance(par, ast.keyword) or (isinstance(par, ast.Call) and u in par.args):
                ok, how = True, 'forwarded'
            elif isinstance(par, ast.Assign) and par.value is u:
                ok, how = True, 'stored'
            else:
                # climb to the enclosing IfExp test
                q, child = par, u
                while q is not None and isinstance(q, (ast.BoolOp, ast.UnaryOp)):
                    child, q = q, parents.get(id(q))
                if isinstance(q, ast.IfExp) and q.test is child:
                    a, b = q.body, q.orelse
                    for wrap, plain in ((a, b), (b, a)):
                        if _is_group_of(p, f, wrap, plain):
                            ok, how = True, 'group-or-not'
                # statement form:  if <tag test>: return group(X)  [else:] return X
                if isinstance(q, ast.If) and q.test is child and len(q.body) == 1 and isinstance(q.body[0], ast.Return):
                    alt = None
                    if len(q.orelse) == 1 and isinstance(q.orelse[0], ast.Return):
                        alt = q.orelse[0]
                    elif not q.orelse:
                        blk = next((b for b in mirror_blocks(f.node) if q in b), None)
                        if blk is not None and blk.index(q) + 1 < len(blk) and isinstance(blk[blk.index(q) + 1], ast.Return):
                            alt = blk[blk.index(q) + 1]
                    if alt is not None and alt.value is not None:
                        wrap, plain = q.body[0].value, alt.value
                        if _is_group_of(p, f, wrap, plain):
                            ok, how = True, 'group-or-not'
            from .c11 import backed
            backed(run, 'C13-TAG', '%s::%s::%s' % (f.rel, f.short, norm(par)[:40] if par is not None else u.lineno), ok,
                   '%s in %s is %s: %s' % (norm(u), f.short, how, norm(par)[:60] if par is not None else ''), 'C13-EXTRACT', fn=f, node=u)
    cg = p.fn(RX + 'capture_group')
    from ..pyeval import Interp, Unsupported, Raised
    try:
        got = [Interp(p).call(cg, [x]) for x in ('ab', '[a-z]+', '(ab)', 'a)(b', '')]
    except (Unsupported, Raised) as e:
        raise AnalysisError('capture_group is not evaluable: %s' % e)
    run.ob('C13-TAG', 'capture_group', got[:2] == ['(ab)', '([a-z]+)'] and got[2] in ('(ab)', '((ab))'),
           'capture_group only adds parentheses: %s' % got, fn=cg, nontrivial=False)
    run.floor('C13-TAG', n, 8)


def quant(run, p, I, flags):
    run.rule('C13-QUANT', 'fragment2re renders a fragment (atom, min, max) as a regex that parses as a repetition of exactly that atom and admits '
                          'every count from min to max (max None = unbounded), for fixed fragments and every small (min, max)')
    f = p.method('Extractor', 'fragment2re')
    ex = p.cls('Extractor')
    n = 0
    bad = []
    for m in (None, 0, 1, 2, 3, 4):
        for M in (None, 1, 2, 3, 4, 7):
            if M is not None and m is not None and M < m:
                continue
            if m is None and M is not None:
                continue
            for atom in ('x', r'\.', '[ab]'):
                o = Obj(ex)
                o.attrs.update({'dialect': None, 'Cats': None, 'OutCats': None})
                try:
                    out = I.call(f, [(atom, m, M, 'fixed')], {'tagged': False}, o)
                except Unsupported as e:
                    raise AnalysisError('fragment2re not interpretable: %s' % e)
                n += 1
                lo, hi = _rep(out, atom, flags)
                wl, wh = (m or 0), M
                ok = isinstance(lo, int) and lo <= wl and (hi is None or (wh is not None and hi >= wh))
                if wh is None:
                    ok = ok and hi is None
                if not ok:
                    bad.append(((atom, m, M), out, (lo, hi)))
    run.ob('C13-QUANT', 'fragment2re', not bad,
           '%d (atom, min, max) fragments rendered by abstract interpretation%s' % (n, '' if not bad else
                                                                                   '; wrong: %r -> %r repeats %r' % bad[0]), fn=f)
    run.floor('C13-QUANT', n, 60)


def _rep(rx, atom, flags):
    """(min, max) repetitions of `atom` that regex rx denotes, or (None, None)."""
    try:
        parsed = list(sre_parse.parse(rx, flags))
        one = list(sre_parse.parse(atom, flags))
    except re.error:
        return ('unparsable', None)
    if len(one) != 1:
        return ('?', None)
    def same(x):
        return repr(x) == repr(one[0])
    if all(same(x) for x in parsed):
        return (len(parsed), len(parsed))
    if len(parsed) == 1 and parsed[0][0] in (C.MAX_REPEAT,):
        lo, hi, sub = parsed[0][1]
        if len(sub) == 1 and same(sub[0]):
            return (lo, None if hi is C.MAXREPEAT else hi)
    return ('?', None)
