"""C14 - rexpy results depend only on the multiset of examples and the seed."""
import ast

from .. import triage
from ..flow import GuardMap
from ..model import AnalysisError, norm

MOD = 'tdda.rexpy.rexpy'
ROOTS = ('Extractor.__init__', 'Extractor.extract')
RANDOM_FUNCS = {'sample', 'choice', 'choices', 'shuffle', 'random', 'randint', 'randrange', 'uniform', 'getrandbits'}


def seeded_regions(f):
    """Try statements of f that are entered right after a PRNGState(...) is created and whose finally restores it."""
    out = []
    for blk in _blocks(f.node):
        for i, s in enumerate(blk):
            if isinstance(s, ast.Assign) and isinstance(s.value, ast.Call) and getattr(s.value.func, 'id', '') == 'PRNGState':
                tgt = norm(s.targets[0])
                nxt = blk[i + 1] if i + 1 < len(blk) else None
                ok = isinstance(nxt, ast.Try) and any(isinstance(c, ast.Call) and norm(c.func) == tgt + '.restore'
                                                      for x in nxt.finalbody for c in ast.walk(x))
                out.append((s, nxt if ok else None, tgt))
            # `with PRNGState(seed):` - the block is the protected region when the class restores on exit (checked below)
            if isinstance(s, ast.With) and any(isinstance(it.context_expr, ast.Call) and getattr(it.context_expr.func, 'id', '') == 'PRNGState'
                                               for it in s.items):
                out.append((s, s, 'with'))
    return out


def _blocks(fnode):
    out = []

    def rec(stmts):
        out.append(stmts)
        for s in stmts:
            if isinstance(s, (ast.FunctionDef, ast.ClassDef)):
                continue
            for fld in ('body', 'orelse', 'finalbody'):
                b = getattr(s, fld, None)
                if isinstance(b, list) and b and isinstance(b[0], ast.stmt):
                    rec(b)
            if isinstance(s, ast.Try):
                for h in s.handlers:
                    rec(h.body)
    rec(fnode.body)
    return out


def inside(node, tries):
    for t in tries:
        for part in t.body + [x for h in getattr(t, 'handlers', []) for x in h.body] + getattr(t, 'orelse', []):
            if any(x is node for x in ast.walk(part)):
                return True
    return False


def check(run):
    p = run.prog
    from . import rexpy_eval
    run.attempt(rexpy_eval.run_rule, run, p, 'C14')
    run.attempt(rexpy_eval.size_rule, run, p)
    funcs = [f for f in p.funcs.values() if f.mod.name == MOD]
    regions = {}
    run.rule('C14-RESTORE', 'every PRNGState(seed) is immediately followed by a try whose finally calls .restore(): no exit between '
                            'seeding the global generator and the protected region, and every exit of the region restores it')
    nreg = 0
    for f in funcs:
        rs = seeded_regions(f)
        regions[f.qn] = [t for s, t, tgt in rs if t is not None]
        for s, t, tgt in rs:
            nreg += 1
            run.ob('C14-RESTORE', '%s::%s::%s' % (f.rel, f.short, norm(s)[:40]), t is not None,
                   '%s in %s is %s' % (norm(s)[:40], f.short, 'followed at once by try/finally %s.restore()' % tgt if t is not None else
                                       'NOT immediately followed by a try whose finally restores it: an early exit or exception in between leaves the global generator re-seeded'),
                   fn=f, node=s)
    run.floor('C14-RESTORE', nreg, 2)
    ps = p.cls('PRNGState')
    init = ps.methods['__init__']
    from ..pyeval import Interp, Model, Obj, Unsupported, Raised

    class Rnd(Model):
        def __init__(self):
            self.log = []
            self.state = 'S0'

        def getstate(self):
            self.log.append('getstate')
            return self.state

        def seed(self, n=None):
            self.log.append('seed(%r)' % (n,))
            self.state = 'seeded'

        def setstate(self, st):
            self.log.append('setstate(%s)' % st)
            self.state = st
    bad = []
    for n_ in (None, 0, 7, 'text'):
        for how in ('restore', 'with'):
            if how == 'with' and '__exit__' not in ps.methods:
                continue
            rnd = Rnd()
            I = Interp(p)
            I.extra_names['random'] = rnd
            o = Obj(ps)
            try:
                I.call(init, [n_], selfobj=o)
                after_init = list(rnd.log)
                if how == 'restore':
                    I.call(ps.methods['restore'], [], selfobj=o)
                else:
                    I.call(ps.methods['__enter__'], [], selfobj=o)
                    I.call(ps.methods['__exit__'], [None, None, None], selfobj=o)
            except (Unsupported, Raised) as e:
                raise AnalysisError('PRNGState is not evaluable: %s' % e)
            want_init = [] if n_ is None else ['getstate', 'seed(%r)' % (n_,)]
            want = want_init + ([] if n_ is None else ['setstate(S0)'])
            if after_init != want_init or rnd.log != want or rnd.state != 'S0':
                bad.append((n_, how, rnd.log))
    run.ob('C14-RESTORE', 'PRNGState:seed-test', not [b for b in bad if b[0] in (0,)],
           'PRNGState(0) saves the global state, seeds with 0 and restores: 0 is a seed%s' % (
               '' if not [b for b in bad if b[0] == 0] else ' - not so: calls made %s (a truthiness test treats seed 0 as no seed)' % [b for b in bad if b[0] == 0][0][2]), fn=init)
    other = [b for b in bad if b[0] != 0]
    run.ob('C14-RESTORE', 'PRNGState', not other,
           'PRNGState(seed) saves the global state and seeds exactly when a seed is given, and restore() (or leaving a with block) puts the '
           'saved state back%s' % ('' if not other else ' - not for seed %r via %s: %s' % other[0]), fn=init, nontrivial=False)

    run.rule('C14-PRNG', 'every use of the global random generator lies inside a seeded, restored region on every call chain from '
                         'Extractor.__init__ / Extractor.extract')
    # reverse call graph with call sites
    callers = {}
    ex = p.cls('Extractor')
    for f in funcs:
        ctx = ex.qn if f.cls is not None and f.cls.qn == ex.qn else None
        for call, ts, kind in p.calls(f, ctx):
            if kind not in ('resolved',):
                continue
            for g, c2 in ts:
                callers.setdefault(g.qn, []).append((f, call))
    sites = []
    for f in funcs:
        if f.cls is not None and f.cls.name == 'PRNGState':
            continue
        for x in p.own_nodes(f):
            if isinstance(x, ast.Call) and isinstance(x.func, ast.Attribute) and norm(x.func.value) == 'random' and x.func.attr in RANDOM_FUNCS:
                sites.append((f, x))
    roots = {p.method(*r.split('.')).qn for r in ROOTS}
    n = 0
    for f, x in sites:
        chains = []

        def walk(g, node, covered, path):
            covered = covered or inside(node, regions.get(g.qn, []))
            if g.qn in roots:
                chains.append((covered, [g.short] + path))
                # a root may itself be called from another root (extract from __init__): keep climbing
            cs = callers.get(g.qn, [])
            for h, call in cs:
                if h.qn == g.qn or h.short in path or len(path) > 8:
                    continue
                walk(h, call, covered, [g.short] + path)
        walk(f, x, False, [])
        if not chains:
            run.note('C14-PRNG', '%s uses random.%s but is not reachable from the extraction entry points' % (f.short, x.func.attr), f, x)
            continue
        n += 1
        bad = [c for cov, c in chains if not cov]
        run.ob('C14-PRNG', '%s::%s::random.%s' % (f.rel, f.short, x.func.attr), not bad,
               'random.%s in %s: %d call chains from the entry points, %s' % (x.func.attr, f.short, len(chains),
                                                                            'all inside a seeded region' if not bad else
                                                                            'outside any seeded region on ' + ' -> '.join(bad[0])),
               fn=f, node=x, detail={'unseeded_chain': bad[0]} if bad else None)
    run.floor('C14-PRNG', n, 2)
    run.attempt(order, run, p, funcs)
    run.attempt(memo, run, p)
    run.attempt(argmut, run, p)
    run.attempt(seedfwd, run, p)
    from .c03 import evidence
    run.attempt(evidence, run, p, 'C14-EVIDENCE')
    run.rules['C14-EVIDENCE'] += ' (a cap on what is seen would make the class chosen depend on which examples come first)'
    from .common import observed_rule
    n = observed_rule(run, 'C14-OBSERVED', p, [f for f in funcs if f.cls is None],
                      'the Series form is the list of values present: pdextract and the other module-level entry functions never take '
                      'examples from a categorical column\'s declared levels (.cat.categories, unfiltered value_counts())')
    run.floor('C14-OBSERVED', n, 8)
    from .. import ief
    run.attempt(ief.run_ief, run, 'C14', [p.fn(MOD + '.extract'), p.fn(MOD + '.pdextract')], triage=triage.IEF)
    run.floor('C14-IEF', run.units.get('ief_functions_checked', 0), 60)


def order(run, p, funcs):
    run.rule('C14-ORDER', 'a set that is turned into a sequence (list(s), or iterated to build one) is sorted before it leaves the function, '
                          'so hash order cannot reach the result')
    n = 0
    for f in funcs:
        setvars = set()
        for x in p.own_nodes(f):
            if isinstance(x, ast.Assign) and len(x.targets) == 1 and isinstance(x.targets[0], ast.Name):
                v = x.value
                if (isinstance(v, ast.Call) and getattr(v.func, 'id', '') in ('set', 'frozenset')) or isinstance(v, (ast.Set, ast.SetComp)):
                    setvars.add(x.targets[0].id)
        parents = {}
        for x in ast.walk(f.node):
            for ch in ast.iter_child_nodes(x):
                parents[id(ch)] = x
        for x in p.own_nodes(f):
            conv = None
            if isinstance(x, ast.Call) and getattr(x.func, 'id', '') in ('list', 'tuple') and x.args:
                a = x.args[0]
                if (isinstance(a, ast.Call) and getattr(a.func, 'id', '') == 'set') or (isinstance(a, ast.Name) and a.id in setvars):
                    conv = x
            if conv is None:
                continue
            n += 1
            par = parents.get(id(conv))
            ok = isinstance(par, ast.Call) and getattr(par.func, 'id', '') == 'sorted'
            if not ok and isinstance(par, ast.Assign) and isinstance(par.targets[0], ast.Name):
                nm = par.targets[0].id
                ok = any(isinstance(c, ast.Call) and isinstance(c.func, ast.Attribute) and c.func.attr == 'sort' and norm(c.func.value) == nm
                         for c in ast.walk(f.node)) or \
                    any(isinstance(c, ast.Call) and getattr(c.func, 'id', '') == 'sorted' and c.args and norm(c.args[0]) == nm for c in ast.walk(f.node))
            tr = triage.ORDER.get((f.short, norm(conv)[:40]))
            if tr:
                run.note('C14-ORDER', 'triaged: ' + tr, f, conv)
                ok = True
            run.ob('C14-ORDER', '%s::%s::%s' % (f.rel, f.short, norm(conv)[:40]), ok,
                   '%s in %s %s' % (norm(conv)[:40], f.short, 'is sorted before use' if ok else 'is used in hash order'), fn=f, node=conv)
    run.floor('C14-ORDER', n, 1)


def memo(run, p):
    from .common import dep_closure, names_in
    run.rule('C14-MEMO', 'a result kept in a module-level table is keyed by everything it was computed from: for every store '
                         'TABLE[key] = value in the rexpy module, each parameter of the function that the value depends on also '
                         'appears in the key (a memo that forgets an argument makes a call depend on the calls before it)')
    m = p.mod(MOD)
    tables = set()
    for s in m.tree.body:
        if isinstance(s, ast.Assign) and len(s.targets) == 1 and isinstance(s.targets[0], ast.Name) and \
                (isinstance(s.value, ast.Dict) and not s.value.keys or
                 (isinstance(s.value, ast.Call) and getattr(s.value.func, 'id', '') in ('dict', 'OrderedDict', 'defaultdict') and not s.value.args)):
            tables.add(s.targets[0].id)
    n = 0
    for f in p.funcs.values():
        if f.mod is not m or isinstance(f.node, ast.Lambda):
            continue
        for s in p.own_nodes(f):
            if not isinstance(s, ast.Assign):
                continue
            tg = [t for t in s.targets if isinstance(t, ast.Subscript) and isinstance(t.value, ast.Name) and t.value.id in tables]
            if not tg:
                continue
            tgt = tg[0]
            n += 1
            params = set(f.params) - {'self', 'cls'}
            vsrc = names_in(s.value)
            ksrc = names_in(tgt.slice)
            vdep = (dep_closure(f.node, vsrc) | vsrc) & params
            kdep = (dep_closure(f.node, ksrc) | ksrc) & params
            miss = sorted(vdep - kdep)
            run.ob('C14-MEMO', '%s::%s::%s' % (f.rel, f.short, tgt.value.id), not miss,
                   '%s caches a value computed from %s under a key built from %s%s' % (
                       f.short, sorted(vdep), sorted(kdep), '' if not miss else ': %s is not part of the key' % ', '.join(miss)),
                   fn=f, node=s)
    run.floor('C14-MEMO', n, 1)


ARG_ENTRIES = ['extract', 'pdextract', 'rexpy_streams', 'Extractor.__init__']
ARGMUT_POSITIVE = '''
def entry(strings, skip=False):
    if skip and strings:
        del strings[0]
    keep = strings
    keep.sort()
    strings = list(strings)
    strings.append('x')
    return helper(keep)
def helper(xs):
    xs += ['y']
    return xs
'''


def argmut(run, p):
    from .common import param_mutations
    from ..model import Program
    run.rule('C14-ARGMUT', 'repeating a call gives the same result because a call leaves its arguments alone: no entry point (extract, '
                           'pdextract, rexpy_streams, Extractor()) deletes from, stores into, sorts, extends or otherwise changes in '
                           'place a container it was handed, directly or through a helper it passes it to')
    # liveness: the embedded example must yield its three mutations (del, sort through an alias, += in a helper) and not the rebound append
    pos = Program({'tdda/_argmut_example.py': ARGMUT_POSITIVE})
    got = sorted(how for g, node, how in param_mutations(pos, pos.fn('entry'), 'strings'))
    if got != ['del strings[0]', 'in-place xs += [\'y\']', 'keep.sort()']:
        raise AnalysisError('argument-mutation analysis no longer matches its embedded example: %r' % (got,))
    n = 0
    for name in ARG_ENTRIES:
        f = p.fn(MOD + '.' + name) if '.' not in name else p.method(*name.split('.'))
        for q in f.posparams + list(f.kwonly):
            if q in ('self', 'cls'):
                continue
            n += 1
            ms = param_mutations(p, f, q, f.cls.qn if f.cls is not None else None)
            if not ms:
                run.ob('C14-ARGMUT', '%s::%s::%s' % (f.rel, f.short, q), True, 'argument %s of %s is never changed in place' % (q, f.short), fn=f)
            for g, node, how in ms:
                run.ob('C14-ARGMUT', '%s::%s::%s::%s' % (f.rel, f.short, q, how), False,
                       'argument %s of %s is changed in place: %s in %s' % (q, f.short, how, g.short), fn=g, node=node)
    run.floor('C14-ARGMUT', n, 30)


def seedfwd(run, p):
    from ..flow import GuardMap
    run.rule('C14-SEEDFWD', 'a given seed always takes effect: every PRNGState(...) in Extractor is handed the constructor\'s `seed` '
                            'argument or self.seed, and self.seed is assigned that argument as it is, unconditionally (not made to '
                            'depend on a sampling flag or any other option)')
    ex = p.cls('Extractor')
    n = 0
    for m in ex.methods.values():
        gm = None
        for x in p.own_nodes(m):
            if isinstance(x, ast.Call) and norm(x.func).split('.')[-1] == 'PRNGState':
                n += 1
                a = x.args[0] if x.args else None
                ok = a is not None and ((isinstance(a, ast.Name) and a.id == 'seed' and 'seed' in m.params) or norm(a) == 'self.seed')
                run.ob('C14-SEEDFWD', '%s::%s::%s' % (m.rel, m.short, norm(x)[:40]), ok,
                       '%s seeds with %s' % (m.short, norm(a) if a is not None else 'nothing'), fn=m, node=x)
            if isinstance(x, ast.Assign) and any(norm(t) == 'self.seed' for t in x.targets):
                n += 1
                gm = gm or GuardMap(m.node)
                cond = [g for g in (gm.chain(x) or ()) if g.kind == 'if']
                ok = isinstance(x.value, ast.Name) and x.value.id == 'seed' and 'seed' in m.params and not cond
                run.ob('C14-SEEDFWD', '%s::%s::self.seed' % (m.rel, m.short), ok,
                       'self.seed = %s%s' % (norm(x.value)[:50], '' if ok else ': the caller\'s seed can be replaced or dropped'), fn=m, node=x)
    # the module-level entry points that take a seed hand it on: every call they make to extract() / Extractor(...) carries seed=<their
    # own seed parameter> (or passes it positionally in the seed position)
    for fname in ('extract', 'pdextract'):
        f = p.fn('tdda.rexpy.rexpy.' + fname)
        if 'seed' not in f.params:
            raise AnalysisError('%s no longer takes a seed' % fname)
        for x in p.own_nodes(f):
            if isinstance(x, ast.Call) and norm(x.func).split('.')[-1] in ('extract', 'Extractor') and not (fname == 'extract' and norm(x.func) == 'extract'):
                callee = p.fn('tdda.rexpy.rexpy.extract') if norm(x.func).split('.')[-1] == 'extract' else ex.methods['__init__']
                pos = [q for q in callee.posparams if q != 'self']
                given = {k.arg: k.value for k in x.keywords if k.arg}
                for i, a in enumerate(x.args):
                    if i < len(pos) and not isinstance(a, ast.Starred):
                        given[pos[i]] = a
                star = any(k.arg is None for k in x.keywords)
                v = given.get('seed')
                n += 1
                ok = isinstance(v, ast.Name) and v.id == 'seed'
                run.ob('C14-SEEDFWD', '%s::%s::%s' % (f.rel, f.short, norm(x.func)), ok,
                       '%s calls %s with seed=%s%s' % (fname, norm(x.func), norm(v) if v is not None else 'nothing',
                                                       '' if ok else (': the caller\'s seed is dropped' + (' (a named seed parameter is not part of **kwargs)' if star else ''))),
                       fn=f, node=x)
    run.floor('C14-SEEDFWD', n, 5)
