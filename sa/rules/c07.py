"""C07 - discovery reports exact statistics of the data (constraints are tight)."""
import ast
import re

from .. import fde, tables
from ..flow import GuardMap
from ..specialise import flat
from ..model import AnalysisError, norm
from .c01 import getmap, calcs, ctor_calls, sign_chain, sign_leaf
from .c06 import kinds_and_methods
from .common import dep_closure_at, names_in, guard_requires, nocache_rule

STRENGTH = {'zero': 3, 'positive': 2, 'negative': 2, 'non-negative': 1, 'non-positive': 1}
CTORS = {'MinConstraint': 'min', 'MaxConstraint': 'max', 'MinLengthConstraint': 'min_length', 'MaxLengthConstraint': 'max_length',
         'SignConstraint': 'sign', 'MaxNullsConstraint': 'max_nulls', 'NoDuplicatesConstraint': 'no_duplicates',
         'AllowedValuesConstraint': 'allowed_values'}


def admitted(test, name, upto=60, consts=None):
    """Set of non-negative integers n for which `test` (a comparison of `name` with a constant) holds."""
    if not (isinstance(test, ast.Compare) and len(test.ops) == 1 and isinstance(test.left, ast.Name) and test.left.id == name):
        return None
    c = test.comparators[0]
    if isinstance(c, ast.Constant) and isinstance(c.value, int):
        k = c.value
    elif isinstance(c, ast.Name) and consts and c.id in consts:
        k = consts[c.id]
    else:
        return None
    op = test.ops[0]
    f = {ast.Lt: lambda n: n < k, ast.LtE: lambda n: n <= k, ast.Gt: lambda n: n > k, ast.GtE: lambda n: n >= k,
         ast.Eq: lambda n: n == k, ast.NotEq: lambda n: n != k}.get(type(op))
    if f is None:
        return None
    return {n for n in range(upto) if f(n)}


def check(run):
    p = run.prog
    km = kinds_and_methods(p)
    gm = getmap(p)
    disc = p.method('BaseConstraintDiscoverer', 'discover_field_constraints')
    gmap = GuardMap(disc.node)
    run.attempt(discovery_table, run, p)
    semantic_ok = all(o.ok for o in run.obs if o.rule == 'C07-DISCOVERY')
    # The structural rules below name the site of a problem.  THRESH, STRONG and ABSENT restate clauses that C07-DISCOVERY
    # has just decided by abstract execution; if one of them loses its anchor or disagrees while the execution holds, it
    # has misread a refactored shape: that is a note, not a violation.  LENCHARS (which len is used) is not visible to the
    # execution and stays strict.
    for rid, fn_, args, covered in (('C07-THRESH', thresh, (run, p, disc, gmap, gm), True), ('C07-STRONG', strong, (run, p, km, disc), True),
                                    ('C07-ABSENT', absent, (run, p, disc, gmap), True), ('C07-LENCHARS', lenchars, (run, p, disc, gmap), False)):
        before = len(run.obs), len(run.floors)
        try:
            fn_(*args)
            failed = [o for o in run.obs[before[0]:] if not o.ok] or [f_ for f_ in run.floors[before[1]:] if f_[1] < f_[2]]
            if failed and covered and semantic_ok:
                raise AnalysisError('its reading of the code disagrees with the abstract execution: %s' % (
                    failed[0].msg[:80] if hasattr(failed[0], 'msg') else 'instance count %r' % (failed[0],)))
        except AnalysisError as e:
            if not (covered and semantic_ok):
                run.deferred.append('%s: %s' % (rid, e))     # reported unless a violation (of C07-DISCOVERY, say) is the better answer
                continue
            del run.obs[before[0]:]
            del run.floors[before[1]:]
            run.note(rid, 'per-site analysis skipped (%s); the clause is decided by C07-DISCOVERY' % e, fn=disc)
    run.attempt(agg, run, p)
    run.attempt(distinct, run, p)
    run.attempt(counted, run, p)
    from .common import shared_rule
    from .c09 import datepath as _datepath, kind_classes as _kc
    shared_rule(run, _datepath, (run, p, _kc(p)), 'C09-DATEPATH', 'C07-WRITTEN', ' (the minimum and maximum reported are values of the column: a date bound is written with every digit it has, '
                'fractions of a second included, so the bound in the .tdda file is still attained)')
    nocache_rule(run, 'C07-NOSHARED', p, ['tdda.constraints.db.drivers', 'tdda.constraints.db.constraints', 'tdda.constraints.baseconstraints'],
                 'statistics describe the table or frame at hand: no memoising decorator and no class-level container used as a cache in the '
                 'database handlers or the shared discovery/verification base (such a cache is keyed by name only and shared by every connection)')
    run.attempt(dtypes, run, p)
    from .common import zero_rule
    STAT = {'get_min', 'get_max', 'get_min_length', 'get_max_length', 'get_nunique', 'get_null_count', 'get_non_null_count', 'get_nrecords',
            'calc_min', 'calc_max', 'calc_min_length', 'calc_max_length', 'calc_nunique', 'calc_null_count', 'calc_non_null_count',
            'len', 'sum', 'count', 'nunique', 'min', 'max', 'execute_scalar', 'agg'}
    # where statistics of a column live: the discoverer / verifier / calculator / database-handler classes (a len() in a helper that
    # takes a field *name* apart is not a statistic)
    def holds_statistics(f):
        k = f.cls.name if f.cls is not None else (f.parent.cls.name if getattr(f, 'parent', None) is not None and f.parent.cls is not None else '')
        return any(w in k for w in ('Constraint', 'DatabaseHandler', 'Discoverer', 'Verifier', 'Calculator'))
    n = zero_rule(run, 'C07-ZERO', p, [f for f in p.funcs.values() if f.rel in (
        'tdda/constraints/baseconstraints.py', 'tdda/constraints/pd/constraints.py', 'tdda/constraints/db/drivers.py',
        'tdda/constraints/db/constraints.py') and holds_statistics(f)], STAT,
                  'zero is a statistic: a minimum, maximum, length or count obtained from the calculators or the database is compared '
                  'or tested with `is None`, never used as a bare condition (a minimum of 0 or an empty shortest string would '
                  'otherwise be reported as absent)')
    run.floor('C07-ZERO', n, 10)
    from .common import observed_rule
    calc = p.cls('PandasConstraintCalculator')
    n = observed_rule(run, 'C07-OBSERVED', p, list(calc.methods.values()),
                      'every statistic the pandas calculator returns is taken from the values present in the column: no calc_* method '
                      'reads a categorical column\'s declared levels (.cat.categories, an unfiltered value_counts()), which include '
                      'categories that no record holds')
    run.floor('C07-OBSERVED', n, 15)


def thresh(run, p, disc, gmap, gm):
    run.rule('C07-THRESH', 'discovery thresholds admit exactly the documented sets: max_nulls only for a null count in {0, 1}; '
                           'allowed_values only for at most MAX_CATEGORIES = 20 distinct values; no_duplicates exactly when the number '
                           'of distinct values equals the non-null count, exceeds 1 and the type is not real')
    bc = p.mod('tdda.constraints.baseconstraints')
    try:
        maxcat = p.const(bc, 'MAX_CATEGORIES')
    except AnalysisError:
        raise AnalysisError('MAX_CATEGORIES vanished')
    run.ob('C07-THRESH', 'MAX_CATEGORIES', maxcat == 20, 'MAX_CATEGORIES folds to %r (documented: twenty)' % (maxcat,),
           rel=bc.rel, line=bc.consts['MAX_CATEGORIES'].lineno, nontrivial=False)
    for c in ctor_calls(disc, 'MaxNullsConstraint'):
        sets = []
        for g in gmap.chain(c) or ():
            if g.kind == 'if' and g.pol:
                for nm in names_in(g.test):
                    a = admitted(g.test, nm)
                    if a is not None and 'self.calc_null_count' in dep_closure_at(disc.node, g.test, gmap):
                        sets.append(a)
        ok = bool(sets) and set.intersection(*sets) == {0, 1}
        run.ob('C07-THRESH', 'max_nulls', ok, 'max_nulls is emitted for null counts %s' % (sorted(set.intersection(*sets))[:6] if sets else 'unbounded'),
               fn=disc, node=c)
    # categories: the unique values used for allowed_values are fetched only under n_unique <= MAX_CATEGORIES
    for c in ctor_calls(disc, 'AllowedValuesConstraint'):
        arg = c.args[0]
        found = []
        for n in ast.walk(disc.node):
            if isinstance(n, ast.Assign) and any(isinstance(t, ast.Name) and t.id in names_in(arg) for t in n.targets) \
                    and isinstance(n.value, ast.Call) and getattr(n.value.func, 'attr', '') == 'calc_unique_values':
                ch = gmap.chain(n) or ()
                if any(g.kind == 'if' and g.pol and isinstance(g.test, ast.Compare) and 'uniqs' in names_in(g.test) for g in ch):
                    continue        # the later fetch for lengths, guarded by `uniqs is None`
                sets = []
                for g in ch:
                    if g.kind == 'if' and g.pol:
                        for nm in names_in(g.test):
                            a = admitted(g.test, nm, consts={'MAX_CATEGORIES': maxcat})
                            if a is not None and 'self.calc_nunique' in dep_closure_at(disc.node, g.test, gmap):
                                sets.append(a)
                found.append(set.intersection(*sets) if sets else None)
        # the constraint itself must sit in the same arm (or be guarded by the same threshold)
        ch = gmap.chain(c) or ()
        inarm = any(g.kind == 'if' and g.pol and 'type_' in names_in(g.test) for g in ch)
        ok = bool(found) and found[0] == set(range(0, 21)) and inarm
        # and the later re-fetch must not feed the constraint: allowed_values is built before it
        run.ob('C07-THRESH', 'allowed_values', ok,
               'allowed_values is built from values fetched for n_unique in %s' % ('0..%d' % max(found[0]) if found and found[0] else found), fn=disc, node=c)
    for c in ctor_calls(disc, 'NoDuplicatesConstraint'):
        conj = []
        for g in gmap.chain(c) or ():
            if g.kind == 'if' and g.pol:
                conj += g.test.values if isinstance(g.test, ast.BoolOp) and isinstance(g.test.op, ast.And) else [g.test]
        eq = gt1 = notreal = False
        for t in conj:
            if isinstance(t, ast.Compare) and len(t.ops) == 1:
                clo = calcs(dep_closure_at(disc.node, t, gmap), gm)
                if isinstance(t.ops[0], ast.Eq) and clo == {'calc_nunique', 'calc_non_null_count'}:
                    eq = True
                a = None
                for nm in names_in(t):
                    a = a or admitted(t, nm)
                if a is not None and 'calc_nunique' in clo and a == set(range(2, 60)):
                    gt1 = True
                if isinstance(t.ops[0], ast.NotEq) and isinstance(t.comparators[0], ast.Constant) and t.comparators[0].value == 'real':
                    notreal = True
        run.ob('C07-THRESH', 'no_duplicates', eq and gt1 and notreal,
               'no_duplicates emitted under: distinct == non-null %s, distinct > 1 %s, type != real %s' % (eq, gt1, notreal), fn=disc, node=c)
    run.floor('C07-THRESH', 4, 4)


def strong(run, p, km, disc):
    run.rule('C07-STRONG', 'for each of the six orderings of (min, max, 0) the discovered sign class is the strongest class whose '
                           'verifier row holds there (zero > positive, negative > non-negative, non-positive); nothing for mixed signs')
    chain = sign_chain(disc)
    ver = km['sign'][0]
    vt = {lab[0]: s for lab, marks, comp, s in tables.table(ver.node, tables.pick_result()) if lab != ('incompat',)}
    names = [x.id for x in ast.walk(chain.test) if isinstance(x, ast.Name)]
    lo, hi = names[0], names[1]
    for st in fde.SIGN_STATES:
        env = {lo: st[0], hi: st[1], '#order': (lo, hi)}
        venv = {'m': st[0], 'M': st[1], '#order': ('m', 'M')}
        try:
            cls = fde.eval_chain(chain, env, sign_leaf)
            true_classes = [k for k, s in vt.items() if k in STRENGTH and fde.eval_sign(s.value, venv)]
        except fde.Unsupported as e:
            raise AnalysisError('sign tables not interpretable: %s' % e)
        best = max([STRENGTH[k] for k in true_classes], default=0)
        ok = (cls is None and best == 0) or (cls in true_classes and STRENGTH[cls] == best)
        run.ob('C07-STRONG', 'sign:%s' % (st,), ok,
               'ordering sgn(min)=%d sgn(max)=%d: discovered %r; classes that hold: %s' % (st[0], st[1], cls, sorted(true_classes)), fn=disc, node=chain)
    # the chain is reached only with both bounds present and not for dates
    gm = GuardMap(disc.node)
    ch = gm.chain(chain) or ()
    txt = ' & '.join(g.text() for g in ch if g.kind == 'if')
    ok = 'min_constraint and max_constraint' in txt and "type_ != 'date'" in txt
    run.ob('C07-STRONG', 'sign:precondition', ok, 'sign is derived only when both bounds exist and the type is not date: [%s]' % txt, fn=disc, node=chain, nontrivial=False)
    run.floor('C07-STRONG', 6, 6)


AGG_RE = re.compile(r'\b(MIN|MAX)\b')


def agg(run, p):
    run.rule('C07-AGG', 'the statistic named min is computed with min/MIN everywhere it is computed (pandas .min(), SQL MIN(, Python min) and '
                        'max with max/MAX; no aggregate literal of the other kind is reachable from it; distinct counts use COUNT(DISTINCT ..) '
                        'over non-null values; no statistic query carries a LIMIT')
    pc = p.cls('PandasConstraintCalculator')
    for name, want, other in (('calc_min', 'min', 'max'), ('calc_max', 'max', 'min'), ('calc_min_length', 'min', 'max'), ('calc_max_length', 'max', 'min')):
        f = pc.methods.get(name)
        if f is None:
            raise AnalysisError('PandasConstraintCalculator.%s vanished' % name)
        # the body the calculator runs: a wrapper over a shared helper is read specialised (reduction='min' folded in), and
        # private helpers of the class it calls on the way (string lengths of the column ...) belong to it
        g = flat(p, f, pc.qn)
        nodes = list(ast.walk(g.node))
        todo, seen_h = [g], set()
        while todo:
            h = todo.pop()
            for n in ast.walk(h.node):
                if isinstance(n, ast.Call) and isinstance(n.func, ast.Attribute) and isinstance(n.func.value, ast.Name) and n.func.value.id == 'self' \
                        and not n.func.attr.startswith('calc_') and n.func.attr not in seen_h:
                    hm = p.lookup_method(pc.qn, n.func.attr)
                    if hm is not None and hm.cls is not None and hm.cls.qn == pc.qn:
                        seen_h.add(n.func.attr)
                        nodes += list(ast.walk(hm.node))
                        todo.append(hm)
        used = {n.func.attr for n in nodes if isinstance(n, ast.Call) and isinstance(n.func, ast.Attribute) and n.func.attr in ('min', 'max')}
        ok = used == {want}
        if 'length' in name:
            ok = ok and any(isinstance(n, ast.Attribute) and n.attr == 'len' for n in nodes)
        run.ob('C07-AGG', '%s::%s' % (f.rel, f.short), ok, '%s aggregates with %s' % (name, sorted(used)), fn=f)
    sh = p.cls('SQLDatabaseHandler')
    for name, want in (('get_database_min', 'MIN'), ('get_database_max', 'MAX'), ('get_database_min_length', 'MIN'), ('get_database_max_length', 'MAX')):
        f = sh.methods.get(name)
        if f is None:
            raise AnalysisError('SQLDatabaseHandler.%s vanished' % name)
        seen = p.reach([(f, sh.qn)], use_cha=False)
        toks = {}
        for (qn, ctx) in seen:
            g = p.funcs[qn]
            if g.cls is None or g.cls.name != 'SQLDatabaseHandler':
                continue
            doc = {id(st.value) for st in ast.walk(g.node) if isinstance(st, ast.Expr) and isinstance(st.value, ast.Constant)}
            for n in p.own_nodes(g):
                if isinstance(n, ast.Constant) and isinstance(n.value, str) and id(n) not in doc:
                    for m in AGG_RE.findall(n.value):
                        toks.setdefault(m, []).append((g, n))
        # constants handed over as arguments by the entry itself count as its own
        ok = set(toks) == {want}
        pyagg = {n.id for n in ast.walk(f.node) if isinstance(n, ast.Name) and n.id in ('min', 'max')}
        ok = ok and pyagg <= {want.lower()}
        bad = [(g, n) for k, v in toks.items() if k != want for g, n in v]
        run.ob('C07-AGG', '%s::%s' % (f.rel, f.short), ok,
               '%s reaches SQL aggregates %s%s' % (name, sorted(toks), '' if ok else '; other-kind literal in %s' % ', '.join('%s:%d' % (g.short, n.lineno) for g, n in bad)),
               fn=bad[0][0] if bad else f, node=bad[0][1] if bad else None)
        if 'length' in name:
            lens = [n for (qn, ctx) in seen for n in p.own_nodes(p.funcs[qn]) if isinstance(n, ast.Constant) and isinstance(n.value, str) and 'LENGTH(' in n.value]
            run.ob('C07-AGG', '%s::%s::length' % (f.rel, f.short), bool(lens), '%s measures LENGTH(column)' % name, fn=f, nontrivial=False)
    f = sh.methods.get('get_database_nunique')
    # the statement it sends, recorded by evaluation (however the text is put together)
    from ..pyeval import Interp, Obj, Unsupported, Raised
    sent = []

    def execute_scalar(sql, *a, **k):
        sent.append(sql)
        return 3
    execute_scalar._pyeval_model = True
    o = Obj(sh)
    o.attrs.update(dbtype='sqlite', execute_scalar=execute_scalar)
    try:
        Interp(p).call(f, ['t', 'c'], selfobj=o)
    except (Unsupported, Raised) as e:
        raise AnalysisError('get_database_nunique is not evaluable: %s' % e)
    sql = ' '.join(' '.join(sent).split()).upper()
    run.ob('C07-AGG', '%s::%s' % (f.rel, f.short), len(sent) == 1 and 'COUNT(DISTINCT' in sql.replace('COUNT (', 'COUNT(') and 'IS NOT NULL' in sql
           and ' LIMIT ' not in sql, 'nunique is COUNT(DISTINCT col) over non-null rows: %s' % (sent[:1] or 'no statement sent'), fn=f)
    # no LIMIT / TOP / sampling in any statistic query
    for name, f in sorted(sh.methods.items()):
        if not name.startswith('get_database_'):
            continue
        lim = [n for n in ast.walk(f.node) if isinstance(n, ast.Constant) and isinstance(n.value, str)
               and re.search(r'\b(LIMIT|TOP|TABLESAMPLE|FETCH FIRST)\b', n.value)]
        run.ob('C07-AGG', '%s::%s::complete' % (f.rel, f.short), not lim,
               '%s reads every row' % name if not lim else '%s truncates its input: %r' % (name, lim[0].value[:40]), fn=f,
               node=lim[0] if lim else None, nontrivial=False)
    run.floor('C07-AGG', sum(1 for o in run.obs if o.rule == 'C07-AGG'), 20)


def distinct(run, p):
    """the distinct values discovery sees in a database column are the column's distinct non-null values - the empty string, zero
    and false are values"""
    from ..pyeval import Interp, Obj, Unsupported, Raised
    run.rule('C07-DISTINCT', 'get_database_unique_values, evaluated for sqlite with a stand-in execute_all that answers SELECT DISTINCT '
                             '(with and without `IS NOT NULL`, with and without ORDER BY) over a column holding empty strings, zeros, '
                             'false, duplicates and nulls, returns exactly the distinct non-null values, sorted - allowed_values and the '
                             'string lengths are computed from this list')
    sh = p.cls('SQLDatabaseHandler')
    f = sh.methods.get('get_database_unique_values')
    if f is None:
        raise AnalysisError('SQLDatabaseHandler.get_database_unique_values vanished')
    n = 0
    for name, column in (('strings-with-empty', ['b', '', None, 'a', 'b', '']), ('numbers-with-zero', [3, 0, None, 0, 2]),
                         ('all-null', [None, None]), ('plain', ['x', 'y'])):
        for include_nulls in (False, True):
            asked = []

            def execute_all(sql, column=column, asked=asked):
                asked.append(sql)
                vals = list(column)
                if 'IS NOT NULL' in sql.upper():
                    vals = [v for v in vals if v is not None]
                seen, out = set(), []
                for v in vals:
                    if v not in seen:
                        seen.add(v)
                        out.append(v)
                if 'ORDER BY' in sql.upper():
                    out = sorted([v for v in out if v is None]) if False else ([None] if None in out else []) + sorted(v for v in out if v is not None)
                return [(v,) for v in out]
            execute_all._pyeval_model = True
            o = Obj(sh)
            o.attrs.update(dbtype='sqlite', execute_all=execute_all)
            try:
                got = Interp(p).call(f, ['t', 'c'], {'include_nulls': include_nulls}, selfobj=o)
            except Raised as e:
                got = 'raises %s' % e
            except Unsupported as e:
                raise AnalysisError('get_database_unique_values is not evaluable: %s' % e)
            n += 1
            want = sorted({v for v in column if v is not None})
            if include_nulls and None in column:
                want = [None] + want
            ok = isinstance(got, list) and got == want
            run.ob('C07-DISTINCT', '%s::%s::%s:%s' % (f.rel, f.short, name, 'with-nulls' if include_nulls else 'non-null'), ok,
                   '%s, include_nulls=%s: returns %r (the column holds %r)' % (name, include_nulls, got, want), fn=f)
    run.floor('C07-DISTINCT', n, 8)


def absent(run, p, disc, gmap):
    run.rule('C07-ABSENT', 'nothing but the type is discovered for absent data: every other constraint is constructed only under '
                           'length > 0; min/max only when the aggregate is not null; lengths only when there are non-null values')
    n = 0
    for cname, kind in sorted(CTORS.items()):
        for c in ctor_calls(disc, cname):
            n += 1
            ch = gmap.chain(c) or ()
            has_len = any(g.kind == 'if' and guard_requires(g.test, g.pol, lambda e, pol: pol and isinstance(e, ast.Compare) and
                                                           isinstance(e.ops[0], ast.Gt) and isinstance(e.comparators[0], ast.Constant)
                                                           and e.comparators[0].value == 0 and
                                                           ('length' in names_in(e) or 'self.get_nrecords' in dep_closure_at(disc.node, e, gmap)))
                          for g in ch)
            ok = has_len
            extra = ''
            if kind in ('min', 'max'):
                notnull = any(g.kind == 'if' and not g.pol is False and 'is_null' in ast.unparse(g.test) and
                              (names_in(g.test) & names_in(c.args[0])) for g in ch) or \
                    any(g.kind == 'if' and 'is_null' in ast.unparse(g.test) and (names_in(g.test) & names_in(c.args[0])) for g in ch)
                ok = ok and notnull
                extra = ', not-null test on the aggregate: %s' % notnull
            run.ob('C07-ABSENT', '%s@%s' % (cname, norm(c)[:40]), ok,
                   '%s is constructed under [%s]%s' % (norm(c)[:40], ' & '.join(g.text() for g in ch if g.kind == 'if')[:150], extra), fn=disc, node=c)
    for c in ctor_calls(disc, 'RexConstraint'):
        n += 1
        ch = gmap.chain(c) or ()
        # a rex constraint must not be emitted with an empty expression list
        argn = names_in(c.args[0]) - {'self'}
        if isinstance(c.args[0], ast.Name):
            argn = {c.args[0].id}
        else:
            argn = set()       # an inline call result cannot have been tested
        nonempty = any(g.kind == 'if' and g.pol and (names_in(g.test) & argn) for g in ch) or \
            any(g.kind == 'if' and guard_requires(g.test, g.pol, lambda e, pol: pol and isinstance(e, ast.Compare) and 'length' in names_in(e)) for g in ch)
        run.ob('C07-ABSENT', 'RexConstraint', nonempty,
               'rex constraint is constructed under [%s]%s' % (' & '.join(g.text() for g in ch if g.kind == 'if'),
                                                                '' if nonempty else ': also for a field with no values, where the expression list is empty'),
               fn=disc, node=c)
    run.floor('C07-ABSENT', n, 12)


def lenchars(run, p, disc, gmap):
    run.rule('C07-LENCHARS', 'discovered string lengths are counted in characters by Python len() over the (decoded) distinct values, not by a '
                             'backend length function whose unit differs between backends (bytes, NUL-terminated)')
    n = 0
    for cname, agg_ in (('MinLengthConstraint', 'min'), ('MaxLengthConstraint', 'max')):
        for c in ctor_calls(disc, cname):
            n += 1
            from .common import closure_aggregates
            clo = closure_aggregates(disc.node, dep_closure_at(disc.node, c.args[0], gmap))
            other = 'max' if agg_ == 'min' else 'min'
            # the value's own running extreme decides; a sibling extreme kept in the same loop does not count against it
            from .common import running_extremes
            rx = running_extremes(disc.node)
            direct = {rx[n0] for n0 in names_in(c.args[0]) if n0 in rx}
            if direct:
                clo = (clo - {'min', 'max'}) | direct
            ok = agg_ in clo and 'len' in clo and 'self.calc_unique_values' in clo and not any(x.startswith('self.calc_') and x.endswith('_length') for x in clo)
            run.ob('C07-LENCHARS', cname, ok, '%s value derives from %s' % (cname, sorted(x for x in clo if x in ('min', 'max', 'len') or x.startswith('self.calc_'))),
                   fn=disc, node=c)
    if n == 0 and any(o.rule == 'C07-DISCOVERY' for o in run.obs) and all(o.ok for o in run.obs if o.rule == 'C07-DISCOVERY'):
        run.note('C07-LENCHARS', 'discover_field_constraints does not build the length constraints itself: decided by C07-DISCOVERY, where the '
                                 'backend length functions answer 1000 / 2000 and byte strings hold multi-byte characters', fn=disc)
        return
    run.floor('C07-LENCHARS', n, 2)


DTYPE_TABLE = {
    'int': ['int8', 'int16', 'int32', 'int64', 'uint8', 'uint16', 'uint32', 'uint64',
            'Int8', 'Int16', 'Int32', 'Int64', 'UInt8', 'UInt16', 'UInt32', 'UInt64', 'int64[pyarrow]', 'uint8[pyarrow]'],
    'real': ['float16', 'float32', 'float64', 'Float32', 'Float64', 'float64[pyarrow]'],
    'bool': ['bool', 'boolean', 'bool[pyarrow]'],
    'date': ['datetime64[ns]', 'datetime64[us]', 'datetime64[s]', 'datetime64[ns, UTC]', 'date32[day][pyarrow]'],
}


def dtypes(run, p):
    import datetime
    from ..pyeval import Interp, Model, Unsupported
    run.rule('C07-DTYPES', 'no numeric, boolean or date column is left out of discovery as type "other": for a stand-in column of each '
                           'dtype name pandas and numpy use (signed, unsigned and nullable integers; floats; bool/boolean; datetime64 '
                           'in every unit and with a time zone) pandas_tdda_type returns int / real / bool / date - decided by abstract '
                           'execution of the classifier')
    f = p.fn('tdda.constraints.pd.constraints.pandas_tdda_type')

    class DType(Model):
        def __init__(self, name):
            self.name = name
            self.kind = {'i': 'i', 'u': 'u', 'f': 'f', 'b': 'b', 'd': 'M'}.get(name[:1].lower(), 'O')

        def __str__(self):
            return self.name

        def __eq__(self, other):
            return isinstance(other, DType) and other.name == self.name

        def __hash__(self):
            return hash(self.name)

    class Col(Model):
        def __init__(self, name):
            self.dtype = DType(name)
            self.size = 3

    class Series_(Model):
        pass

    class NP(Model):
        bool_ = bool

        @staticmethod
        def dtype(x):
            return DType({'O': 'object'}.get(x, x))

    class PDCore(Model):
        class series(Model):
            Series = Col

    class PD(Model):
        core = PDCore
        Timestamp = datetime.datetime

        @staticmethod
        def isnull(x):
            return False
    n = 0
    for want, names in sorted(DTYPE_TABLE.items()):
        for name in names:
            I = Interp(p, consts={'unicode_string': str, 'byte_string': bytes, 'long_type': int, 'pandas_Timestamp': datetime.datetime,
                                  'DEBUG': False})
            I.safe_modules = {'datetime'}
            I.extra_names.update({'np': NP, 'pd': PD, 'datetime': datetime})

            def hook(m, args, kwargs, selfobj):
                if m.name in ('is_categorical_dtype', 'is_string_dtype', 'is_string_col'):
                    return True, False
                return False, None
            I.on_call = hook
            try:
                got = I.call(f, [Col(name)])
            except Unsupported as e:
                raise AnalysisError('pandas_tdda_type is not evaluable: %s' % e)
            n += 1
            run.ob('C07-DTYPES', 'dtype=%s' % name, got == want,
                   'a column of dtype %s is classed %r%s' % (name, got, '' if got == want else ' (documented: %r)' % want), fn=f)
    run.floor('C07-DTYPES', n, 30)


def discovery_cases(p):
    """discover_field_constraints evaluated over the grid of column summaries ->
    [(summary dict, stand-in statistics, discovered FieldConstraints object or None, error text or None)]"""
    import itertools
    from ..pyeval import Interp, Obj, Unsupported, Raised
    if getattr(p, '_discovery_cases', None) is not None:
        return p._discovery_cases
    disc = p.method('BaseConstraintDiscoverer', 'discover_field_constraints')
    out = []
    mm = [(1, 5), (0, 5), (0, 0), (-5, 0), (-5, -1), (-5, 5), (None, None)]
    strings = {3: ['ab', 'c', 'defg'], 20: ['s%02d' % i for i in range(20)], 21: ['t%02d' % i for i in range(21)], 1: ['only'],
               2: [b'caf\xc3\xa9', b'\xe2\x82\xac'], 4: ['caf\u00e9', '\u20ac', '', '\U0001F600\U0001F600']}
    grid = []
    for type_ in ('int', 'real', 'date', 'bool'):
        for length, nnull in ((0, 0), (6, 0), (6, 1), (6, 2), (6, 6), (1, 0), (1, 1), (2, 1), (2, 2)):
            for m, M in mm:
                for nuniq_kind in ('all', 'fewer'):
                    grid.append((type_, length, nnull, m, M, nuniq_kind, None))
    for length, nnull in ((0, 0), (30, 0), (30, 1), (30, 2)):
        for k, vals in strings.items():
            for nuniq_kind in ('all', 'fewer'):
                grid.append(('string', length, nnull, None, None, nuniq_kind, vals))
                if k == 3:
                    for rexes in ([], ['^[a-z]+$']):
                        grid.append(('string', length, nnull, 'rex', rexes, nuniq_kind, vals))
    grid.append(('other', 5, 0, 1, 2, 'all', None))
    for type_, length, nnull, m, M, nuniq_kind, vals in grid:
        nnon = length - nnull
        if type_ == 'string':
            nuniq = len(vals)
            if nuniq_kind == 'all':
                nnon_eff = nuniq                      # all distinct: as many non-null records as distinct strings
                length_eff, nnull_eff = nuniq + nnull, nnull
            else:
                length_eff, nnull_eff, nnon_eff = nuniq + 3 + nnull, nnull, nuniq + 3
            if length == 0:
                length_eff = nnull_eff = nnon_eff = 0
        else:
            length_eff, nnull_eff, nnon_eff = length, nnull, nnon
            nuniq = nnon if nuniq_kind == 'all' else max(nnon - 1, 0)
            if nnon_eff == 0:
                m = M = None
        inc_rex, rexes = False, None
        if m == 'rex':
            inc_rex, rexes, m, M = True, M, None, None
        if type_ == 'date' and m is not None:
            import datetime as _dt
            m, M = (_dt.datetime(2001, 1, 1) + _dt.timedelta(days=m), _dt.datetime(2001, 1, 1) + _dt.timedelta(days=M))
        stubs = {'calc_tdda_type': type_, 'get_nrecords': length_eff, 'calc_null_count': nnull_eff, 'calc_non_null_count': nnon_eff,
                 'calc_nunique': nuniq, 'calc_min': m, 'calc_max': M, 'find_rexes': rexes,
                 'calc_unique_values': list(vals) if vals else [],
                 # the backend's own length functions answer in another unit (bytes, say): discovery must not use them
                 'calc_min_length': 1000, 'calc_max_length': 2000}
        I = Interp(p, consts={'unicode_string': str, 'byte_string': bytes, 'long_type': int})
        I.safe_modules = {'datetime'}

        def hook(mth, args, kwargs, selfobj, stubs=stubs):
            if mth.name in stubs:
                return True, stubs[mth.name]
            if mth.name == 'is_null':
                return True, args[0] is None
            if mth.name == 'native_definite':
                return True, args[0]
            return False, None
        I.on_call = hook
        o = Obj(p.cls('BaseConstraintDiscoverer'))
        o.attrs.update(inc_rex=inc_rex, seed=None)
        summary = dict(type=type_, records=length_eff, nulls=nnull_eff, non_nulls=nnon_eff, min=m, max=M, distinct=nuniq, values=vals,
                       inc_rex=inc_rex, rexes=rexes)
        try:
            fc = I.call(disc, ['f'], selfobj=o)
            out.append((summary, stubs, fc, None))
        except Raised as e:
            out.append((summary, stubs, None, 'raises %s' % e))
        except Unsupported as e:
            raise AnalysisError('discover_field_constraints is not evaluable: %s' % e)
    p._discovery_cases = out
    return out


def discovery_table(run, p, rid='C07-DISCOVERY'):
    """discover_field_constraints evaluated with a stand-in calculator over a grid of column summaries, against the
    documented discovery rules (an independent oracle written here)."""
    import itertools
    from ..pyeval import Interp, Obj, Unsupported, Raised
    run.rule(rid, 'discovery emits exactly what the documentation says, for every combination of a grid of column summaries (type, '
                  'number of records, nulls, distinct values, minimum and maximum in all six orderings around zero and null, the '
                  'distinct strings): type always; nothing else for an empty dataset; max_nulls for 0 or 1 nulls; min / max when '
                  'not null; the strongest true sign class (none for mixed signs or dates, "null" when there is no value); '
                  'lengths and allowed values from the distinct strings (allowed values only up to 20 of them); no_duplicates '
                  'when all non-null values are distinct, more than one, and the type is not real - decided by abstract '
                  'execution of discover_field_constraints with stand-in statistics')
    disc = p.method('BaseConstraintDiscoverer', 'discover_field_constraints')
    maxcat = 20            # documented: allowed values for up to twenty distinct strings
    n = 0
    bad = []
    for summary, stubs, fc, err in discovery_cases(p):
        type_, length_eff, nnull_eff, nnon_eff = summary['type'], summary['records'], summary['nulls'], summary['non_nulls']
        m, M, nuniq, vals, inc_rex, rexes = summary['min'], summary['max'], summary['distinct'], summary['values'], summary['inc_rex'], summary['rexes']
        if err:
            bad.append(((type_, length_eff, nnull_eff, m, M, nuniq), err, None))
            n += 1
            continue
        n += 1
        got = None
        if isinstance(fc, Obj):
            cons = fc.attrs.get('constraints')
            cons = cons if isinstance(cons, dict) else (cons.items if isinstance(cons, Obj) else {})
            got = {k: v.attrs.get('value') for k, v in cons.items()}
        # the documented rules
        if type_ == 'other':
            want = None
        else:
            want = {'type': type_}
            if length_eff > 0:
                if nnull_eff < 2:
                    want['max_nulls'] = nnull_eff
                if type_ == 'string':
                    if vals and nuniq <= maxcat and nnon_eff > 0:
                        want['allowed_values'] = list(vals)
                    if nnon_eff > 0 and vals:
                        chars = [len(v.decode('UTF-8')) if isinstance(v, bytes) else len(v) for v in vals]
                        want['min_length'] = min(chars)
                        want['max_length'] = max(chars)
                elif nnon_eff > 0:
                    if m is not None:
                        want['min'] = m
                    if M is not None:
                        want['max'] = M
                    if type_ != 'date':
                        if m is not None and M is not None:
                            if m == M == 0:
                                want['sign'] = 'zero'
                            elif m > 0:
                                want['sign'] = 'positive'
                            elif m == 0:
                                want['sign'] = 'non-negative'
                            elif M < 0:
                                want['sign'] = 'negative'
                            elif M == 0:
                                want['sign'] = 'non-positive'
                        elif m is None:
                            want['sign'] = 'null'
                if type_ in ('string', 'int') and nuniq == nnon_eff and nuniq > 1:
                    want['no_duplicates'] = True
            if type_ == 'string' and inc_rex and rexes:
                want['rex'] = list(rexes)
        if got != want:
            bad.append(((type_, length_eff, nnull_eff, m, M, nuniq), got, want))
    run.ob(rid, '%s::%s::grid' % (disc.rel, disc.short), not bad,
           '%d column summaries evaluated%s' % (n, '' if not bad else '; %d wrong, e.g. (type, records, nulls, min, max, distinct)=%r gives %r, documented %r' % (
               (len(bad),) + bad[0])), fn=disc, detail={'wrong': [repr(b)[:300] for b in bad[:6]]} if bad else None)
    run.floor(rid, n, 500)


def counted(run, p):
    """null counts are counted in the data"""
    run.rule('C07-COUNTED', 'the number of nulls reported is the number of nulls there are: in the SQL handler every path through '
                            'get_database_nnull / get_database_nnonnull returns the result of a COUNT query over the column with IS '
                            '[NOT] NULL - never a constant or a figure derived from the declared schema (SQLite lets a non-integer '
                            'PRIMARY KEY column hold NULLs; max_nulls and no_duplicates are discovered from these two counts)')
    sh = p.cls('SQLDatabaseHandler')
    n = 0
    for nm, word in (('get_database_nnull', 'IS NULL'), ('get_database_nnonnull', 'IS NOT NULL')):
        f = sh.methods.get(nm)
        if f is None:
            raise AnalysisError('SQLDatabaseHandler.%s vanished' % nm)
        from ..specialise import flat
        f = flat(p, f, sh.qn)          # a wrapper over a shared counting helper is read as the body it runs
        binds = {}
        for x in p.own_nodes(f):
            if isinstance(x, ast.Assign) and len(x.targets) == 1 and isinstance(x.targets[0], ast.Name):
                binds.setdefault(x.targets[0].id, []).append(x.value)

        def is_query(e, depth=0):
            if isinstance(e, ast.Call) and isinstance(e.func, ast.Attribute) and e.func.attr in ('execute_scalar', 'execute_all', 'execute'):
                return True
            if isinstance(e, ast.Call) and getattr(e.func, 'id', '') in ('int', 'bool') and e.args:
                return is_query(e.args[0], depth)
            if isinstance(e, ast.Name) and e.id in binds and depth < 3:
                return all(is_query(v, depth + 1) for v in binds[e.id])
            return False
        rets = [x for x in p.own_nodes(f) if isinstance(x, ast.Return)]
        bad = [r for r in rets if r.value is None or not is_query(r.value)]
        texts = [' '.join(c.value.upper().split()) for c in ast.walk(f.node) if isinstance(c, ast.Constant) and isinstance(c.value, str)]
        has = any('COUNT(' in t.replace(' ', '') for t in texts) and any(word in t for t in texts)      # in one literal or in the pieces of one
        n += 1
        run.ob('C07-COUNTED', '%s::%s' % (f.rel, f.short), bool(rets) and not bad and has,
               '%s: %s' % (f.short, 'every return is the result of a COUNT ... %s query' % word if rets and not bad and has else
                           ('`%s` returns without counting' % norm(bad[0])[:60] if bad else 'no COUNT ... %s text found' % word)), fn=f, node=bad[0] if bad else None)
    run.floor('C07-COUNTED', n, 2)
