"""C15 - failed text assertions leave faithful artefacts; passing ones leave none."""
import ast

from .. import mirror
from ..effects import Effects
from ..model import AnalysisError, norm
from .c10 import regen_guard, prov_is_tmp
from .common import mirror_rule, dep_closure, names_in

TEXT_ASSERTS = ['assertStringCorrect', 'assertTextFileCorrect', 'assertTextFilesCorrect', 'assertBinaryFileCorrect']
ACTUAL_WORDS = ('actual', 'df', 'string')
EXPECTED_WORDS = ('expected', 'ref')


def side(name):
    n = name.lower()
    if 'expected' in n or n.startswith('ref'):
        return 'E'
    if 'actual' in n or n in ('df', 'string'):
        return 'A'
    return None


def is_difference_guard(g):
    """A condition whose value derives from comparing an actual-side with an expected-side value."""
    if g.kind != 'if' or g.origin is None:
        return False
    return _diff_expr(g.orig, g.pol, g.origin)


def _diff_expr(e, pol, origin):
    while isinstance(e, ast.UnaryOp) and isinstance(e.op, ast.Not):
        e, pol = e.operand, not pol
    if isinstance(e, ast.BoolOp):
        # (a or b) true needs every disjunct to be a difference test; (a and b) true needs one
        every = isinstance(e.op, ast.Or) == bool(pol)
        rs = [_diff_expr(v, pol, origin) for v in e.values]
        return all(rs) if every else any(rs)
    clo = dep_closure(origin.node, names_in(e))
    sides = {side(x.split('.')[-1]) for x in clo}
    return 'A' in sides and 'E' in sides


def check(run):
    p = run.prog
    rt = p.cls('ReferenceTest')
    E = Effects(p)
    run.rule('C15-TMPDIR', 'on the comparison arms of the string / text-file / binary-file assertions every file-system effect '
                           'has a path os.path.join(self.tmp_dir, <relative-safe component>)')
    run.rule('C15-ONLYFAIL', 'every such effect is control-dependent on a difference predicate (a condition whose def-use closure '
                             'compares an actual-side with an expected-side value) or lies in a missing-file handler')
    n_t = n_o = 0
    for name in TEXT_ASSERTS:
        m = p.lookup_method(rt.qn, name)
        if m is None:
            raise AnalysisError('ReferenceTest.%s vanished' % name)
        effs, _ = E.summary(m, rt.qn)
        cmp_effs = [e for e in effs if not any((regen_guard(g) or (False,))[0] for g in e.guards)]
        if not cmp_effs:
            run.ob('C15-TMPDIR', '%s::%s::no-effects' % (m.rel, m.short), True,
                   'the comparison arm of %s has no file-system effect on any call chain' % m.short, fn=m)
            run.ob('C15-ONLYFAIL', '%s::%s::no-effects' % (m.rel, m.short), True,
                   'nothing is written, so nothing is written on the passing path', fn=m)
        for e in cmp_effs:
            site = '%s::%s::%s(%s)@%s' % (m.rel, m.short, e.kind, ','.join(sorted(e.prov)), '>'.join(e.via))
            n_t += 1
            run.ob('C15-TMPDIR', site, prov_is_tmp(e.prov), 'artefact write %s' % e.describe(), fn=m, node=e.node,
                   detail={'provenance': sorted(e.prov)})
            dg = [g for g in e.guards if g.kind == 'if' and is_difference_guard(g)]
            exc = [g for g in e.guards if g.kind == 'except']
            n_o += 1
            run.ob('C15-ONLYFAIL', site, bool(dg) or bool(exc),
                   'artefact write is reached only under %s' % ('; '.join(g.text() for g in dg) if dg else
                                                               ('a missing-file handler' if exc else 'NO difference predicate: ' + e.describe())),
                   fn=m, node=e.node, detail={'guards': [g.text() for g in e.guards]})
    run.floor('C15-TMPDIR', n_t, 12)
    fc = p.cls('FilesComparison')
    fns = [fc.methods[n] for n in ('check_strings', 'add_failures', 'wrong_number', 'wrong_content', 'reconstruct',
                                   'check_string_against_file', 'check_binary_file') if n in fc.methods]
    if len(fns) < 6:
        raise AnalysisError('FilesComparison lost its comparison methods')
    nst = mirror_rule(run, 'C15-MIRROR', fns, mirror.ACTUAL_EXPECTED,
                      'position / line-map / temporary-file bookkeeping for the actual side and the expected side are exact mirror '
                      'images of each other (near-mirror statement pairs must be equal under actual<->expected)')
    run.floor('C15-MIRROR', nst, 150)
    run.attempt(cmdfiles, run, p, fc)
    run.attempt(rawlines, run, p, fc)
    run.attempt(tmpcfg, run, p, rt, fc)
    run.attempt(emptycontent, run, p, fc)
    run.attempt(sameguide, run, p, fc)


def cmdfiles(run, p, fc):
    run.rule('C15-CMDFILES', 'each path named in a suggested comparison command is a caller-supplied path or was passed to '
                             'write_file in the same function, so the files named exist')
    n = 0
    for f in (fc.methods.get('add_failures'),):
        if f is None:
            raise AnalysisError('FilesComparison.add_failures vanished')
        written = set()
        for x in p.own_nodes(f):
            if isinstance(x, ast.Call) and isinstance(x.func, ast.Attribute) and x.func.attr == 'write_file' and x.args:
                written |= names_in(x.args[0])
        for x in p.own_nodes(f):
            if isinstance(x, ast.Call) and isinstance(x.func, ast.Attribute) and x.func.attr == 'compare_with':
                for i, a in enumerate(x.args[:2]):
                    n += 1
                    nm = names_in(a)
                    # a path built under self.tmp_dir must have been written here; anything else must be a caller path
                    tmp_paths = [y for y in nm if 'self.tmp_dir' in dep_closure(f.node, {y})]
                    others = [y for y in nm if y not in tmp_paths]
                    ok = bool(nm) and all(y in written for y in tmp_paths) and \
                        all((y in f.params) or (dep_closure(f.node, {y}) & (set(f.params) - {'self'})) for y in others)
                    run.ob('C15-CMDFILES', '%s::%s::%s#%d' % (f.rel, f.short, norm(x)[:50], i), ok,
                           'command argument %s is %s' % (ast.unparse(a), 'a caller path or a file written here' if ok
                                                         else 'neither a caller path nor written by write_file'),
                           fn=f, node=x)
    run.floor('C15-CMDFILES', n, 4)


def rawlines(run, p, fc):
    run.rule('C15-RAWLINES', 'what add_failures writes as the actual-raw- / expected-raw- file is the caller\'s own content: the value '
                             'passed as actual= / expected= is the function\'s parameter, or a plain copy of it taken before the '
                             'parameter is first rewritten (never the list after remove_lines / preprocess / stripping)')
    n = 0
    for f in fc.methods.values():
        top = f.node.body
        for x in p.own_nodes(f):
            if not (isinstance(x, ast.Call) and isinstance(x.func, ast.Attribute) and x.func.attr == 'add_failures'):
                continue
            for kw in x.keywords:
                if kw.arg not in ('actual', 'expected'):
                    continue
                n += 1
                key = '%s::%s::add_failures(%s=)' % (f.rel, f.short, kw.arg)
                v = kw.value
                if isinstance(v, ast.Constant) and v.value is None:
                    run.ob('C15-RAWLINES', key, True, 'no in-memory content is handed over', fn=f, node=x, nontrivial=False)
                    continue
                if not isinstance(v, ast.Name):
                    run.ob('C15-RAWLINES', key, False, '%s= receives the computed value %s' % (kw.arg, ast.unparse(v)), fn=f, node=x)
                    continue
                ok, why = _is_raw(p, f, v.id)
                run.ob('C15-RAWLINES', key, ok, '%s=%s: %s' % (kw.arg, v.id, why), fn=f, node=x)
    run.floor('C15-RAWLINES', n, 3)


def _stores(p, f, name):
    from .c10 import stored_names
    return [s for s in p.own_nodes(f) if name in stored_names(s)]


def _is_raw(p, f, name):
    """name is a parameter never rebound, or bound once, at function top level, to such a parameter / to a parameter
    that is only rebound later in source order."""
    st = _stores(p, f, name)
    if name in f.params:
        if not st:
            return True, 'the parameter itself, never rebound'
        return False, 'the parameter is rebound before it is handed over (%s)' % '; '.join(
            '%d: %s' % (s.lineno, norm(s)[:50]) for s in st[:3])
    if len(st) == 1 and isinstance(st[0], ast.Assign) and isinstance(st[0].value, ast.Call) and \
            isinstance(st[0].value.func, ast.Attribute) and st[0].value.func.attr == 'read' and not st[0].value.args:
        return True, 'bound once, to the whole content read from the file'
    if len(st) != 1 or not isinstance(st[0], ast.Assign) or st[0] not in f.node.body:
        return False, 'not a single top-level copy of a parameter'
    a = st[0]
    src = a.value
    if not (isinstance(src, ast.Name) and src.id in f.params and len(a.targets) == 1 and isinstance(a.targets[0], ast.Name)):
        return False, 'bound to %s, not to a parameter' % ast.unparse(src)
    early = [s for s in _stores(p, f, src.id) if s.lineno <= a.lineno]
    if early:
        return False, 'copied from %s after it was rewritten at line %d' % (src.id, early[0].lineno)
    return True, 'a copy of parameter %s taken before any rewrite' % src.id


def tmpcfg(run, p, rt, fc):
    run.rule('C15-TMPCFG', 'the directory artefacts go to is the configured one: ReferenceTest hands its tmp_dir to the text comparison '
                           'object, and the comparison constructor keeps whatever non-empty directory it is given - over every outcome '
                           'of any other test in the constructor (existence checks and the like), self.tmp_dir ends up as the argument')
    init = p.lookup_method(rt.qn, '__init__')
    n = 0
    for x in p.own_nodes(init):
        if isinstance(x, ast.Call) and norm(x.func).split('.')[-1] == fc.name:
            n += 1
            kw = {k.arg: k.value for k in x.keywords if k.arg}
            v = kw.get('tmp_dir')
            ok = v is not None and norm(v) == 'self.tmp_dir'
            run.ob('C15-TMPCFG', '%s::%s::%s(tmp_dir=)' % (init.rel, init.short, fc.name), ok,
                   '%s is constructed with tmp_dir=%s' % (fc.name, norm(v) if v is not None else '<not passed: the system default is used>'),
                   fn=init, node=x)
    binit = p.lookup_method(fc.qn, '__init__')
    if binit is None or 'tmp_dir' not in binit.params:
        raise AnalysisError('%s.__init__ has no tmp_dir parameter' % fc.name)
    atoms = []
    for x in p.own_nodes(binit):
        tests = []
        if isinstance(x, (ast.If, ast.IfExp, ast.While)):
            tests.append(x.test)
        if isinstance(x, ast.BoolOp):
            tests.extend(x.values[:-1])
        for t in tests:
            for a in _atoms(t):
                if a not in atoms:
                    atoms.append(a)
    import itertools
    bad = None
    cases = 0
    for vals in itertools.product((False, True), repeat=len(atoms)):
        env = dict(zip(atoms, vals))
        cases += 1
        st = {'tmp_dir': 'ARG'}
        final = _sym_block(binit.node.body, st, env)
        if st.get('self.tmp_dir') != 'ARG':
            bad = (env, st.get('self.tmp_dir'))
            break
    n += 1
    run.ob('C15-TMPCFG', '%s::%s::keeps-argument' % (binit.rel, binit.short), bad is None,
           '%s: a non-empty tmp_dir argument is kept in all %d outcomes of the constructor\'s other tests %s' % (
               binit.short, cases, sorted(atoms)) if bad is None else
           '%s: with %s the configured directory is replaced by %s' % (binit.short, {k: v for k, v in bad[0].items()}, bad[1]),
           fn=binit)
    run.floor('C15-TMPCFG', n, 2)


def _atoms(t):
    """Sub-tests that are not a function of the argument's own truthiness."""
    if isinstance(t, ast.BoolOp):
        return [a for v in t.values for a in _atoms(v)]
    if isinstance(t, ast.UnaryOp) and isinstance(t.op, ast.Not):
        return _atoms(t.operand)
    if isinstance(t, ast.Name):
        return []
    if isinstance(t, ast.Compare) and len(t.ops) == 1 and isinstance(t.ops[0], (ast.Is, ast.IsNot)) and isinstance(t.left, ast.Name) \
            and isinstance(t.comparators[0], ast.Constant) and t.comparators[0].value is None:
        return []
    return [norm(t)]


def _sym_truth(t, st, env):
    if isinstance(t, ast.BoolOp):
        vs = [_sym_truth(v, st, env) for v in t.values]
        return all(vs) if isinstance(t.op, ast.And) else any(vs)
    if isinstance(t, ast.UnaryOp) and isinstance(t.op, ast.Not):
        return not _sym_truth(t.operand, st, env)
    if isinstance(t, ast.Name):
        return st.get(t.id) in ('ARG', 'OTHER')          # the argument is non-empty in the case analysed; a replacement is a directory
    if isinstance(t, ast.Compare) and len(t.ops) == 1 and isinstance(t.ops[0], (ast.Is, ast.IsNot)) and isinstance(t.left, ast.Name):
        isnone = st.get(t.left.id) not in ('ARG', 'OTHER')
        return isnone if isinstance(t.ops[0], ast.Is) else not isnone
    return env[norm(t)]


def _sym_val(e, st, env):
    if isinstance(e, ast.Name):
        return st.get(e.id, 'OTHER')
    if isinstance(e, ast.Attribute):
        return st.get(norm(e), 'OTHER')
    if isinstance(e, ast.BoolOp) and isinstance(e.op, ast.Or):
        for v in e.values[:-1]:
            if _sym_truth(v, st, env):
                return _sym_val(v, st, env)
        return _sym_val(e.values[-1], st, env)
    if isinstance(e, ast.IfExp):
        return _sym_val(e.body if _sym_truth(e.test, st, env) else e.orelse, st, env)
    return 'OTHER'


def _sym_block(stmts, st, env):
    for s in stmts:
        if isinstance(s, ast.If):
            _sym_block(s.body if _sym_truth(s.test, st, env) else s.orelse, st, env)
        elif isinstance(s, ast.Assign):
            v = _sym_val(s.value, st, env)
            for t in s.targets:
                if isinstance(t, (ast.Name, ast.Attribute)):
                    st[norm(t)] = v
        elif isinstance(s, (ast.With, ast.Try)):
            _sym_block(s.body, st, env)


def emptycontent(run, p, fc):
    from .common import bare_truth_tests
    run.rule('C15-EMPTY', 'empty content is content: in add_failures the parameters whose value is written out as a file (actual, '
                          'expected) are tested with `is (not) None` only - a bare truthiness test would leave a failing assertion on an '
                          'empty string without its actual-raw- file and without a comparison command')
    f = fc.methods['add_failures']
    content = set()
    for x in p.own_nodes(f):
        if isinstance(x, ast.Call) and isinstance(x.func, ast.Attribute) and x.func.attr == 'write_file' and len(x.args) > 1 \
                and isinstance(x.args[1], ast.Name) and x.args[1].id in f.params:
            content.add(x.args[1].id)
    if not content:
        raise AnalysisError('add_failures no longer writes a parameter out as a file')
    bad = [(nm, node) for nm, node in bare_truth_tests(f.node) if nm in content]
    n = 0
    for nm in sorted(content):
        n += 1
        hits = [node for k, node in bad if k == nm]
        run.ob('C15-EMPTY', '%s::%s::%s' % (f.rel, f.short, nm), not hits,
               'content parameter %s is %s' % (nm, 'tested against None only' if not hits else
                                               'used as a bare condition (%s): an empty value is treated as absent' % norm(hits[0].test if hasattr(hits[0], 'test') else hits[0])[:60]),
               fn=f, node=hits[0] if hits else None)
    run.floor('C15-EMPTY', n, 2)


def sameguide(run, p, fc):
    from ..mirror import blocks_of
    run.rule('C15-SAMEGUIDE', 'the two post-processed files differ only where the comparison found unexcused differences: they are '
                              'written in one block by write_file calls that take their end-of-file newline from one and the same '
                              'guide expression (two different guides make the files differ in their last line)')
    f = fc.methods['add_failures']
    n = 0
    for b in blocks_of(f.node):
        guides = []
        for s in b:
            if isinstance(s, ast.Expr) and isinstance(s.value, ast.Call) and isinstance(s.value.func, ast.Attribute) and s.value.func.attr == 'write_file':
                g = [k.value for k in s.value.keywords if k.arg == 'guide']
                if g:
                    guides.append((s, g[0]))
        if len(guides) >= 2:
            n += 1
            texts = {norm(g) for s, g in guides}
            run.ob('C15-SAMEGUIDE', '%s::%s::line%s' % (f.rel, f.short, ''), len(texts) == 1,
                   '%d post-processed files written with guide %s' % (len(guides), ' / '.join(sorted(texts))), fn=f, node=guides[0][0])
    run.floor('C15-SAMEGUIDE', n, 1)
