"""C15 - failed text assertions leave faithful artefacts; passing ones leave none."""
import ast

from .. import mirror
from ..effects import Effects
from ..model import AnalysisError, norm
from .c10 import regen_guard, prov_is_tmp
from .common import mirror_rule, dep_closure, names_in

TEXT_ASSERTS = ['assertStringCorrect', 'assertTextFileCorrect', 'assertTextFilesCorrect', 'assertBinaryFileCorrect']
ACTUAL_WORDS = ('actual', 'df', 'string')
EXPECTED_WORDS = ('expected', 'ref')


def side(name):
    n = name.lower()
    if 'expected' in n or n.startswith('ref'):
        return 'E'
    if 'actual' in n or n in ('df', 'string'):
        return 'A'
    return None


def is_difference_guard(g):
    """A condition whose value derives from comparing an actual-side with an expected-side value."""
    if g.kind != 'if' or g.origin is None:
        return False
    return _diff_expr(g.orig, g.pol, g.origin)


def _diff_expr(e, pol, origin):
    while isinstance(e, ast.UnaryOp) and isinstance(e.op, ast.Not):
        e, pol = e.operand, not pol
    if isinstance(e, ast.BoolOp):
        # (a or b) true needs every disjunct to be a difference test; (a and b) true needs one
        every = isinstance(e.op, ast.Or) == bool(pol)
        rs = [_diff_expr(v, pol, origin) for v in e.values]
        return all(rs) if every else any(rs)
    clo = dep_closure(origin.node, names_in(e))
    sides = {side(x.split('.')[-1]) for x in clo}
    return 'A' in sides and 'E' in sides


def check(run):
    p = run.prog
    rt = p.cls('ReferenceTest')
    E = Effects(p)
    run.rule('C15-TMPDIR', 'on the comparison arms of the string / text-file / binary-file assertions every file-system effect '
                           'has a path os.path.join(self.tmp_dir, <relative-safe component>)')
    run.rule('C15-ONLYFAIL', 'every such effect is control-dependent on a difference predicate (a condition whose def-use closure '
                             'compares an actual-side with an expected-side value) or lies in a missing-file handler')
    n_t = n_o = 0
    for name in TEXT_ASSERTS:
        m = p.lookup_method(rt.qn, name)
        if m is None:
            raise AnalysisError('ReferenceTest.%s vanished' % name)
        effs, _ = E.summary(m, rt.qn)
        cmp_effs = [e for e in effs if not any((regen_guard(g) or (False,))[0] for g in e.guards)]
        if not cmp_effs:
            run.ob('C15-TMPDIR', '%s::%s::no-effects' % (m.rel, m.short), True,
                   'the comparison arm of %s has no file-system effect on any call chain' % m.short, fn=m)
            run.ob('C15-ONLYFAIL', '%s::%s::no-effects' % (m.rel, m.short), True,
                   'nothing is written, so nothing is written on the passing path', fn=m)
        for e in cmp_effs:
            site = '%s::%s::%s(%s)@%s' % (m.rel, m.short, e.kind, ','.join(sorted(e.prov)), '>'.join(e.via))
            n_t += 1
            run.ob('C15-TMPDIR', site, prov_is_tmp(e.prov), 'artefact write %s' % e.describe(), fn=m, node=e.node,
                   detail={'provenance': sorted(e.prov)})
            dg = [g for g in e.guards if g.kind == 'if' and is_difference_guard(g)]
            exc = [g for g in e.guards if g.kind == 'except']
            n_o += 1
            run.ob('C15-ONLYFAIL', site, bool(dg) or bool(exc),
                   'artefact write is reached only under %s' % ('; '.join(g.text() for g in dg) if dg else
                                                               ('a missing-file handler' if exc else 'NO difference predicate: ' + e.describe())),
                   fn=m, node=e.node, detail={'guards': [g.text() for g in e.guards]})
    # not a count of sites (a loop over the two sides writes both files from one site): each of the three text assertions must have
    # been followed down to its artefact writes (the binary one writes nothing: its contents are never handed over)
    reached = {o.key.split('::')[1] for o in run.obs if o.rule == 'C15-TMPDIR' and '::open-write' in o.key}
    run.floor('C15-TMPDIR', len(reached & {'ReferenceTest.' + n for n in TEXT_ASSERTS[:3]}), 3)
    fc = p.cls('FilesComparison')
    fns = [fc.methods[n] for n in ('check_strings', 'add_failures', 'wrong_number', 'wrong_content', 'reconstruct',
                                   'check_string_against_file', 'check_binary_file') if n in fc.methods]
    if len(fns) < 6:
        raise AnalysisError('FilesComparison lost its comparison methods')
    nst = mirror_rule(run, 'C15-MIRROR', fns, mirror.ACTUAL_EXPECTED,
                      'position / line-map / temporary-file bookkeeping for the actual side and the expected side are exact mirror '
                      'images of each other (near-mirror statement pairs must be equal under actual<->expected)')
    run.floor('C15-MIRROR', nst, 150)
    run.attempt(artefacts, run, p, fc)
    run.attempt(cmdfiles, run, p, fc)
    run.attempt(defaults, run, p)
    run.attempt(rawlines, run, p, fc)
    run.attempt(tmpcfg, run, p, rt, fc)
    run.attempt(emptycontent, run, p, fc)
    run.attempt(sameguide, run, p, fc)


def defaults(run, p):
    """the temporary directory configured for a test class is the one its failures are written to: class-level settings are stored
    on the class they are set through"""
    run.rule('C15-DEFAULTS', 'a default set through a class (set_defaults(tmp_dir=...), set_default ...) is stored on that class: in every '
                             'classmethod of ReferenceTest each attribute store and each setattr targets the method\'s own class parameter, '
                             'never a class named in the code (a value stored on the shared base class would send one test class\'s '
                             'failure artefacts to the directory configured for another)')
    rt = p.cls('ReferenceTest')
    n = 0
    for name, m in sorted(rt.methods.items()):
        if not m.is_classmethod or not m.posparams:
            continue
        clsname = m.posparams[0]
        for x in p.own_nodes(m):
            tgt = None
            if isinstance(x, ast.Attribute) and isinstance(x.ctx, ast.Store) and isinstance(x.value, ast.Name):
                tgt = x.value.id
            elif isinstance(x, ast.Call) and getattr(x.func, 'id', '') == 'setattr' and x.args and isinstance(x.args[0], ast.Name):
                tgt = x.args[0].id
            if tgt is None:
                continue
            n += 1
            sy = m.mod.syms.get(tgt)
            named_class = sy is not None and sy.kind == 'class'
            ok = tgt == clsname or not named_class
            run.ob('C15-DEFAULTS', '%s::%s::%s' % (m.rel, m.short, norm(x)[:40]), ok,
                   '%s stores %s on %s' % (m.short, norm(x)[:50], 'the class it was called on' if tgt == clsname else
                                          ('the class %s, whichever class it was called on' % tgt if named_class else tgt)), fn=m, node=x)
    run.floor('C15-DEFAULTS', n, 1)       # (one setattr in a loop does for the three settings)


def cmdfiles(run, p, fc):
    run.rule('C15-CMDFILES', 'each path named in a suggested comparison command is a caller-supplied path or was passed to '
                             'write_file in the same function, so the files named exist')
    n = 0
    for f in (fc.methods.get('add_failures'),):
        if f is None:
            raise AnalysisError('FilesComparison.add_failures vanished')
        written = set()
        for x in p.own_nodes(f):
            if isinstance(x, ast.Call) and isinstance(x.func, ast.Attribute) and x.func.attr == 'write_file' and x.args:
                written |= names_in(x.args[0])
        # plain copies x = y: a path may be computed (and written) under one name and handed on under another
        copy_of = {}
        direct = {}
        for st in p.own_nodes(f):
            if isinstance(st, ast.Assign) and len(st.targets) == 1 and isinstance(st.targets[0], ast.Name):
                if isinstance(st.value, ast.Name):
                    copy_of.setdefault(st.targets[0].id, set()).add(st.value.id)
                else:
                    direct.setdefault(st.targets[0].id, []).append(st.value)

        def sources(y, seen=None):
            """-> [(leaf name, names on the copy chain from the leaf to y)]"""
            seen = seen or (y,)
            out = []
            if y in direct or y in f.params or y not in copy_of:
                out.append((y, set(seen)))
            for z in sorted(copy_of.get(y, ())):
                if z not in seen:
                    out += sources(z, seen + (z,))
            return out
        for x in p.own_nodes(f):
            if isinstance(x, ast.Call) and isinstance(x.func, ast.Attribute) and x.func.attr == 'compare_with':
                for i, a in enumerate(x.args[:2]):
                    n += 1
                    nm = names_in(a)
                    # a path built under self.tmp_dir must have been written here; anything else must be a caller path
                    ok = bool(nm)
                    for y in nm:
                        for leaf, chain in sources(y):
                            builds_tmp = any('self.tmp_dir' in names_in(v) or 'self.tmp_dir' in dep_closure(f.node, names_in(v) - {leaf}) for v in direct.get(leaf, []))
                            if builds_tmp:
                                ok = ok and bool(chain & written)
                            elif leaf in direct and leaf not in f.params:
                                ok = ok and bool(dep_closure(f.node, {leaf}) & (set(f.params) - {'self'}))
                            else:
                                ok = ok and (leaf in f.params or bool(dep_closure(f.node, {leaf}) & (set(f.params) - {'self'})))
                    run.ob('C15-CMDFILES', '%s::%s::%s#%d' % (f.rel, f.short, norm(x)[:50], i), ok,
                           'command argument %s is %s' % (ast.unparse(a), 'a caller path or a file written here' if ok
                                                         else 'neither a caller path nor written by write_file'),
                           fn=f, node=x)
    run.floor('C15-CMDFILES', n, 4)


def rawlines(run, p, fc):
    run.rule('C15-RAWLINES', 'what add_failures writes as the actual-raw- / expected-raw- file is the caller\'s own content: the value '
                             'passed as actual= / expected= is the function\'s parameter, or a plain copy of it taken before the '
                             'parameter is first rewritten (never the list after remove_lines / preprocess / stripping)')
    n = 0
    for f in fc.methods.values():
        top = f.node.body
        for x in p.own_nodes(f):
            if not (isinstance(x, ast.Call) and isinstance(x.func, ast.Attribute) and x.func.attr == 'add_failures'):
                continue
            for kw in x.keywords:
                if kw.arg not in ('actual', 'expected'):
                    continue
                n += 1
                key = '%s::%s::add_failures(%s=)' % (f.rel, f.short, kw.arg)
                v = kw.value
                if isinstance(v, ast.Constant) and v.value is None:
                    run.ob('C15-RAWLINES', key, True, 'no in-memory content is handed over', fn=f, node=x, nontrivial=False)
                    continue
                from .c11 import backed
                if not isinstance(v, ast.Name):
                    backed(run, 'C15-RAWLINES', key, False, '%s= receives the computed value %s' % (kw.arg, ast.unparse(v)), 'C15-ARTEFACTS', fn=f, node=x)
                    continue
                ok, why = _is_raw(p, f, v.id)
                backed(run, 'C15-RAWLINES', key, ok, '%s=%s: %s' % (kw.arg, v.id, why), 'C15-ARTEFACTS', fn=f, node=x)
    run.floor('C15-RAWLINES', n, 3)


def _stores(p, f, name):
    from .c10 import stored_names
    return [s for s in p.own_nodes(f) if name in stored_names(s)]


def _is_raw(p, f, name):
    """name is a parameter never rebound, or bound once, at function top level, to such a parameter / to a parameter
    that is only rebound later in source order."""
    st = _stores(p, f, name)
    if name in f.params:
        if not st:
            return True, 'the parameter itself, never rebound'
        return False, 'the parameter is rebound before it is handed over (%s)' % '; '.join(
            '%d: %s' % (s.lineno, norm(s)[:50]) for s in st[:3])
    if len(st) == 1 and isinstance(st[0], ast.Assign) and isinstance(st[0].value, ast.Call) and \
            isinstance(st[0].value.func, ast.Attribute) and st[0].value.func.attr == 'read' and not st[0].value.args:
        return True, 'bound once, to the whole content read from the file'
    if len(st) != 1 or not isinstance(st[0], ast.Assign) or st[0] not in f.node.body:
        return False, 'not a single top-level copy of a parameter'
    a = st[0]
    src = a.value
    if not (isinstance(src, ast.Name) and src.id in f.params and len(a.targets) == 1 and isinstance(a.targets[0], ast.Name)):
        return False, 'bound to %s, not to a parameter' % ast.unparse(src)
    early = [s for s in _stores(p, f, src.id) if s.lineno <= a.lineno]
    if early:
        return False, 'copied from %s after it was rewritten at line %d' % (src.id, early[0].lineno)
    return True, 'a copy of parameter %s taken before any rewrite' % src.id


def tmpcfg(run, p, rt, fc):
    run.rule('C15-TMPCFG', 'the directory artefacts go to is the configured one: ReferenceTest hands its tmp_dir to the text comparison '
                           'object, and the comparison constructor keeps whatever non-empty directory it is given - over every outcome '
                           'of any other test in the constructor (existence checks and the like), self.tmp_dir ends up as the argument')
    init = p.lookup_method(rt.qn, '__init__')
    n = 0
    for x in p.own_nodes(init):
        if isinstance(x, ast.Call) and norm(x.func).split('.')[-1] == fc.name:
            n += 1
            kw = {k.arg: k.value for k in x.keywords if k.arg}
            v = kw.get('tmp_dir')
            ok = v is not None and norm(v) == 'self.tmp_dir'
            run.ob('C15-TMPCFG', '%s::%s::%s(tmp_dir=)' % (init.rel, init.short, fc.name), ok,
                   '%s is constructed with tmp_dir=%s' % (fc.name, norm(v) if v is not None else '<not passed: the system default is used>'),
                   fn=init, node=x)
    binit = p.lookup_method(fc.qn, '__init__')
    if binit is None or 'tmp_dir' not in binit.params:
        raise AnalysisError('%s.__init__ has no tmp_dir parameter' % fc.name)
    atoms = []
    for x in p.own_nodes(binit):
        tests = []
        if isinstance(x, (ast.If, ast.IfExp, ast.While)):
            tests.append(x.test)
        if isinstance(x, ast.BoolOp):
            tests.extend(x.values[:-1])
        for t in tests:
            for a in _atoms(t):
                if a not in atoms:
                    atoms.append(a)
    import itertools
    bad = None
    cases = 0
    for vals in itertools.product((False, True), repeat=len(atoms)):
        env = dict(zip(atoms, vals))
        cases += 1
        st = {'tmp_dir': 'ARG'}
        final = _sym_block(binit.node.body, st, env)
        if st.get('self.tmp_dir') != 'ARG':
            bad = (env, st.get('self.tmp_dir'))
            break
    n += 1
    run.ob('C15-TMPCFG', '%s::%s::keeps-argument' % (binit.rel, binit.short), bad is None,
           '%s: a non-empty tmp_dir argument is kept in all %d outcomes of the constructor\'s other tests %s' % (
               binit.short, cases, sorted(atoms)) if bad is None else
           '%s: with %s the configured directory is replaced by %s' % (binit.short, {k: v for k, v in bad[0].items()}, bad[1]),
           fn=binit)
    run.floor('C15-TMPCFG', n, 2)


def _atoms(t):
    """Sub-tests that are not a function of the argument's own truthiness."""
    if isinstance(t, ast.BoolOp):
        return [a for v in t.values for a in _atoms(v)]
    if isinstance(t, ast.UnaryOp) and isinstance(t.op, ast.Not):
        return _atoms(t.operand)
    if isinstance(t, ast.Name):
        return []
    if isinstance(t, ast.Compare) and len(t.ops) == 1 and isinstance(t.ops[0], (ast.Is, ast.IsNot)) and isinstance(t.left, ast.Name) \
            and isinstance(t.comparators[0], ast.Constant) and t.comparators[0].value is None:
        return []
    return [norm(t)]


def _sym_truth(t, st, env):
    if isinstance(t, ast.BoolOp):
        vs = [_sym_truth(v, st, env) for v in t.values]
        return all(vs) if isinstance(t.op, ast.And) else any(vs)
    if isinstance(t, ast.UnaryOp) and isinstance(t.op, ast.Not):
        return not _sym_truth(t.operand, st, env)
    if isinstance(t, ast.Name):
        return st.get(t.id) in ('ARG', 'OTHER')          # the argument is non-empty in the case analysed; a replacement is a directory
    if isinstance(t, ast.Compare) and len(t.ops) == 1 and isinstance(t.ops[0], (ast.Is, ast.IsNot)) and isinstance(t.left, ast.Name):
        isnone = st.get(t.left.id) not in ('ARG', 'OTHER')
        return isnone if isinstance(t.ops[0], ast.Is) else not isnone
    return env[norm(t)]


def _sym_val(e, st, env):
    if isinstance(e, ast.Name):
        return st.get(e.id, 'OTHER')
    if isinstance(e, ast.Attribute):
        return st.get(norm(e), 'OTHER')
    if isinstance(e, ast.BoolOp) and isinstance(e.op, ast.Or):
        for v in e.values[:-1]:
            if _sym_truth(v, st, env):
                return _sym_val(v, st, env)
        return _sym_val(e.values[-1], st, env)
    if isinstance(e, ast.IfExp):
        return _sym_val(e.body if _sym_truth(e.test, st, env) else e.orelse, st, env)
    return 'OTHER'


def _sym_block(stmts, st, env):
    for s in stmts:
        if isinstance(s, ast.If):
            _sym_block(s.body if _sym_truth(s.test, st, env) else s.orelse, st, env)
        elif isinstance(s, ast.Assign):
            v = _sym_val(s.value, st, env)
            for t in s.targets:
                if isinstance(t, (ast.Name, ast.Attribute)):
                    st[norm(t)] = v
        elif isinstance(s, (ast.With, ast.Try)):
            _sym_block(s.body, st, env)


def emptycontent(run, p, fc):
    from .common import bare_truth_tests
    run.rule('C15-EMPTY', 'empty content is content: in add_failures the parameters whose value is written out as a file (actual, '
                          'expected) are tested with `is (not) None` only - a bare truthiness test would leave a failing assertion on an '
                          'empty string without its actual-raw- file and without a comparison command')
    f = fc.methods['add_failures']
    content = set()
    for x in p.own_nodes(f):
        if isinstance(x, ast.Call) and isinstance(x.func, ast.Attribute) and x.func.attr == 'write_file' and len(x.args) > 1 \
                and isinstance(x.args[1], ast.Name) and x.args[1].id in f.params:
            content.add(x.args[1].id)
    if not content:
        if any(o.rule == 'C15-ARTEFACTS' for o in run.obs) and all(o.ok for o in run.obs if o.rule == 'C15-ARTEFACTS'):
            run.note('C15-EMPTY', 'add_failures does not hand a parameter to write_file itself: decided by C15-ARTEFACTS (empty actual content)', fn=f)
            return
        raise AnalysisError('add_failures no longer writes a parameter out as a file')
    bad = [(nm, node) for nm, node in bare_truth_tests(f.node) if nm in content]
    n = 0
    for nm in sorted(content):
        n += 1
        hits = [node for k, node in bad if k == nm]
        run.ob('C15-EMPTY', '%s::%s::%s' % (f.rel, f.short, nm), not hits,
               'content parameter %s is %s' % (nm, 'tested against None only' if not hits else
                                               'used as a bare condition (%s): an empty value is treated as absent' % norm(hits[0].test if hasattr(hits[0], 'test') else hits[0])[:60]),
               fn=f, node=hits[0] if hits else None)
    run.floor('C15-EMPTY', n, 2)


def sameguide(run, p, fc):
    from ..mirror import blocks_of
    run.rule('C15-SAMEGUIDE', 'the two post-processed files differ only where the comparison found unexcused differences: they are '
                              'written in one block by write_file calls that take their end-of-file newline from one and the same '
                              'guide expression (two different guides make the files differ in their last line)')
    f = fc.methods['add_failures']
    n = 0
    for b in blocks_of(f.node):
        guides = []
        for s in b:
            if isinstance(s, ast.Expr) and isinstance(s.value, ast.Call) and isinstance(s.value.func, ast.Attribute) and s.value.func.attr == 'write_file':
                g = [k.value for k in s.value.keywords if k.arg == 'guide']
                if g:
                    guides.append((s, g[0]))
        if len(guides) >= 2:
            n += 1
            texts = {norm(g) for s, g in guides}
            run.ob('C15-SAMEGUIDE', '%s::%s::line%s' % (f.rel, f.short, ''), len(texts) == 1,
                   '%d post-processed files written with guide %s' % (len(guides), ' / '.join(sorted(texts))), fn=f, node=guides[0][0])
    # the same pair written by one call in a loop over the two sides: one guide expression by construction, as long as it does
    # not depend on the side
    for lp in ast.walk(f.node):
        if not isinstance(lp, ast.For):
            continue
        tg = {x.id for x in ast.walk(lp.target) if isinstance(x, ast.Name)}
        bound = tg | {x.id for st in lp.body for x in ast.walk(st) if isinstance(x, ast.Name) and isinstance(x.ctx, ast.Store)}
        for s2 in lp.body:
            if isinstance(s2, ast.Expr) and isinstance(s2.value, ast.Call) and isinstance(s2.value.func, ast.Attribute) and s2.value.func.attr == 'write_file':
                g = [k.value for k in s2.value.keywords if k.arg == 'guide']
                if g:
                    n += 1
                    dep = {x.id for x in ast.walk(g[0]) if isinstance(x, ast.Name)} & bound
                    run.ob('C15-SAMEGUIDE', '%s::%s::line%s' % (f.rel, f.short, ''), not dep,
                           'post-processed files written in a loop with guide %s%s' % (norm(g[0]), '' if not dep else ', which changes with %s' % sorted(dep)),
                           fn=f, node=s2)
    run.floor('C15-SAMEGUIDE', n, 1)


# ---------------------------------------------------------------------------------------------
# C15-ARTEFACTS: the comparison entry points evaluated on an in-memory file system

def _run_cmp(p, fc, meth, args, kw, files):
    from ..pyeval import Interp, Obj, Unsupported, Raised, FakeFS, pure_sys
    fs = FakeFS(files)
    I = Interp(p)
    I.safe_modules = {'re'}
    I.max_steps = 6000000
    I.extra_names.update({'open': fs.open, 'os': fs.os(), 'sys': pure_sys()})
    o = Obj(fc)
    o.attrs.update(print_fn=None, verbose=False, tmp_dir='/tmpdir')
    try:
        r = I.call(fc.methods[meth], list(args), dict(kw), selfobj=o)
    except Raised as e:
        return None, 'raises %s' % e, fs
    except Unsupported as e:
        raise AnalysisError('%s is not evaluable: %s' % (meth, e))
    except (OSError, TypeError, ValueError, KeyError, IndexError) as e:
        return None, 'raises %s: %s (an internal error instead of a failed comparison)' % (type(e).__name__, e), fs
    failures = r[0]
    msgs = r[1]
    lines = msgs.attrs.get('lines') if hasattr(msgs, 'attrs') else None
    return failures, '\n'.join(lines or []), fs


def _drop_comments(lines):
    return [l for l in lines if not l.startswith('#')]


_drop_comments._pyeval_model = True


def binary_cases(run, p, fc, rid='C15-ARTEFACTS'):
    """check_binary_file evaluated on an in-memory file system: byte strings that differ anywhere - in the first byte, beyond a 64 KiB
    block, only in length (one a prefix of the other, also when the shorter one ends exactly on a block boundary or is empty) - fail,
    with the offset of the first difference and both lengths in the message; identical ones pass; nothing is written"""
    import re as _re
    n = 0
    bins = [('identical', b'abc\x00def', b'abc\x00def'), ('one-byte', b'abc\x00def', b'abc\x01def'), ('longer', b'abcdef', b'abcdefgh'),
            ('shorter', b'abcdef', b'abc'), ('first-byte', b'xbcdef', b'abcdef'), ('empty-actual', b'', b'abc'), ('crlf', b'a\r\nb', b'a\nb')]
    if True:
        big = bytes(range(256)) * 300          # 76800 bytes: past any 64 KiB block
        blk = (bytes(range(256)) * 256)          # exactly 65536 bytes
        bins += [('prefix-ending-on-a-64KiB-boundary', blk, blk + b'y'), ('longer-than-a-64KiB-prefix', blk + b'tail', blk),
                 ('two-blocks-vs-one', blk + blk, blk), ('empty-reference', b'abc', b''), ('both-empty', b'', b'')]
        bins += [('beyond-64KiB', big[:70001] + b'X' + big[70002:], big), ('beyond-64KiB-and-longer', big[:66000] + b'\x00\x00tail', big[:66000] + b'\x01')]
    for name, actual, refb in bins:
        failures, msg, fs = _run_cmp(p, fc, 'check_binary_file', ['/w/o.bin', '/ref/o.bin'], {}, {'/w/o.bin': actual, '/ref/o.bin': refb})
        n += 1
        probs = []
        if failures is None:
            probs.append(msg)
        elif actual == refb:
            if failures or fs.written:
                probs.append('failures=%s, written=%s for identical bytes' % (failures, sorted(fs.written)))
        else:
            if not failures:
                probs.append('passes although the bytes differ')
            if fs.written:
                probs.append('writes %s' % sorted(fs.written))
            off = next((i for i, (x, y) in enumerate(zip(actual, refb)) if x != y), min(len(actual), len(refb)))
            m_ = _re.search(r'byte offset (\d+)', msg)
            if not m_ or int(m_.group(1)) != off:
                probs.append('reports offset %s, the first difference is at %d' % (m_.group(1) if m_ else None, off))
            nums = [int(x) for x in _re.findall(r'length (\d+)', msg)]
            if len(actual) == len(refb):
                if nums != [len(actual)]:
                    probs.append('reports lengths %s, both are %d' % (nums, len(actual)))
            elif nums != [len(actual), len(refb)]:
                probs.append('reports lengths %s, they are %d and %d' % (nums, len(actual), len(refb)))
            if '/w/o.bin' not in msg or '/ref/o.bin' not in msg:
                probs.append('the message does not name both files')
        run.ob(rid, 'check_binary_file:%s' % name, not probs, 'check_binary_file, %s: %s' % (name, '; '.join(probs[:2]) or 'as stated'),
               fn=fc.methods['check_binary_file'])
    return n


def artefacts(run, p, fc):
    import re as _re
    run.rule('C15-ARTEFACTS', 'the string / text-file / binary-file comparisons, evaluated on an in-memory file system: a passing '
                              'comparison writes nothing; a failing one writes only under the temporary directory; every file named '
                              'in a comparison command of the message exists; the first command compares the actual content (the file '
                              'written for a string holds the string, up to its final newline, which the comparison ignores) with the '
                              'reference; when exclusions excused something a post-processed pair is written whose lines differ exactly '
                              'where unexcused differences are; the binary message gives the exact first differing offset and lengths')
    ref = 'alpha\nbeta 12 ms\ngamma ray\ndelta\n'
    texts = [('identical', ref, {}, True, []),
             ('one-line-changed', 'alpha\nbeta 12 ms\ngamma ray\nDELTA\n', {}, False, [3]),
             ('two-lines-changed', 'ALPHA\nbeta 12 ms\ngamma ray\nDELTA\n', {}, False, [0, 3]),
             ('excused-by-pattern', 'alpha\nbeta 977 ms\ngamma ray\ndelta\n', {'ignore_patterns': [r'\d+']}, True, []),
             ('pattern-and-a-real-change', 'alpha\nbeta 977 ms\ngamma ray\nDELTA\n', {'ignore_patterns': [r'\d+']}, False, [3]),
             ('substring-and-a-real-change', 'alpha\nbeta 12 ms\nsomething\nDELTA\n', {'ignore_substrings': ['gamma']}, False, [3]),
             ('removed-line-and-a-real-change', 'alpha\nSKIP this\nbeta 12 ms\ngamma ray\nDELTA\n', {'remove_lines': ['SKIP']}, False, [4]),
             ('stripped-and-a-real-change', '  alpha\nbeta 12 ms\ngamma ray\nDELTA\n', {'lstrip': True}, False, [3]),
             ('trailing-blanks-stripped-and-a-real-change', 'alpha\nbeta 12 ms  \ngamma ray\nDELTA\n', {'rstrip': True}, False, [3]),
             ('stripped-with-a-substring-and-a-real-change', '   alpha\nbeta 12 ms\nsomething\nDELTA\n', {'lstrip': True, 'ignore_substrings': ['gamma']}, False, [3]),
             ('line-missing', 'alpha\nbeta 12 ms\ngamma ray\n', {}, False, None),
             ('empty-actual', '', {}, False, None),
             ('no-final-newline', 'alpha\nbeta 12 ms\ngamma ray\nDELTA', {}, False, [3]),
             ('unicode', 'alpha\nbeta 12 ms\ngamma ray\ndélta\n', {}, False, [3]),
             ('preprocessed', '# note\nalpha\nbeta 12 ms\ngamma ray\nDELTA\n', {'preprocess': _drop_comments}, False, None),
             ('removable-line-in-the-surplus-tail', 'alpha\nbeta 12 ms\n', {'remove_lines': ['SKIP', 'gamma']}, False, None),
             ('removable-line-in-the-actual-tail', ref + 'row 2\nSKIP stamp\nrow 3\n', {'remove_lines': ['SKIP']}, False, None)]
    n = 0
    # an empty reference: the comparison must fail as a comparison, with its artefacts, not with an internal error
    for entry, args_, files_ in (('check_string_against_file', ['alpha\nSKIP x\n', '/ref/empty.txt'], {'/ref/empty.txt': ''}),
                                 ('check_file', ['/w/out.txt', '/ref/empty.txt'], {'/ref/empty.txt': '', '/w/out.txt': 'alpha\nSKIP x\n'})):
        failures, msg, fs = _run_cmp(p, fc, entry, args_, {'remove_lines': ['SKIP']}, files_)
        n += 1
        probs = []
        if failures is None:
            probs.append(msg)
        elif not failures:
            probs.append('passes although the reference is empty and the actual is not')
        else:
            named = _re.findall(r'^\s+(?:diff|cmp|fc)\s+(\S+)\s+(\S+)\s*$', msg, _re.M)
            probs += ['the message names %s, which does not exist' % q for pair in named for q in pair if q not in fs.files]
            if not named:
                probs.append('the message names no comparison command')
        run.ob('C15-ARTEFACTS', '%s:empty-reference' % entry, not probs, '%s against an empty reference with exclusions in force: %s' % (
            entry, '; '.join(probs[:2]) or 'fails with its artefacts %s' % sorted(fs.written)), fn=fc.methods[entry])
    for entry in ('check_string_against_file', 'check_file'):
        for name, actual, kw, passes, badlines in texts:
            files = {'/ref/out.txt': ref}
            if entry == 'check_file':
                files['/w/out.txt'] = actual
                args = ['/w/out.txt', '/ref/out.txt']
            else:
                args = [actual, '/ref/out.txt']
            before = dict(files)
            failures, msg, fs = _run_cmp(p, fc, entry, args, kw, files)
            n += 1
            probs = []
            if failures is None:
                probs.append(msg)
            elif passes:
                if failures:
                    probs.append('reports %s failures for content that agrees' % failures)
                if fs.written or getattr(fs, 'removed', None):
                    probs.append('writes %s although the comparison passes' % sorted(fs.written))
            else:
                if not failures:
                    probs.append('passes although line(s) %s differ' % badlines)
                outside = [q for q in fs.written if not q.startswith('/tmpdir/')]
                if outside:
                    probs.append('writes outside the temporary directory: %s' % outside)
                if any(before.get(q) != fs.files.get(q) for q in before):
                    probs.append('changes a file it was given')
                cmds = _re.findall(r'^\s+(?:diff|cmp|fc)\s+(\S+)\s+(\S+)\s*$', msg, _re.M)
                if not cmds:
                    probs.append('the message names no comparison command: %r' % msg[:80])
                for a_, b_ in cmds:
                    for q in (a_, b_):
                        if q not in fs.files:
                            probs.append('the message names %s, which does not exist' % q)
                if cmds:
                    a_, b_ = cmds[0]
                    if b_ != '/ref/out.txt':
                        probs.append('the first command compares with %s, not the reference' % b_)
                    got = fs.files.get(a_)
                    if entry == 'check_file':
                        if a_ != '/w/out.txt':
                            probs.append('the first command names %s, not the actual file' % a_)
                    elif got is not None and got.rstrip('\n') != actual.rstrip('\n'):
                        probs.append('the file given as actual holds %r, the actual string was %r' % (got[:60], actual[:60]))
                excl = any(k in kw for k in ('ignore_patterns', 'ignore_substrings', 'remove_lines'))
                strip_ = any(k in kw for k in ('lstrip', 'rstrip'))       # blanks excused: a post-processed pair is offered by some entry points only
                if (excl or strip_) and badlines is not None and len(cmds) >= 2:
                    pa, pe = fs.files.get(cmds[-1][0], ''), fs.files.get(cmds[-1][1], '')
                    la, le = pa.split('\n'), pe.split('\n')
                    diff = [(x, y) for x, y in zip(la, le) if x != y]
                    want = [(actual.split('\n')[i], ref.split('\n')[i - (1 if 'remove_lines' in kw else 0)]) for i in badlines]
                    if strip_:
                        diff = [(x.strip(), y.strip()) for x, y in diff if x.strip() != y.strip()] + [(x, y) for x, y in diff if x.strip() == y.strip()]
                        want = [(x.strip(), y.strip()) for x, y in want]
                    if len(la) != len(le) or diff != want:
                        probs.append('the post-processed pair differs on %r, the unexcused differences are %r' % (diff[:3], want))
                elif excl and badlines is not None:
                    probs.append('no post-processed pair is offered although exclusions were in force')
                if 'remove_lines' in kw and len(cmds) >= 2:
                    import difflib
                    pa, pe = fs.files.get(cmds[-1][0], ''), fs.files.get(cmds[-1][1], '')
                    only = [d for d in difflib.ndiff(pa.split('\n'), pe.split('\n')) if d[:1] in '+-']
                    shown = [d for d in only if any(r_ in d[2:] for r_ in kw['remove_lines']) and not d[2:].startswith('***')]
                    if shown:
                        probs.append('the post-processed pair shows the removable line %r as a difference' % shown[0][2:])
            run.ob('C15-ARTEFACTS', '%s:%s' % (entry, name), not probs,
                   '%s, %s: %s' % (entry, name, '; '.join(probs[:2]) or ('nothing written' if passes else 'artefacts %s' % sorted(fs.written))),
                   fn=fc.methods[entry])
    # history: a failing comparison after an earlier, longer failure under the same names leaves nothing of the earlier one behind
    for entry in ('check_string_against_file', 'check_file'):
        long_ = 'alpha\nbeta 12 ms\ngamma ray\nDELTA\n' + ''.join('STALE line %d of the earlier failure\n' % i for i in range(40))
        short_ = 'alpha\nBETA\n'
        files = {'/ref/out.txt': ref}
        for actual in (long_, short_):
            if entry == 'check_file':
                files['/w/out.txt'] = actual
                args = ['/w/out.txt', '/ref/out.txt']
            else:
                args = [actual, '/ref/out.txt']
            failures, msg, fs = _run_cmp(p, fc, entry, args, {'ignore_patterns': [r'\d+']}, files)
            files = dict(fs.files)
        n += 1
        probs = []
        if failures is None:
            probs.append(msg)
        else:
            for q in sorted(fs.written):
                c_ = fs.files.get(q) or ''
                if 'STALE' in (c_ if isinstance(c_, str) else c_.decode('utf-8', 'replace')):
                    probs.append('%s still holds lines of the earlier, longer failure after the second comparison wrote it' % q)
        run.ob('C15-ARTEFACTS', '%s:after-an-earlier-longer-failure' % entry, not probs,
               '%s twice under the same names, the second actual shorter: %s' % (entry, '; '.join(probs[:2]) or 'every artefact written the second time holds the second content only'),
               fn=fc.methods[entry])
    # several pairs through check_files share one message object: what is written and named for one pair is that pair's content
    pairs = {'one': ('alpha\nbeta 977 ms\ngamma ray\nDELTA\n', ref), 'two': ('uno\nDOS\ntres\n', 'uno\ndos\ntres\n'),
             'three': ('red\ngreen 5 ms\nBLUE\n', 'red\ngreen 71 ms\nblue\n')}
    for order in (('one', 'two', 'three'), ('two', 'one'), ('three', 'two')):
        files = {}
        for k in order:
            files['/w/%s.txt' % k], files['/ref/%s.txt' % k] = pairs[k]
        before = dict(files)
        failures, msg, fs = _run_cmp(p, fc, 'check_files', [['/w/%s.txt' % k for k in order], ['/ref/%s.txt' % k for k in order]],
                                     {'ignore_patterns': [r'\d+']}, files)
        n += 1
        probs = []
        if failures is None:
            probs.append(msg)
        else:
            if failures != len(order):
                probs.append('reports %s failures for %d differing pairs' % (failures, len(order)))
            if any(before.get(q) != fs.files.get(q) for q in before):
                probs.append('changes a file it was given')
            for a_, b_ in _re.findall(r'^\s+(?:diff|cmp|fc)\s+(\S+)\s+(\S+)\s*$', msg, _re.M):
                for q in (a_, b_):
                    if q not in fs.files:
                        probs.append('the message names %s, which does not exist' % q)
            for q in sorted(fs.written):
                if not q.startswith('/tmpdir/'):
                    probs.append('writes outside the temporary directory: %s' % q)
                    continue
                owner = [k for k in order if k + '.txt' in q]
                if len(owner) != 1:
                    continue
                own = set(pairs[owner[0]][0].split('\n')) | set(pairs[owner[0]][1].split('\n'))
                others = set(l for k in order if k != owner[0] for t_ in pairs[k] for l in t_.split('\n')) - own
                alien = [l for l in (fs.files.get(q) or '').split('\n') if l in others]
                if alien:
                    probs.append('%s, written for the pair %s, holds the line %r of another pair' % (q, owner[0], alien[0]))
        run.ob('C15-ARTEFACTS', 'check_files:%s' % '-'.join(order), not probs,
               'check_files over the pairs %s (one message object): %s' % (', '.join(order), '; '.join(probs[:2]) or 'every artefact holds lines of its own pair only: %s' % sorted(fs.written)),
               fn=fc.methods['check_files'])
    n += binary_cases(run, p, fc)
    run.floor('C15-ARTEFACTS', n, 50)
