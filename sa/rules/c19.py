"""C19 - tagged runs execute exactly the tagged tests; listing runs none."""
import ast
import itertools

from ..flow import GuardMap
from ..model import AnalysisError, norm, Program
from .common import names_in

POSITIVE_EXAMPLE = '''
def strip(argv):
    for i, a in enumerate(argv[1:]):
        argv[i] = a.lower()
    return argv
'''


def enum_offset_stores(fnode):
    """for i, x in enumerate(S[a:]) (a >= 1, no matching start) with a store S[i] = ... in the body."""
    out = []
    for loop in ast.walk(fnode):
        if not (isinstance(loop, ast.For) and isinstance(loop.iter, ast.Call) and getattr(loop.iter.func, 'id', '') == 'enumerate'
                and loop.iter.args and isinstance(loop.target, ast.Tuple) and len(loop.target.elts) == 2
                and isinstance(loop.target.elts[0], ast.Name)):
            continue
        src = loop.iter.args[0]
        if not (isinstance(src, ast.Subscript) and isinstance(src.slice, ast.Slice) and src.slice.lower is not None):
            continue
        lo = src.slice.lower
        off = lo.value if isinstance(lo, ast.Constant) and isinstance(lo.value, int) else None
        start = None
        if len(loop.iter.args) > 1:
            start = loop.iter.args[1]
        for k in loop.iter.keywords:
            if k.arg == 'start':
                start = k.value
        sval = start.value if isinstance(start, ast.Constant) else (0 if start is None else '?')
        if off is None or off == 0 or sval == off:
            continue
        idx = loop.target.elts[0].id
        seq = norm(src.value)
        for s in ast.walk(loop):
            if isinstance(s, (ast.Assign, ast.AugAssign, ast.Delete)):
                tgts = s.targets if isinstance(s, (ast.Assign, ast.Delete)) else [s.target]
                for t in tgts:
                    if isinstance(t, ast.Subscript) and norm(t.value) == seq and norm(t.slice) == idx:
                        out.append((loop, s, seq, off, sval))
    return out


def check(run):
    p = run.prog
    run.attempt(argvidx, run, p)
    run.attempt(loader, run, p)
    run.attempt(checkmode, run, p)
    run.attempt(pytable, run, p)
    run.attempt(flags, run, p)
    from .. import ief, triage
    run.attempt(ief.run_ief, run, 'C19', [p.fn('ReferenceTestCase.main'), p.fn('tdda.referencetest.referencepytest.tagged')], triage=triage.IEF)
    run.floor('C19-IEF', run.units.get('ief_functions_checked', 0), 6)


def argvidx(run, p):
    run.rule('C19-ARGVIDX', 'a loop over enumerate(seq[k:]) that writes back into seq uses an index offset by k: the cleaned single-dash '
                            'argument is stored where it was read, not one place earlier')
    ex = ast.parse(POSITIVE_EXAMPLE)
    if len(enum_offset_stores(ex)) != 1:
        raise AnalysisError('ARGVIDX rule no longer matches its embedded positive example')
    n = 0
    for f in p.funcs.values():
        if not f.mod.name.startswith('tdda.referencetest'):
            continue
        loops = [x for x in ast.walk(f.node) if isinstance(x, ast.For) and isinstance(x.iter, ast.Call) and getattr(x.iter.func, 'id', '') == 'enumerate']
        if not loops:
            continue
        n += len(loops)
        bad = enum_offset_stores(f.node)
        if not bad:
            run.ob('C19-ARGVIDX', '%s::%s' % (f.rel, f.short), True, '%d enumerate loops, none writes back through a shifted index' % len(loops), fn=f,
                   nontrivial=any('[' in norm(l.iter) for l in loops))
        for loop, s, seq, off, sval in bad:
            run.ob('C19-ARGVIDX', '%s::%s::%s' % (f.rel, f.short, norm(s)[:40]), False,
                   '`%s` inside `for %s in %s`: index counts from %s but the slice starts at %d, so the value lands %d place(s) early'
                   % (norm(s)[:40], norm(loop.target), norm(loop.iter), sval, off, off), fn=f, node=s)
    run.floor('C19-ARGVIDX', n, 3)


def loader(run, p):
    run.rule('C19-LOADER', 'the attribute the tag decorator sets is the one the unittest loader and the pytest filter read; all four '
                           'loadTestsFrom* entry points filter through one method; the per-method tag lookup is inheritance-aware '
                           '(getattr on the class, not its own __dict__)')
    t = p.fn('tdda.referencetest.referencetest.tag')
    def name_of(f, e):
        """the attribute name an expression denotes: a literal, or a constant of this or an imported module"""
        try:
            v = p.fold(f.mod, e)
        except AnalysisError:
            return None
        return v if isinstance(v, str) else None
    sets = {x.attr for x in ast.walk(t.node) if isinstance(x, ast.Attribute) and isinstance(x.ctx, ast.Store)}
    sets |= {name_of(t, x.args[1]) for x in ast.walk(t.node) if isinstance(x, ast.Call) and getattr(x.func, 'id', '') == 'setattr' and len(x.args) >= 2}
    L = p.cls('TaggedTestLoader')
    reads = set()
    for f in list(L.methods.values()) + [p.fn('tdda.referencetest.referencepytest.tagged')]:
        for x in ast.walk(f.node):
            if isinstance(x, ast.Call) and getattr(x.func, 'id', '') in ('hasattr', 'getattr') and len(x.args) >= 2:
                nm = name_of(f, x.args[1])
                if nm is None and not isinstance(x.args[1], ast.Constant) and not (isinstance(x.args[1], ast.Name) and x.args[1].id in set(f.params) | set(
                        y.id for y in ast.walk(f.node) if isinstance(y, ast.Name) and isinstance(y.ctx, ast.Store))):
                    reads.add('<%s>' % norm(x.args[1]))
                if nm and nm.startswith('_') and not nm.startswith('__'):
                    reads.add(nm)
    run.ob('C19-LOADER', 'tag-attribute', len(sets) == 1 and reads == sets, 'tag() sets %s; loader and pytest filter read %s' % (sorted(sets), sorted(reads)), fn=t)
    # the decorator marks the object it is given and nothing else (functions found through a class are shared with
    # every other subclass of the base that defines them)
    others = [x for x in ast.walk(t.node) if isinstance(x, ast.Attribute) and isinstance(x.ctx, ast.Store) and
              not (isinstance(x.value, ast.Name) and x.value.id == t.posparams[0])]
    others += [x for x in ast.walk(t.node) if isinstance(x, ast.Call) and getattr(x.func, 'id', '') == 'setattr' and
               not (x.args and isinstance(x.args[0], ast.Name) and x.args[0].id == t.posparams[0])]
    run.ob('C19-LOADER', 'tag-marks-its-argument-only', not others,
           'tag() stores the tag on %s' % ('its argument only' if not others else
                                          'other objects too (%s): a function reached through a class is shared by every class that inherits it' % norm(others[0])[:40]),
           fn=t, node=others[0] if others else None)
    n = 0
    def filters(f, depth=0):
        """Every value f returns has been through self._tagged_tests_only (directly or in a helper of the loader that filters)."""
        rets = [r for r in ast.walk(f.node) if isinstance(r, ast.Return)]
        if not rets or depth > 3:
            return False
        for r in rets:
            v = r.value
            if not (isinstance(v, ast.Call) and isinstance(v.func, ast.Attribute) and isinstance(v.func.value, ast.Name) and v.func.value.id == 'self'):
                return False
            if v.func.attr == '_tagged_tests_only':
                continue
            h = L.methods.get(v.func.attr)
            if h is None or not filters(h, depth + 1):
                return False
        return True
    for name in ('loadTestsFromTestCase', 'loadTestsFromModule', 'loadTestsFromName', 'loadTestsFromNames'):
        f = L.methods.get(name)
        base = f is not None and any(isinstance(x, ast.Attribute) and x.attr == name and
                                     (norm(x.value) in ('unittest.TestLoader', 'TestLoader', 'super()', 'super(TaggedTestLoader, self)'))
                                     for x in ast.walk(f.node))
        ok = f is not None and base and filters(f)
        n += 1
        run.ob('C19-LOADER', 'entry:%s' % name, ok, '%s delegates to unittest and filters the result through _tagged_tests_only' % name,
               fn=f or L.methods['__init__'], nontrivial=False)
    g = L.methods.get('getTestCaseNames')
    if g is None:
        raise AnalysisError('TaggedTestLoader.getTestCaseNames vanished')
    # evaluated on stand-in classes: a tag on the class keeps every name; otherwise a name is kept iff the attribute found on
    # the class - inherited ones included - carries the tag
    from ..pyeval import Interp, Model, Obj, Unsupported

    class Fn(Model):
        pass

    def tagged_fn():
        x = Fn()
        x._tagged = True
        return x

    class Base(Model):
        test_inherited_tagged = tagged_fn()
        test_inherited_plain = Fn()

    class Untagged(Base):
        test_own_tagged = tagged_fn()
        test_own_plain = Fn()

    class Tagged(Base):
        _tagged = True
        test_own_plain = Fn()
    all_names = {Untagged: ['test_inherited_plain', 'test_inherited_tagged', 'test_own_plain', 'test_own_tagged'],
                 Tagged: ['test_inherited_plain', 'test_inherited_tagged', 'test_own_plain']}
    want = {Untagged: ['test_inherited_tagged', 'test_own_tagged'], Tagged: all_names[Tagged]}
    for k in (Untagged, Tagged):
        I = Interp(p)
        I.extra_calls['unittest.TestLoader.getTestCaseNames'] = lambda self_, c: list(all_names[c])
        I.extra_calls['super().getTestCaseNames'] = lambda c: list(all_names[c])
        lo = Obj(L)
        lo.attrs.update(testMethodPrefix='test', testNamePatterns=None, sortTestMethodsUsing=None, check=False)
        try:
            got = I.call(g, [k], selfobj=lo)
        except Unsupported as e:
            raise AnalysisError('getTestCaseNames is not evaluable: %s' % e)
        run.ob('C19-LOADER', 'getTestCaseNames:%s' % k.__name__, sorted(got or []) == want[k],
               'for a class %s its own tag the loader keeps %s (expected %s)' % ('with' if k is Tagged else 'without', sorted(got or []), want[k]), fn=g)
    # unittest's own selection (-k patterns, the method prefix) is made by the base loader: the tagged loader only narrows it
    for k, selected, expect in ((Untagged, ['test_own_tagged', 'test_own_plain'], ['test_own_tagged']), (Untagged, [], []),
                                (Tagged, ['test_inherited_plain'], ['test_inherited_plain'])):
        I = Interp(p)
        I.extra_calls['unittest.TestLoader.getTestCaseNames'] = lambda self_, c, selected=selected: list(selected)
        I.extra_calls['super().getTestCaseNames'] = lambda c, selected=selected: list(selected)
        lo = Obj(L)
        lo.attrs.update(testMethodPrefix='test', testNamePatterns=['*own*'], sortTestMethodsUsing=None, check=False)
        try:
            got = I.call(g, [k], selfobj=lo)
        except Unsupported as e:
            raise AnalysisError('getTestCaseNames is not evaluable: %s' % e)
        run.ob('C19-LOADER', 'getTestCaseNames:%s:unittest-selected=%s' % (k.__name__, ','.join(selected) or 'none'), sorted(got or []) == sorted(expect),
               'unittest selects %s of %s (a -k pattern): the tagged loader keeps %s (expected %s)' % (selected, k.__name__, sorted(got or []), sorted(expect)), fn=g)
    run.floor('C19-LOADER', n + 7, 11)
    from .common import nocache_rule
    nocache_rule(run, 'C19-NOSHARED', p, ['tdda.referencetest.referencetestcase', 'tdda.referencetest.referencepytest'],
                 'one tagged run or listing cannot change the next: no memoising decorator and no class-level container in the loaders that '
                 'remembers classes or tests across loader objects (a second listing in the same process would drop what the first one named)')


def _truth(e, env):
    if isinstance(e, ast.BoolOp):
        vals = [_truth(v, env) for v in e.values]
        return all(vals) if isinstance(e.op, ast.And) else any(vals)
    if isinstance(e, ast.UnaryOp) and isinstance(e.op, ast.Not):
        return not _truth(e.operand, env)
    t = norm(e)
    if t in env:
        return env[t]
    if isinstance(e, ast.Call) and getattr(e.func, 'id', '') == 'isinstance' and len(e.args) == 2:
        cls = norm(e.args[1]).split('.')[-1]
        if cls == 'TestSuite':
            return env['is_suite']
        if 'item_classes' in env:
            # the item is an instance of exactly the classes listed (a plain TestCase is not a ReferenceTestCase)
            return cls in env['item_classes']
    raise AnalysisError('check-mode test not interpretable: %s' % t)


def _final_value(stmts, name, env, cur=None):
    """The expression bound to `name` after the statements, choosing if-arms and conditional expressions by env."""
    for st in stmts:
        if isinstance(st, ast.If):
            try:
                arm = st.body if _truth(st.test, env) else st.orelse
            except AnalysisError:
                if any(isinstance(t, ast.Name) and t.id == name for x in ast.walk(st) if isinstance(x, ast.Assign) for t in x.targets):
                    raise
                continue
            cur = _final_value(arm, name, env, cur)
        elif isinstance(st, ast.Assign) and any(isinstance(t, ast.Name) and t.id == name for t in st.targets):
            v = st.value
            while isinstance(v, ast.IfExp):
                v = v.body if _truth(v.test, env) else v.orelse
            cur = v
    return cur


def checkmode(run, p):
    run.rule('C19-CHECKMODE', 'over (list-tagged mode, item is a nested suite): a test case instance is added to the suite that will run '
                              'exactly when list-tagged mode is off; in list mode its class is recorded instead; nested suites are recursed')
    from ..pyeval import Interp, Model, Obj, Unsupported, Raised
    f = p.method('TaggedTestLoader', '_tagged_tests_only')

    class Suite(Model):
        def __init__(self, tests=()):
            self.tests = list(tests)

        def addTest(self, t):
            self.tests.append(t)

        def addTests(self, ts):
            self.tests.extend(ts)

        def __iter__(self):
            return iter(list(self.tests))

    class _NS(Model):
        pass
    ut = _NS()
    ut.TestSuite = Suite
    ut.suite = _NS()
    ut.suite.TestSuite = Suite
    ut.TestCase = type('TestCase', (Model,), {})
    ut.case = _NS()
    ut.case.TestCase = ut.TestCase

    class PlainCase(ut.TestCase):
        pass
    PlainCase.__module__ = 'tests.plain'

    def leaves(s):
        out = []
        for t in s.tests:
            out += leaves(t) if isinstance(t, Suite) else [t]
        return out

    def run_loader(chk, suite):
        printed = []

        def printer(*a):
            printed.append(' '.join(str(x) for x in a))
        printer._pyeval_model = True
        loader = Obj(p.cls('TaggedTestLoader'))
        loader.attrs['check'] = chk
        loader.attrs['print'] = printer
        I = Interp(p)
        I.extra_names['unittest'] = ut
        try:
            out = I.call(f, [suite], selfobj=loader)
        except (Unsupported, Raised) as e:
            raise AnalysisError('_tagged_tests_only is not evaluable: %s' % e)
        if not isinstance(out, Suite):
            raise AnalysisError('_tagged_tests_only did not return a suite')
        return out, printed
    refcase = Obj(p.cls('ReferenceTestCase'))
    plain = PlainCase()
    kinds = (('a suite', Suite([])), ('a ReferenceTestCase', refcase), ('a plain unittest.TestCase', plain))
    for chk, (what, item) in itertools.product((False, True), kinds):
        out, printed = run_loader(chk, Suite([item]))
        suite = isinstance(item, Suite)
        added = len(out.tests) == 1 and (isinstance(out.tests[0], Suite) if suite else out.tests[0] is item)
        recorded = bool(printed)
        want_added = suite or not chk
        ok = added == want_added and (recorded == (chk and not suite)) and (added or not out.tests)
        if ok and recorded:
            cname = 'ReferenceTestCase' if item is refcase else 'PlainCase'
            ok = len(printed) == 1 and printed[0].endswith('.' + cname)
        run.ob('C19-CHECKMODE', 'check=%s,item=%s' % (chk, what), ok,
               'list mode %s, item is %s: added to the run=%s, classes listed=%s' % (chk, what, added, printed), fn=f)
    rec = True
    detail = []
    for chk in (False, True):
        out, printed = run_loader(chk, Suite([Suite([refcase, Suite([plain])])]))
        got = leaves(out)
        detail.append('list mode %s: %d cases left to run, %d classes listed' % (chk, len(got), len(printed)))
        if chk:
            rec = rec and not got and len(printed) == 2
        else:
            rec = rec and len(got) == 2 and got[0] is refcase and got[1] is plain and not printed
    run.ob('C19-CHECKMODE', 'recursion', rec, 'nested suites are filtered recursively (%s)' % '; '.join(detail), fn=f, nontrivial=False)
    rt = p.fn('tdda.referencetest.referencetestcase._run_tests')
    # which loader runs the tests, as a function of (tagged, check): the filtering loader, told whether to list, exactly
    # when either was requested
    for tg, chk in itertools.product((False, True), (False, True)):
        env = {'tagged': tg, 'check': chk}
        v = _final_value(rt.node.body, 'loader', env)
        is_tl = isinstance(v, ast.Call) and norm(v.func).endswith('TaggedTestLoader')
        if tg or chk:
            arg = v.args[0] if is_tl and v.args else (v.keywords[0].value if is_tl and v.keywords else None)
            try:
                mode = None if arg is None else (arg.value if isinstance(arg, ast.Constant) else _truth(arg, env))
            except AnalysisError:
                mode = None
            ok = is_tl and mode is not None and bool(mode) == chk
            what = 'TaggedTestLoader(list mode=%s)' % mode if is_tl else norm(v) if v is not None else 'nothing'
        else:
            ok = v is not None and not is_tl
            what = norm(v) if v is not None else 'nothing'
        run.ob('C19-CHECKMODE', 'loader-choice:tagged=%s,check=%s' % (tg, chk), ok,
               'tagged=%s, list-tagged=%s: tests are loaded by %s' % (tg, chk, what), fn=rt)
    run.floor('C19-CHECKMODE', 11, 11)


def pytable(run, p):
    import itertools
    from ..pyeval import Interp, Model, Unsupported
    run.rule('C19-PYTABLE', 'pytest path, over (--tagged, --istagged) x four kinds of collected item (method of a tagged class, tagged '
                            'method of an untagged class, tagged function, untagged function): the items left to run are exactly the '
                            'tagged ones when only --tagged is given and none when --istagged is given (nothing is touched when '
                            'neither is given), and the names printed are exactly the tagged classes / functions when listing - '
                            'decided by abstract execution of tagged() on stand-in items')
    f = p.fn('tdda.referencetest.referencepytest.tagged')

    class Config(Model):
        def __init__(self, opts):
            self.opts = opts

        def getoption(self, name, default=None):
            return self.opts.get(name, default)

    class TaggedCase(Model):
        _tagged = True

    class PlainCase(Model):
        pass

    class Callable_(Model):
        pass

    class Item(Model):
        def __init__(self, name, obj):
            self.name, self.obj = name, obj

    def make_items():
        def fn(module, tagged=False, owner=None, name=None):
            o = Callable_()
            o.__module__ = module
            if name:
                o.__name__ = o.__qualname__ = name           # a function or bound method has a name of its own
            if tagged:
                o._tagged = True
            if owner is not None:
                o.__self__ = owner()
            return o
        first = [Item(nm, fn('m', name=nm, **kw_)) for nm, kw_ in (
            ('test_in_tagged_class', dict(owner=TaggedCase)), ('test_tagged_method', dict(tagged=True, owner=PlainCase)),
            ('test_tagged_function', dict(tagged=True)), ('test_plain_function', {}), ('test_plain_method', dict(owner=PlainCase)))]
        # a second module with a class and a function of the same names: other objects, to be named as well
        second = [Item(nm, fn('m2', name=fnm, **kw_)) for nm, fnm, kw_ in (
            ('m2_in_tagged_class', 'test_in_tagged_class', dict(owner=TaggedCase2)), ('m2_in_tagged_class_too', 'test_more', dict(owner=TaggedCase2)),
            ('m2_tagged_function', 'test_tagged_function', dict(tagged=True)))]
        for it in second:
            it.name = it.obj.__name__
        return first + second
    TaggedCase2 = type('TaggedCase', (Model,), {'_tagged': True})
    is_tagged = {'test_in_tagged_class': True, 'test_tagged_method': True, 'test_tagged_function': True,
                 'test_plain_function': False, 'test_plain_method': False}
    SECOND_LEFT = ['test_in_tagged_class', 'test_more', 'test_tagged_function']
    SECOND_PRINT = ['m2.TaggedCase', 'm2.test_tagged_function']
    n = 0
    for rt, st in itertools.product((None, True), (None, True)):
        I = Interp(p)
        printed = []
        I.extra_names['print'] = lambda *a, **k: printed.append(' '.join(str(x) for x in a))
        items = make_items()
        opts = {}
        if rt:
            opts['--tagged'] = True
        if st:
            opts['--istagged'] = True
        try:
            I.call(f, [Config(opts), items])
        except Unsupported as e:
            raise AnalysisError('referencepytest.tagged is not evaluable: %s' % e)
        left = [i.name for i in items]
        if not (rt or st):
            want_left = sorted(list(is_tagged) + SECOND_LEFT)
            want_print = []
        elif st:
            want_left = []
            want_print = sorted(['m.TaggedCase', 'm.PlainCase', 'm.test_tagged_function'] + SECOND_PRINT)
        else:
            want_left = sorted([k for k, v in is_tagged.items() if v] + SECOND_LEFT)
            want_print = []
        got_print = sorted(x for x in printed if x.strip())
        n += 1
        run.ob('C19-PYTABLE', '--tagged=%s,--istagged=%s' % (bool(rt), bool(st)), sorted(left) == want_left and got_print == want_print,
               '--tagged %s, --istagged %s: left to run %s (expected %s); listed %s (expected %s)' % (
                   bool(rt), bool(st), sorted(left), want_left, got_print, want_print), fn=f)
    run.floor('C19-PYTABLE', n, 4)


def flags(run, p):
    from ..pyeval import Interp, Unsupported, Raised
    run.rule('C19-FLAGS', 'over representative command lines (-1 -0 and their bundles with other letters, --tagged, --istagged, both, '
                          'mixed with -W / --write-all / --wquiet / unittest options and test names) _set_flags_from_argv returns '
                          'tagged exactly when -1 or --tagged was given and list-tagged exactly when -0 or --istagged was given, '
                          'never lets one spelling cancel another, and hands unittest an argv without those options and with '
                          'everything else in place - decided by abstract execution of the parser')
    f = p.fn('tdda.referencetest.referencetestcase._set_flags_from_argv')
    cases = [
        ['t.py'], ['t.py', '-1'], ['t.py', '-0'], ['t.py', '-10'], ['t.py', '-01'], ['t.py', '-1W'], ['t.py', '-W'], ['t.py', '-W0'],
        ['t.py', '--tagged'], ['t.py', '--istagged'], ['t.py', '--tagged', '--istagged'], ['t.py', '--istagged', '--tagged'],
        ['t.py', '-1', '--istagged'], ['t.py', '-0', '--tagged'], ['t.py', '-v', '--tagged'], ['t.py', '-1', 'TestX'],
        ['t.py', '-1v'], ['t.py', '-v1'], ['t.py', '-0', 'TestX.test_a'], ['t.py', '--write-all', '--tagged'], ['t.py', '--W'],
        ['t.py', '--wquiet', '--tagged'], ['t.py', '-1', '--write-all'], ['t.py', 'TestX', '--tagged'], ['t.py', '-q', '-1'],
        # a tag option followed by another single-dash argument of its own
        ['t.py', '-1', '-v'], ['t.py', '-1', '-q'], ['t.py', '-1', '-f'], ['t.py', '-1', '-W'], ['t.py', '-0', '-v'], ['t.py', '-0', '-1'],
        ['t.py', '-1', '-0'], ['t.py', '-W', '-1'], ['t.py', '-1', '-v', 'TestX'], ['t.py', '-v', '-1', '-f'],
    ]
    n = 0
    for argv in cases:
        I = Interp(p)
        calls = []

        def hook(m, args, kwargs, selfobj, calls=calls):
            if m.name in ('set_regeneration', 'set_defaults'):
                calls.append((m.name, tuple(args), tuple(sorted(kwargs.items()))))
                return True, None
            return False, None
        I.on_call = hook
        try:
            out = I.call(f, [list(argv)])
        except Raised as e:
            out = ('raised', str(e))
        except Unsupported as e:
            raise AnalysisError('_set_flags_from_argv is not evaluable: %s' % e)
        # what the documentation says
        lead = []
        for a in argv[1:]:
            if a.startswith('-') and not a.startswith('--'):
                lead.append(a)
            else:
                break
        want_tagged = any('1' in a[1:] for a in lead) or '--tagged' in argv[1:]
        want_check = any('0' in a[1:] for a in lead) or '--istagged' in argv[1:]
        n += 1
        ok = isinstance(out, tuple) and len(out) == 3 and out[0] != 'raised'
        msg = 'returns %r' % (out,)
        if ok:
            rest, tagged, check = out
            kept = [a for a in rest[1:]]
            leftovers = [a for a in kept if a in ('--tagged', '--istagged') or (a in lead and ('1' in a or '0' in a))]
            others = [a for a in argv[1:] if a not in ('--tagged', '--istagged', '--write-all', '--W', '--wquiet', '-wquiet')
                      and not (a in lead and set(a[1:]) <= set('W10'))]
            survived = all(any(o.replace('1', '').replace('0', '').replace('W', '') == k or o == k for k in kept) for o in others)
            ok = bool(tagged) == want_tagged and bool(check) == want_check and not leftovers and survived
            msg = 'tagged=%s (expected %s), list-tagged=%s (expected %s), argv for unittest %r' % (tagged, want_tagged, check, want_check, rest)
        run.ob('C19-FLAGS', 'argv=%s' % ' '.join(argv[1:]), ok, '%s: %s' % (' '.join(argv), msg), fn=f)
    run.floor('C19-FLAGS', n, 20)
