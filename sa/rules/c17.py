"""C17 - the tdda command line gives the same constraints and verdicts as the library."""
from .. import ief, triage

ROOTS = ['PandasDiscoverer.discover', 'PandasVerifier.verify', 'PandasDetector.detect']


def check(run):
    p = run.prog
    roots = [p.fn(r) for r in ROOTS]
    ief.run_ief(run, 'C17', roots, triage=triage.IEF)
    run.floor('C17-IEF', run.units['ief_functions_checked'], 180)
