"""C17 - the tdda command line gives the same constraints and verdicts as the library."""
import ast

from .. import ief, triage
from ..flow import GuardMap, block_exits
from ..model import AnalysisError, norm
from .common import names_in, _exclusive

ROOTS = ['PandasDiscoverer.discover', 'PandasVerifier.verify', 'PandasDetector.detect']
CMDS = {
    'discover': ('discover_flags', 'pd_discover_params', 'discover_df_from_file', 'discover_df', 'PandasDiscoverer.discover'),
    'verify': ('verify_flags', 'pd_verify_params', 'verify_df_from_file', 'verify_df', 'PandasVerifier.verify'),
    'detect': ('detect_flags', 'pd_detect_params', 'detect_df_from_file', 'detect_df', 'PandasDetector.detect'),
}


def check(run):
    p = run.prog
    roots = [p.fn(r) for r in ROOTS]
    run.attempt(ief.run_ief, run, 'C17', roots, triage=triage.IEF)
    run.floor('C17-IEF', run.units.get('ief_functions_checked', 0), 180)
    run.attempt(flags, run, p)
    run.attempt(sameapi, run, p)
    run.attempt(exits, run, p)
    run.attempt(defuse, run, p)
    run.attempt(rownum, run, p)
    run.attempt(nowrite, run, p)
    run.attempt(extcase, run, p)
    run.attempt(defaults, run, p)
    run.attempt(flagtable, run, p)
    run.attempt(applicable, run, p)
    run.attempt(report, run, p)
    run.attempt(defaulttdda, run, p)
    # what the command line leaves on disk is what the library decided: the detection output file (C06-OUTFILE)
    from .common import shared_rule
    from .c06 import outfile as _outfile
    shared_rule(run, _outfile, (run, p), 'C06-OUTFILE', 'C17-OUTFILE', ' (tdda detect run again on clean data leaves no file from the earlier run)')
    from .c06 import aligned as _aligned
    shared_rule(run, _aligned, (run, p), 'C06-ALIGNED', 'C17-ALIGNED', ' (the rows and row numbers tdda detect writes are those the library flags)')
    from .common import observed_rule
    calc = p.cls('PandasConstraintCalculator')
    n = observed_rule(run, 'C17-OBSERVED', p, list(calc.methods.values()),
                      'constraints discovered from a file verify against that file: the calculator both sides share never reads a '
                      'categorical column\'s declared levels (parquet keeps unused categories)')
    run.floor('C17-OBSERVED', n, 15)
    # tdda discover f f.tdda; tdda verify f f.tdda: the bounds written are met exactly, and the default comparators accept `a == b`
    # whatever the float fuzz does to b (integers beyond 2**53)
    from .c02 import fuzz_shape
    run.rule('C17-ROUNDTRIP', 'constraints discovered from a file verify against that file: the default (fuzzy) min/max comparators, evaluated '
                              'on a grid of values, tolerances and integers beyond 2**53, are `a OP b` exactly or `a OP fuzz(b, epsilon)` - '
                              'the bound itself always passes')
    run.attempt(fuzz_shape, run, p, 'C17-ROUNDTRIP')
    from .c01 import datelang
    run.attempt(datelang, run, p)
    run.rules['C17-DATELANG'] = run.rules.pop('C01-DATELANG') + ' (the command line always goes through a .tdda file)'
    for o in run.obs:
        if o.rule == 'C01-DATELANG':
            o.rule = 'C17-DATELANG'
    run.floors = [(('C17-DATELANG' if r == 'C01-DATELANG' else r), c, m) for r, c, m in run.floors]


def report(run, p):
    """the text tdda verify / detect print is the library's result"""
    import re as _re
    from ..pyeval import Interp, Obj, Model, Unsupported, Raised
    run.rule('C17-REPORT', 'what tdda verify / tdda detect print is what the library returned: Verification.__str__, evaluated on results with '
                           'passing, failing and mixed fields under every report mode (all / fields / records, with and without detection '
                           'counts), prints the object\'s own totals, lists exactly the fields the mode calls for - each with its own counts '
                           'and every one of its verdicts')
    V = p.cls('Verification')
    f = V.methods['__str__']
    T = p.cls('TDDAObject')

    class Det(Model):
        n_passing_records = 40
        n_failing_records = 2

    def field(verdicts):
        o = Obj(T)
        o.items.update(verdicts)
        o.attrs['passes'] = sum(1 for v in verdicts.values() if v)
        o.attrs['failures'] = sum(1 for v in verdicts.values() if not v)
        return o
    results = {
        'mixed': {'a': {'type': True, 'min': True, 'max': True}, 'b': {'type': True, 'min': False, 'sign': False}, 'c': {'type': True}},
        'all-pass': {'a': {'type': True, 'min': True}, 'b': {'type': True}},
        'all-fail': {'a': {'type': False}},
        'no-fields': {},
    }
    n = 0
    for rname, fields in results.items():
        for rep in ('all', 'fields', 'records'):
            for det in (None, Det()):
                o = Obj(V)
                fo = Obj(T)
                fo.items.update({k: field(v) for k, v in fields.items()})
                passes = sum(x.attrs['passes'] for x in fo.items.values())
                failures = sum(x.attrs['failures'] for x in fo.items.values())
                o.attrs.update(fields=fo, passes=passes, failures=failures, report=rep, ascii=True, detection=det, detect=bool(det))
                try:
                    text = Interp(p).call(f, [], selfobj=o)
                except (Unsupported, Raised) as e:
                    raise AnalysisError('Verification.__str__ is not evaluable: %s' % e)
                n += 1
                probs = []
                if rep == 'records' and det is not None:
                    want = ('Records passing: 40', 'Records failing: 2')
                else:
                    want = ('Constraints passing: %d' % passes, 'Constraints failing: %d' % failures)
                for w in want:
                    if w not in text:
                        probs.append('does not say "%s"' % w)
                listed = _re.findall(r'^(\w+): (\d+) failures?  (\d+) pass(?:es)?  (.*)$', text, _re.M)
                should = [k for k, v in fields.items() if rep == 'all' or not all(v.values())]
                if [x[0] for x in listed] != should:
                    probs.append('lists fields %s, the mode calls for %s' % ([x[0] for x in listed], should))
                for name, nf, np_, rest in listed:
                    v = fields.get(name, {})
                    if (int(nf), int(np_)) != (sum(1 for x in v.values() if not x), sum(1 for x in v.values() if x)):
                        probs.append('field %s shown with %s failures / %s passes' % (name, nf, np_))
                    if any(k not in rest for k in v):
                        probs.append('field %s does not show all its verdicts' % name)
                run.ob('C17-REPORT', '%s::%s::%s:%s:%s' % (f.rel, f.short, rname, rep, 'detection' if det else 'plain'), not probs,
                       'result %s, report=%s%s: %s' % (rname, rep, ' with detection counts' if det else '', '; '.join(probs[:2]) or 'totals and fields as in the object'), fn=f)
    run.floor('C17-REPORT', n, 24)


def param_keys(f):
    out = []
    for x in ast.walk(f.node):
        if isinstance(x, ast.Assign):
            for t in x.targets:
                if isinstance(t, ast.Subscript) and norm(t.value) == 'params' and isinstance(t.slice, ast.Constant):
                    out.append((t.slice.value, x))
        if isinstance(x, ast.Call) and norm(x.func) == 'params.update':
            if x.args and isinstance(x.args[0], ast.Dict):
                for k in x.args[0].keys:
                    if isinstance(k, ast.Constant):
                        out.append((k.value, x))
            for k in x.keywords:
                if k.arg:
                    out.append((k.arg, x))
    return out


def named(f):
    return set(f.posparams) | set(f.kwonly)


def flags(run, p):
    run.rule('C17-FLAGS', 'every keyword the command line stores for the library call is bound by a named parameter somewhere on its '
                          'forwarding chain (front end -> *_df_from_file -> *_df -> Verification / record writer); a key that only a bare '
                          '**kwargs absorbs would be dropped silently')
    ver = p.method('Verification', '__init__')
    wr = p.method('PandasConstraintDetector', 'write_detected_records')
    n = 0
    for cmd, (fl, pp, ff, lib, fe) in sorted(CMDS.items()):
        chain = named(p.fn(ff)) | named(p.fn(lib))
        if cmd != 'discover':
            chain |= named(ver) | {x[len('detect_'):] for x in named(wr) if x.startswith('detect_')} | named(wr)
        for fn in (p.fn('tdda.constraints.flags.' + fl), p.fn(pp)):
            for key, node in param_keys(fn):
                n += 1
                run.ob('C17-FLAGS', '%s:%s' % (cmd, key), key in chain,
                       'tdda %s stores %r, which %s' % (cmd, key, 'is a named parameter on the chain' if key in chain else
                                                        'no function on the forwarding chain names: it is silently dropped'), fn=fn, node=node)
    run.floor('C17-FLAGS', n, 25)


def sameapi(run, p):
    run.rule('C17-SAMEAPI', 'each front end loads the file with load_df and calls the library function of the same name; the front-end '
                            'modules construct no verifier or discoverer of their own')
    for cmd, (fl, pp, ff, lib, fe) in sorted(CMDS.items()):
        f = p.fn(ff)
        called = {getattr(x.func, 'id', None) for x in ast.walk(f.node) if isinstance(x, ast.Call)}
        femethod = p.method(*fe.split('.'))
        calls_ff = any(isinstance(x, ast.Call) and getattr(x.func, 'id', '') == ff for x in ast.walk(femethod.node))
        run.ob('C17-SAMEAPI', cmd, {'load_df', lib} <= called and calls_ff,
               '%s -> %s -> load_df + %s: %s' % (fe, ff, lib, sorted(c for c in called if c in ('load_df', lib))), fn=f)
        own = [norm(x.func) for g in p.funcs.values() if g.mod is f.mod for x in ast.walk(g.node)
               if isinstance(x, ast.Call) and getattr(x.func, 'id', '') in ('PandasConstraintVerifier', 'PandasConstraintDiscoverer', 'verify', 'detect')]
        run.ob('C17-SAMEAPI', cmd + ':no-second-implementation', not own, 'front-end module %s constructs %s' % (f.mod.name, own or 'nothing of its own'),
               fn=f, nontrivial=False)
    run.floor('C17-SAMEAPI', 6, 6)


def exits(run, p):
    run.rule('C17-EXIT', 'in every front end the missing-input test exits non-zero before the file is loaded or anything is written '
                         '(unknown and contradictory options are decided by C17-FLAGTABLE)')
    n = 0
    for cmd, (fl, pp, ff, lib, fe) in sorted(CMDS.items()):
        m = p.method(*fe.split('.'))
        body = m.node.body
        idx_call = next((i for i, s in enumerate(body) if any(isinstance(x, ast.Call) and getattr(x.func, 'id', '') == ff for x in ast.walk(s))), None)
        idx_test = next((i for i, s in enumerate(body) if isinstance(s, ast.If) and 'isfile' in ast.unparse(s.test)), None)
        ok = idx_call is not None and idx_test is not None and idx_test < idx_call
        if ok:
            s = body[idx_test]
            last = s.body[-1]
            ok = isinstance(last, ast.Expr) and isinstance(last.value, ast.Call) and norm(last.value.func) == 'sys.exit' and last.value.args \
                and isinstance(last.value.args[0], ast.Constant) and last.value.args[0].value not in (0, None)
        n += 1
        run.ob('C17-EXIT', '%s::%s::missing-input' % (m.rel, m.short), ok, '%s tests the input file and exits non-zero before calling %s' % (m.short, ff), fn=m)
    run.floor('C17-EXIT', n, 3)


def defuse(run, p):
    run.rule('C17-DEFUSE', 'in the load/save functions a value obtained by a lookup call is actually used, not merely tested: a definition '
                           'whose only uses are branch conditions means something else was used in its place')
    n = 0
    for name in ('file_format', 'load_df', 'save_df'):
        f = p.fn('tdda.constraints.pd.constraints.' + name)
        tests = set()
        for x in ast.walk(f.node):
            if isinstance(x, (ast.If, ast.While, ast.IfExp)):
                for y in ast.walk(x.test):
                    tests.add(id(y))
                # a comparison with a literal consumes the value (ext == '.parquet'); only presence tests
                # (truthiness, is None) leave it unused
                for c in ast.walk(x.test):
                    if isinstance(c, ast.Compare) and any(
                            _lit(o) for o in [c.left] + list(c.comparators)) and \
                            not all(isinstance(o, (ast.Is, ast.IsNot)) for o in c.ops):
                        for y in ast.walk(c):
                            tests.discard(id(y))
        for s in p.own_nodes(f):
            if isinstance(s, ast.Assign) and len(s.targets) == 1 and isinstance(s.targets[0], ast.Name) and isinstance(s.value, ast.Call):
                nm = s.targets[0].id
                gm = GuardMap(f.node)
                dch = gm.chain(s) or ()
                uses = [y for y in ast.walk(f.node) if isinstance(y, ast.Name) and y.id == nm and isinstance(y.ctx, ast.Load)
                        and y.lineno >= s.lineno and not _exclusive(dch, gm.chain(y) or ())]
                if not uses:
                    continue
                n += 1
                only_tests = all(id(y) in tests for y in uses)
                run.ob('C17-DEFUSE', '%s::%s::%s' % (f.rel, f.short, nm), not only_tests,
                       '%s = %s is %s' % (nm, norm(s.value)[:40], 'used' if not only_tests else 'only tested, never used: the value it stands for is taken from elsewhere'),
                       fn=f, node=s)
    run.floor('C17-DEFUSE', n, 5)


def rownum(run, p):
    run.rule('C17-ROWNUM', 'in the detection writer rows are numbered before failing records are filtered out: the RowNumber column counts '
                           'positions in the input, so no row filter precedes the numbering')
    f = p.method('PandasConstraintDetector', 'write_detected_records')
    def numbers_rows(g):
        return any(isinstance(x, ast.Call) and norm(x.func).endswith('RangeIndex') for x in ast.walk(g.node))
    nums = [x for x in ast.walk(f.node) if isinstance(x, ast.Call) and norm(x.func).endswith('RangeIndex')]
    # or a helper (a method of the class, a function of the module) does the numbering: the call to it is where rows are numbered
    nums += [c for c, ts, _k in p.calls(f) if isinstance(c, ast.Call) and ts and all(g is not f and g.mod is f.mod and numbers_rows(g) for g, _ctx in ts)]
    filters = []
    for s in ast.walk(f.node):
        # a row filter: frame[frame[<failure count column>] > 0], wherever it is used (assigned, passed on, returned)
        if isinstance(s, ast.Subscript) and isinstance(s.slice, ast.Compare) and isinstance(s.slice.left, ast.Subscript) and \
                isinstance(s.slice.ops[0], (ast.Gt, ast.GtE, ast.NotEq, ast.Lt, ast.Eq)):
            filters.append(s)
    if not nums or not filters:
        raise AnalysisError('write_detected_records: row numbering or row filter not found')
    first_filter = min(s.lineno for s in filters)
    ok = all(x.lineno < first_filter for x in nums)
    run.ob('C17-ROWNUM', '%s::%s' % (f.rel, f.short), ok,
           'rows are numbered at line %s, the first row filter is at line %d' % ([x.lineno for x in nums], first_filter), fn=f)
    run.floor('C17-ROWNUM', 1, 1)


def nowrite(run, p):
    run.rule('C17-NOWRITE', 'the file front ends write nothing themselves before or around the library call: verify/detect front ends contain no '
                            'write primitive (the library creates, removes and writes the output), discover writes only the constraints file '
                            'after discovery has succeeded')
    from ..effects import Effects
    E = Effects(p)
    for cmd, (fl, pp, ff, lib, fe) in sorted(CMDS.items()):
        f = p.fn(ff)
        effs, _ = E.summary(f, None)
        own = [e for e in effs if not e.via]
        if cmd == 'discover':
            # the only write is the constraints file, after discover_df has returned
            lib_line = min([x.lineno for x in ast.walk(f.node) if isinstance(x, ast.Call) and getattr(x.func, 'id', '') == lib] or [10 ** 9])
            ok = all(e.node.lineno > lib_line and e.prov == {'param:constraints_path'} for e in own)
        else:
            ok = not own
        run.ob('C17-NOWRITE', '%s::%s' % (f.rel, f.short), ok,
               '%s performs %s' % (f.short, 'no write of its own' if not own else '; '.join(e.describe()[:80] for e in own)), fn=f,
               node=own[0].node if own else None)
    run.floor('C17-NOWRITE', 3, 3)


# output side: the format is chosen by save_df, which raises 'Unknown output format' for every spelling it does
# not list - for the command line and the library alike - so nothing is ever written in the wrong format
EXT_OUTPUT_SIDE = {
    # keyed by function: every extension test inside it is on the output side
    "tdda/constraints/pd/constraints.py::save_df": 'save_df raises for unlisted spellings (evaluated below)',
    "tdda/constraints/pd/constraints.py::PandasConstraintDetector.write_detected_records":
        'only chooses typed output for a file save_df will then write as parquet; other spellings make save_df raise',
}


def extcase(run, p):
    from .common import extcase_rule
    fs = [f for f in p.funcs.values() if f.rel.startswith(('tdda/constraints/', 'tdda/serial/'))]
    n = extcase_rule(run, 'C17-EXTCASE', p, fs,
                     'the command line and the library recognise the same files: every test of an input file\'s extension against '
                     '.csv/.parquet/.json/.yaml literals (front-end applicability, load_df, load_metadata) is made on the '
                     'lower-cased extension, so the front end never refuses or misreads a file the loader accepts',
                     triage_tbl=EXT_OUTPUT_SIDE)
    run.floor('C17-EXTCASE', n, 6)
    # the triage above rests on save_df refusing every spelling it does not list: evaluated on sample paths
    import io
    from ..pyeval import Interp, Model, Unsupported, Raised
    sd = p.fn('save_df')

    class Frame(Model):
        def __init__(self):
            self.written = []

        def to_parquet(self, *a, **k):
            self.written.append('parquet')
    bad = []
    for path, want in (('out.parquet', 'parquet'), ('out.csv', 'csv'), ('out.txt', 'csv'), ('out.PARQUET', 'raise'), ('out.Csv', 'raise'),
                       ('out.feather', 'raise'), ('out.parquet.bak', 'raise')):
        df = Frame()
        I = Interp(p)
        I.extra_names['StringIO'] = io.StringIO

        def hook(m, args, kwargs, selfobj, df=df):
            if m.name == 'default_csv_writer':
                df.written.append('csv')
                return True, ''
            return False, None
        I.on_call = hook
        try:
            I.call(sd, [df, path])
            got = ','.join(df.written) or 'nothing'
        except Raised:
            got = 'raise'
        except Unsupported as e:
            raise AnalysisError('save_df is not evaluable: %s' % e)
        if got != want:
            bad.append((path, got, want))
    ok = not bad
    run.ob('C17-EXTCASE', '%s::save_df::unlisted-format-raises' % sd.rel, ok,
           'save_df writes the listed formats and raises for every other spelling of the extension (7 sample paths)' if ok else
           'save_df(%r) gives %s, expected %s: a differently-cased or unlisted extension would be written in a default format' % bad[0],
           fn=sd)


def _lit(e):
    if isinstance(e, ast.Constant) and e.value is not None and not isinstance(e.value, bool):
        return True
    return isinstance(e, (ast.Tuple, ast.List, ast.Set)) and e.elts and all(_lit(x) for x in e.elts)


def defaults(run, p):
    run.rule('C17-DEFAULTS', 'an option whose absence the flag handler recognises by `flags.x is (not) None` really is None when absent: '
                             'its add_argument gives no default other than None and no action that supplies one (store_true, '
                             'store_const, count, append); and every flags.x the handler reads is declared by the parser of the same command')
    n = 0
    for cmd in ('discover', 'verify', 'detect'):
        pf = p.fn('tdda.constraints.flags.%s_parser' % cmd)
        ff = p.fn('tdda.constraints.flags.%s_flags' % cmd)
        decl = {}
        for x in p.own_nodes(pf):
            if isinstance(x, ast.Call) and isinstance(x.func, ast.Attribute) and x.func.attr == 'add_argument':
                kw = {k.arg: k.value for k in x.keywords if k.arg}
                names = [a.value for a in x.args if isinstance(a, ast.Constant) and isinstance(a.value, str)]
                dest = None
                if 'dest' in kw and isinstance(kw['dest'], ast.Constant):
                    dest = kw['dest'].value
                else:
                    longs = [s for s in names if s.startswith('--')]
                    pick = (longs or names or [None])[0]
                    dest = pick.lstrip('-').replace('-', '_') if pick else None
                if dest:
                    decl[dest] = (x, kw)
        if len(decl) < 3:
            raise AnalysisError('%s_parser declares only %d options' % (cmd, len(decl)))
        read = set()
        for x in p.own_nodes(ff):
            if isinstance(x, ast.Attribute) and isinstance(x.value, ast.Name) and x.value.id == 'flags' and isinstance(x.ctx, ast.Load):
                read.add(x.attr)
        for nm in sorted(read):
            n += 1
            run.ob('C17-DEFAULTS', '%s::flags.%s::declared' % (cmd, nm), nm in decl,
                   'tdda %s reads flags.%s, which its parser %s' % (cmd, nm, 'declares' if nm in decl else 'does not declare (AttributeError)'),
                   fn=ff, nontrivial=False)
        for x in p.own_nodes(ff):
            if isinstance(x, ast.Compare) and len(x.ops) == 1 and isinstance(x.ops[0], (ast.Is, ast.IsNot)) and \
                    isinstance(x.comparators[0], ast.Constant) and x.comparators[0].value is None and \
                    isinstance(x.left, ast.Attribute) and isinstance(x.left.value, ast.Name) and x.left.value.id == 'flags':
                nm = x.left.attr
                if nm not in decl:
                    continue
                call, kw = decl[nm]
                why = None
                d = kw.get('default')
                if d is not None and not (isinstance(d, ast.Constant) and d.value is None):
                    why = 'default=%s' % norm(d)
                a = kw.get('action')
                if why is None and a is not None and isinstance(a, ast.Constant) and a.value in (
                        'store_true', 'store_false', 'store_const', 'count', 'append', 'append_const', 'extend'):
                    why = 'action=%r supplies a value when the option is absent' % a.value
                n += 1
                run.ob('C17-DEFAULTS', '%s::flags.%s::none-when-absent' % (cmd, nm), why is None,
                       'tdda %s tests `%s`; the parser declares it with %s' % (cmd, norm(x), why or 'no default, so it is None when absent'),
                       fn=pf, node=call)
    run.floor('C17-DEFAULTS', n, 20)


def applicable(run, p):
    from ..pyeval import Interp, Obj, Unsupported
    run.rule('C17-APPLICABLE', 'the pandas front end takes every command line the documentation shows: over representative argument '
                               'lists (a data file first or after option flags, `-` for standard input in any position, upper-case '
                               'extensions, a constraints file only) TDDAPandasExtension.applicable() is true exactly when some '
                               'argument is `-` or names a flat file - evaluated by abstract interpretation')
    c = p.cls('TDDAPandasExtension')
    f = c.methods['applicable']
    I = Interp(p)
    cases = [
        (['discover', 'data.csv', 'out.tdda'], True), (['verify', 'data.parquet', 'c.tdda'], True), (['verify', 'DATA.CSV'], True),
        (['discover', '-', 'out.tdda'], True), (['verify', '-7', '-', 'c.tdda'], True), (['verify', '--epsilon', '0.05', '-', 'c.tdda'], True),
        (['detect', '--index', '-', 'c.tdda', '-'], True), (['verify', 'c.tdda'], False), (['discover', 'table', 'out.tdda'], False),
        (['detect', 'x.psv', 'c.tdda', 'out.csv', '--write-all'], True), (['verify', '-a', 'data.tsv'], True), (['verify'], False),
    ]
    n = 0
    for argv, want in cases:
        o = Obj(c)
        o.attrs['argv'] = list(argv)
        I.steps = 0
        try:
            got = bool(I.call(f, [], selfobj=o))
        except Unsupported as e:
            raise AnalysisError('applicable() not interpretable: %s' % e)
        n += 1
        run.ob('C17-APPLICABLE', 'argv=%s' % ' '.join(argv), got == want,
               'tdda %s: the pandas front end %s it (expected: %s)' % (' '.join(argv), 'takes' if got else 'does not take', 'takes' if want else 'leaves'),
               fn=f)
    run.floor('C17-APPLICABLE', n, 10)


class _Exit(Exception):
    def __init__(self, code):
        self.code = code


def flagtable(run, p):
    """The three flag handlers evaluated, with the real argparse, on representative command lines."""
    import argparse
    import io
    from ..pyeval import Interp, Model, Unsupported
    run.rule('C17-FLAGTABLE', 'what the command line asks for is what the library is called with: for representative argument lists '
                              'of tdda discover / verify / detect the parser the repository builds (real argparse, driven by the '
                              'interpreted *_parser) and the interpreted *_flags handler produce the documented keyword arguments '
                              '(report, ascii, type_checking, epsilon, write_all, per_constraint, output_fields, index, interleave, '
                              'boolean_ints, inc_rex), and an unknown flag or a contradictory pair ends in sys.exit with a non-zero '
                              'status before anything else happens')

    def run_cmd(cmd, args):
        I = Interp(p)
        I.safe_modules = {'argparse'}
        I.extra_names['argparse'] = argparse
        printed = []
        I.extra_names['print'] = lambda *a, **k: printed.append(a)

        def _exit(code=0):
            raise _Exit(code)
        I.extra_calls['sys.exit'] = _exit
        class Sys(Model):
            stderr = 'stderr'
            stdout = 'stdout'
            exit = staticmethod(_exit)
        I.extra_names['sys'] = Sys
        pf = p.fn('tdda.constraints.flags.%s_parser' % cmd)
        ff = p.fn('tdda.constraints.flags.%s_flags' % cmd)
        I.on_call = None
        try:
            parser = I.call(pf, [])
            params = {}
            try:
                I.call(ff, [parser, list(args), params])
            except _Exit as e:
                return 'exit', e.code
            return 'ok', params
        except Unsupported as e:
            raise AnalysisError('tdda %s flag handling is not evaluable: %s' % (cmd, e))
    T, F = True, False
    cases = [
        ('verify', [], {'report': 'all', 'ascii': F}),
        ('verify', ['-f'], {'report': 'fields'}),
        ('verify', ['-a', '-f'], {'report': 'all'}),
        ('verify', ['-7', '-t', 'strict', '--epsilon', '0.05'], {'ascii': T, 'type_checking': 'strict', 'epsilon': 0.05}),
        ('verify', ['--bogus'], 'exit'),
        ('detect', [], {'per_constraint': T, 'output_fields': [], 'in_place': F, 'report': 'records', 'ascii': F}),
        ('detect', ['--write-all', '--index', '--int', '--interleave'], {'write_all': T, 'index': T, 'boolean_ints': T, 'interleave': T}),
        ('detect', ['--no-per-constraint'], {'per_constraint': None}),
        ('detect', ['--no-output-fields'], {'output_fields': None}),
        ('detect', ['--output-fields', 'a', 'b'], {'output_fields': ['a', 'b']}),
        ('detect', ['--output-fields'], {'output_fields': []}),
        ('detect', ['--per-constraint', '--no-per-constraint'], 'exit'),
        ('detect', ['--output-fields', 'a', '--no-output-fields'], 'exit'),
        ('detect', ['-t', 'sloppy', '--epsilon', '0.1', '-7'], {'type_checking': 'sloppy', 'epsilon': 0.1, 'ascii': T}),
        ('detect', ['--nonsense'], 'exit'),
        ('discover', [], {'inc_rex': F}),
        ('discover', ['-r'], {'inc_rex': T}),
        ('discover', ['--whatever'], 'exit'),
    ]
    n = 0
    for cmd, args, want in cases:
        n += 1
        kind, got = run_cmd(cmd, args)
        if want == 'exit':
            ok = kind == 'exit' and got not in (0, None)
            msg = 'ends with sys.exit(%r)' % (got,) if kind == 'exit' else 'is accepted with %r' % (got,)
        else:
            ok = kind == 'ok' and all((got.get(k) == v) if v is not None else (not got.get(k)) for k, v in want.items())
            msg = 'gives %r' % (got,) if kind == 'ok' else 'ends with sys.exit(%r)' % (got,)
        run.ob('C17-FLAGTABLE', 'tdda %s %s' % (cmd, ' '.join(args)), ok,
               'tdda %s %s %s (expected %s)' % (cmd, ' '.join(args), msg, 'a non-zero exit' if want == 'exit' else want), fn=p.fn('tdda.constraints.flags.%s_flags' % cmd))
    run.floor('C17-FLAGTABLE', n, 15)


def defaulttdda(run, p):
    """tdda verify / detect without a constraints argument use the .tdda file next to the data file"""
    import posixpath
    from ..pyeval import Interp, Unsupported, Raised, pure_os, pure_sys
    run.rule('C17-DEFAULTTDDA', 'the command without a constraints argument judges the data by the constraints file next to it: '
                                'verify_df_from_file and detect_df_from_file, evaluated with stand-ins for the loader and the library '
                                'call, hand the library the data path with its last extension replaced by .tdda - also when a '
                                'directory on the way carries the same extension (export.csv/part-1.csv), when the name has several '
                                'dots, and when it has no extension')
    n = 0
    for fq, lib in (('tdda.constraints.pd.verify.verify_df_from_file', 'verify_df'), ('tdda.constraints.pd.detect.detect_df_from_file', 'detect_df')):
        f = p.fn(fq)
        for path in ('/d/x.csv', '/d/export.csv/part-1.csv', '/d/events.parquet/part-0001.parquet', '/d/noext', '/d/v1.2.final.csv', 'rel/a.csv.d/a.csv',
                     '/d/.csv/x.csv'):
            seen = []

            def hook(m, args, kwargs, selfobj, seen=seen):
                if m.name == 'load_df':
                    return True, '<frame>'
                if m.name == lib:
                    seen.append(args[1] if len(args) > 1 else kwargs.get('constraints_path'))
                    return True, '<result>'
                return False, None
            I = Interp(p)
            I.on_call = hook
            I.extra_names.update({'os': pure_os(), 'sys': pure_sys(), 'print': lambda *a, **k: None})
            try:
                I.call(f, [path, None], {'verbose': False})
            except Unsupported as e:
                raise AnalysisError('%s is not evaluable: %s' % (f.short, e))
            except Raised as e:
                seen.append('raises %s' % e)
            want = posixpath.splitext(path)[0] + '.tdda'
            n += 1
            run.ob('C17-DEFAULTTDDA', '%s::%s' % (f.short, path), seen[:1] == [want],
                   '%s(%r, None) hands %s the constraints path %r (next to the data: %r)' % (f.short, path, lib, seen[0] if seen else None, want), fn=f)
    run.floor('C17-DEFAULTTDDA', n, 14)
