"""C02 - verification verdicts equal the documented meaning of each constraint."""
from ..pyeval import Model as _PyevalModel
import ast

from .. import mirror, tables
from ..flow import GuardMap, Walker, World
from ..specialise import flat
from ..model import AnalysisError, norm
from .c06 import kinds_and_methods, enums, PCV
from .common import dep_closure, names_in, guard_requires

STAT_PREFIX = ('get_', 'calc_')
NOT_STATS = {'get_cached_value', 'get_column_names'}

# documented meaning (tdda_json_file_format.md and the verify_df docstring), as data
SPEC_MINMAX = {
    'min': {('closed',): '>= BOUND', ('open',): '> BOUND', ('else',): 'call:fuzzy_greater_than'},
    'max': {('closed',): '<= BOUND', ('open',): '< BOUND', ('else',): 'call:fuzzy_less_than'},
}
SPEC_SIGN = {('positive',): '> 0', ('non-negative',): '>= 0', ('zero',): '== 0', ('non-positive',): '<= 0',
             ('negative',): '< 0', ('null',): 'False'}
SPEC_LEN = {'min_length': '>= BOUND', 'max_length': '<= BOUND'}
SIGN_AGG = {'positive': 'm', 'non-negative': 'm', 'non-positive': 'M', 'negative': 'M'}   # which aggregate decides


def is_stat_call(n):
    return (isinstance(n, ast.Call) and isinstance(n.func, ast.Attribute) and isinstance(n.func.value, ast.Name)
            and n.func.value.id == 'self' and n.func.attr.startswith(STAT_PREFIX) and n.func.attr not in NOT_STATS)


def returns_const(body, values):
    return len(body) >= 1 and isinstance(body[-1], ast.Return) and isinstance(body[-1].value, ast.Constant) \
        and body[-1].value.value in values and all(isinstance(s, (ast.Expr, ast.Return, ast.Pass)) for s in body)


class _GuardOrder(Walker):
    """typestate 0 -> 1 (field-missing test passed) -> 2 (null-value test passed)."""

    def __init__(self, f, valnames):
        super().__init__(f.node, f.params)
        self.valnames = valnames
        self.bad = []

    def init_state(self):
        return 0

    def _expanded(self, test):
        """the test with a flag that is bound once (active = value is not False and not self.is_null(value)) written out"""
        import copy
        defs = {}
        for n in ast.walk(self.fnode):
            if isinstance(n, ast.Assign) and len(n.targets) == 1 and isinstance(n.targets[0], ast.Name):
                defs.setdefault(n.targets[0].id, []).append(n.value)

        class T(ast.NodeTransformer):
            def visit_Name(self2, n):
                v = defs.get(n.id)
                if isinstance(n.ctx, ast.Load) and v and len(v) == 1 and isinstance(v[0], (ast.BoolOp, ast.Compare, ast.UnaryOp, ast.Call)) \
                        and n.id not in self.params:
                    return copy.deepcopy(v[0])
                return n
        return T().visit(copy.deepcopy(test))

    def stmt(self, s, ws):
        if isinstance(s, ast.If) and not s.orelse:
            test = self._expanded(s.test)
            t = ast.unparse(test)
            if returns_const(s.body, (False, 0, None)) and 'column_exists' in t and isinstance(s.test, ast.UnaryOp):
                out, b, c = super().stmt(s, ws)
                return [World(w.asg, w.atoms, w.weak, max(w.state, 1)) for w in out], b, c
            if returns_const(s.body, (True,)) and ('is_null(' in t or ' is None' in t) and \
                    (names_in(test) & self.valnames):
                out, b, c = super().stmt(s, ws)
                return [World(w.asg, w.atoms, w.weak, 2 if w.state >= 1 else w.state) for w in out], b, c
        return super().stmt(s, ws)

    def expr(self, e, ws, stmt):
        for n in ast.walk(e):
            if is_stat_call(n):
                for w in ws:
                    if w.state < 2 and not w.weak:
                        self.bad.append((n, w.state))
                        break


def check(run):
    p = run.prog
    km = kinds_and_methods(p)
    run.attempt(guard, run, p, km)
    run.attempt(registry, run, p, km)
    run.attempt(count, run, p)
    run.attempt(mirrors, run, p)
    run.attempt(verdicts, run, p, km)
    run.attempt(keeps_constraints, run, p, km)
    run.attempt(frameall, run, p)
    run.attempt(exactstats, run, p)
    from .common import observed_rule
    calc = p.cls('PandasConstraintCalculator')
    n_obs = observed_rule(run, 'C02-OBSERVED', p, list(calc.methods.values()),
                          'verdicts are taken on the values present: no calc_* method of the pandas calculator reads a categorical column\'s '
                          'declared levels (.cat.categories, an unfiltered value_counts()) - a distinct count or length taken from unused levels '
                          'turns no_duplicates and allowed_values verdicts wrong in both directions')
    run.floor('C02-OBSERVED', n_obs, 15)
    run.attempt(sem, run, p, km)
    run.attempt(fuzz, run, p, km)
    from .common import keyorder_rule
    n = keyorder_rule(run, 'C02-KEYORDER', p,
                      [f for f in p.funcs.values() if f.rel in ('tdda/constraints/base.py', 'tdda/constraints/baseconstraints.py',
                                                                 'tdda/constraints/pd/constraints.py')],
                      'a verdict does not depend on the order in which a field\'s constraints (or any other dictionary\'s keys) are '
                      'written: no loop over a dictionary\'s items carries a plain local from the handling of one key to the '
                      'handling of another (accumulations are order-free and allowed)')
    run.floor('C02-KEYORDER', n, 4)
    from .. import ief, triage
    run.attempt(ief.run_ief, run, 'C02', [p.fn('verify_df')], triage=triage.IEF)
    run.floor('C02-IEF', run.units.get('ief_functions_checked', 0), 80)


def value_names(f):
    """Local names that hold (something derived only from) constraint.value."""
    out = set()
    for n in ast.walk(f.node):
        if isinstance(n, ast.Assign) and 'constraint' in names_in(n.value) and \
                any(isinstance(x, ast.Attribute) and x.attr == 'value' for x in ast.walk(n.value)):
            for t in n.targets:
                if isinstance(t, ast.Name):
                    out.add(t.id)
    changed = True
    while changed:
        changed = False
        for n in ast.walk(f.node):
            if isinstance(n, ast.Assign) and (names_in(n.value) & out) and not any(is_stat_call(x) for x in ast.walk(n.value)):
                for t in n.targets:
                    if isinstance(t, ast.Name) and t.id not in out:
                        out.add(t.id)
                        changed = True
    return out | {'constraint'}


def guard(run, p, km):
    run.rule('C02-GUARD', 'in every registered verifier, on every path to the first column statistic: first the field-missing test '
                          '(false arm returns False), then the null-value test (true arm returns True)')
    for kind, (ver, det) in sorted(km.items()):
        w = _GuardOrder(ver, value_names(ver))
        w.run()
        if not w.bad:
            run.ob('C02-GUARD', '%s::%s' % (ver.rel, ver.short), True,
                   'field-missing => False and null value => True precede every statistic', fn=ver)
        seen = set()
        for n, st in w.bad:
            k = (n.func.attr, st)
            if k in seen:
                continue
            seen.add(k)
            run.ob('C02-GUARD', '%s::%s::%s@state%d' % (ver.rel, ver.short, n.func.attr, st), False,
                   '%s reads statistic %s before the %s test' % (ver.short, n.func.attr,
                                                                'field-missing' if st == 0 else 'null-value'),
                   fn=ver, node=n)
    run.floor('C02-GUARD', len(km), 10)


def registry(run, p, km):
    run.rule('C02-REG', 'kind tables agree: STANDARD_FIELD_CONSTRAINTS minus transform = keys of verifiers(); each kind has a '
                        'Constraint class that passes its own literal kind; verifier K is the method named for K and calls detector K')
    base = p.mod('tdda.constraints.base')
    std = [k for k in p.const(base, 'CONSTRAINT_SUFFIX_MAP_KEYS')] if False else None
    sm = base.consts.get('CONSTRAINT_SUFFIX_MAP')
    if sm is None:
        raise AnalysisError('CONSTRAINT_SUFFIX_MAP vanished')
    keys = [x.elts[0].value for x in ast.walk(sm) if isinstance(x, ast.Tuple) and len(x.elts) == 2
            and isinstance(x.elts[0], ast.Constant) and isinstance(x.elts[0].value, str)]
    want = set(keys) - {'transform'}
    run.ob('C02-REG', 'kinds', want == set(km), 'standard kinds %s vs verifier registry %s' % (sorted(want), sorted(km)),
           rel=base.rel, line=sm.lineno)
    for kind in sorted(km):
        ver, det = km[kind]
        cname = ''.join(part.title() for part in kind.split('_')) + 'Constraint'
        try:
            c = p.cls(cname)
        except AnalysisError:
            run.ob('C02-REG', 'class:%s' % kind, False, 'no class %s for kind %s' % (cname, kind), rel=base.rel, line=1)
            continue
        lit = None
        init = c.methods.get('__init__')
        if init is not None:
            for n in ast.walk(init.node):
                if isinstance(n, ast.Call) and norm(n.func) == 'Constraint.__init__' and len(n.args) >= 2 \
                        and isinstance(n.args[1], ast.Constant):
                    lit = n.args[1].value
        run.ob('C02-REG', 'class:%s' % kind, lit == kind, '%s passes kind %r' % (cname, lit), fn=init or ver, nontrivial=False)
        vname = 'verify_%s_constraint' % ('tdda_type' if kind == 'type' else kind)
        dname = 'detect_%s_constraint' % ('tdda_type' if kind == 'type' else kind)
        run.ob('C02-REG', 'verifier:%s' % kind, ver.name == vname and det is not None and det.name == dname,
               'kind %s -> %s -> %s' % (kind, ver.name, det.name if det else None), fn=ver, nontrivial=False)
    run.floor('C02-REG', 1 + 2 * len(km), 21)


def count(run, p):
    import itertools
    from ..pyeval import Interp, Model, Obj, Unsupported
    run.rule('C02-COUNT', 'in base.verify every verdict is counted exactly once: for every combination of verdicts returned by stand-in '
                          'verifiers (true, false, truthy and falsy non-booleans) over two fields, one of them with a constraint kind '
                          'that has no verifier, the per-field and overall pass / failure counts equal the number of truthy / falsy '
                          'verdicts, each verdict is stored under its kind, an unknown kind is stored as None and counted nowhere - '
                          'decided by abstract execution of verify() itself, so helper extraction or a different way of counting '
                          'does not matter')
    f = p.fn('tdda.constraints.base.verify')

    class Con(Model):
        def __init__(self, kind):
            self.kind = kind

    class Constraints(Model):
        def __init__(self):
            self.fields = {'a': [Con('k1'), Con('k2'), Con('nokind')], 'b': [Con('k3')]}

    class Results(Model):
        def __init__(self):
            self.failures = 0
            self.passes = 0
            self.fields = {}
            self.detection = None

    class Ver(Model):
        def __init__(self, ret, log):
            self.ret, self.log = ret, log

        def __call__(self, name, c, detect):
            self.log.append((name, c.kind))
            return self.ret

    class MakeResults(Model):
        def __init__(self):
            self.made = None

        def __call__(self, constraints, **kw):
            self.made = Results()
            return self.made
    combos = list(itertools.product((True, False), repeat=3)) + [(1, 0, 'x'), ('', 2.5, 0)]
    n = 0
    for vals in combos:
        I = Interp(p)

        def hook(m, args, kwargs, selfobj):
            if m.name == '__init__' and m.cls is not None and m.cls.name == 'TDDAObject':
                return True, None
            return False, None
        I.on_call = hook
        log = []
        verifiers = {'k1': Ver(vals[0], log), 'k2': Ver(vals[1], log), 'k3': Ver(vals[2], log)}
        mk = MakeResults()
        try:
            res = I.call(f, [Constraints(), ['a', 'b'], verifiers], {'VerificationClass': mk})
        except Unsupported as e:
            raise AnalysisError('base.verify is not evaluable: %s' % e)
        n += 1
        want = {'a': (int(bool(vals[0])) + int(bool(vals[1])), int(not vals[0]) + int(not vals[1])), 'b': (int(bool(vals[2])), int(not vals[2]))}
        ok = res is mk.made and sorted(res.fields) == ['a', 'b'] and sorted(log) == [('a', 'k1'), ('a', 'k2'), ('b', 'k3')]
        got = {}
        if ok:
            for fld, kinds in (('a', ('k1', 'k2', 'nokind')), ('b', ('k3',))):
                fr = res.fields[fld]
                attrs = fr.attrs if isinstance(fr, Obj) else {}
                items = fr.items if isinstance(fr, Obj) else {}
                got[fld] = (attrs.get('passes'), attrs.get('failures'))
                exp_items = {'k1': vals[0], 'k2': vals[1], 'nokind': None, 'k3': vals[2]}
                ok = ok and got[fld] == want[fld] and all(k in items and items[k] is exp_items[k] for k in kinds)
            ok = ok and (res.passes, res.failures) == (want['a'][0] + want['b'][0], want['a'][1] + want['b'][1])
        run.ob('C02-COUNT', '%s::%s::verdicts=%r' % (f.rel, f.short, vals), ok,
               'verdicts %r: per-field (passes, failures) %s, totals (%s, %s); expected %s' % (
                   vals, got, getattr(res, 'passes', '?'), getattr(res, 'failures', '?'), want), fn=f)
    run.floor('C02-COUNT', n, 10)


MINMAX = [(r'min', r'max'), (r'\bm\b', r'\bM\b'), (r'greater', r'less'), (r'fuzz_down', r'fuzz_up'),
          (r'_gt\b', r'_lt\b')]
OPS = {'>=': '<=', '<=': '>=', '>': '<', '<': '>', '-': '+', '+': '-'}


def body_tokens(f):
    body = f.node.body
    if body and isinstance(body[0], ast.Expr) and isinstance(body[0].value, ast.Constant) and isinstance(body[0].value.value, str):
        body = body[1:]
    out = []
    for s in body:
        out += mirror.tokens(s)
    return out


def flip(toks, cmp_ops=True):
    out = []
    for t in toks:
        if cmp_ops and t in ('>=', '<=', '>', '<'):
            out.append(OPS[t])
            continue
        if t[:1].isalpha() or t[:1] in '_"\'':
            out.append(mirror.swap_ident(t, MINMAX))
        else:
            out.append(t)
    return out


def mirrors(run, p):
    run.rule('C02-MIRROR', 'min/max, min_length/max_length verifiers, detectors and calculators, the two fuzzy comparators and the two '
                           'fuzz helpers are mirror images under (min<->max, >=<->=<, >< , fuzz_down<->fuzz_up, 1-e<->1+e)')
    pairs = [('BaseConstraintVerifier.verify_min_constraint', 'BaseConstraintVerifier.verify_max_constraint'),
             ('BaseConstraintVerifier.verify_min_length_constraint', 'BaseConstraintVerifier.verify_max_length_constraint'),
             ('PandasConstraintDetector.detect_min_constraint', 'PandasConstraintDetector.detect_max_constraint'),
             ('PandasConstraintDetector.detect_min_length_constraint', 'PandasConstraintDetector.detect_max_length_constraint'),
             ('PandasConstraintCalculator.calc_min', 'PandasConstraintCalculator.calc_max'),
             ('PandasConstraintCalculator.calc_min_length', 'PandasConstraintCalculator.calc_max_length'),
             ('tdda.constraints.base.fuzzy_greater_than', 'tdda.constraints.base.fuzzy_less_than'),
             ('tdda.constraints.base.fuzz_down', 'tdda.constraints.base.fuzz_up'),
             ('df_fuzzy_gt', 'df_fuzzy_lt')]
    n = 0
    for a, b in pairs:
        fa = p.method(*a.split('.')) if a.count('.') == 1 and a[0].isupper() else p.fn(a)
        fb = p.method(*b.split('.')) if b.count('.') == 1 and b[0].isupper() else p.fn(b)
        fa, fb = flat(p, fa), flat(p, fb)
        ta, tb = body_tokens(fa), body_tokens(fb)
        if fa.name.startswith('fuzz_'):
            # the sign test `v >= 0` stays; 1 - epsilon <-> 1 + epsilon
            fl = [OPS.get(t, t) if t in '+-' else t for t in flip(ta, cmp_ops=False)]
        else:
            fl = flip(ta)
        # message texts differ legitimately
        def scrub(ts):
            return ['STR' if (t[:1] in '"\'' and ' ' in t) else t for t in ts]
        # local variables may be named freely on either side (m / M, lowest / highest): number them by first occurrence
        from .c10 import stored_names
        local = set()
        for f_ in (fa, fb):
            for st in p.own_nodes(f_):
                local |= set(stored_names(st))
            local -= set(f_.params)
        local |= {mirror.swap_ident(x, MINMAX) for x in local}

        def alpha(ts):
            seen, out_ = {}, []
            for i, t in enumerate(ts):
                if t in local and not (i and ts[i - 1] == '.'):
                    out_.append(seen.setdefault(t, 'L%d' % len(seen)))
                else:
                    out_.append(t)
            return out_
        ok = scrub(fl) == scrub(tb) or alpha(scrub(fl)) == alpha(scrub(tb))
        diff = []
        if not ok:
            import difflib
            sm = difflib.SequenceMatcher(None, scrub(fl), scrub(tb), autojunk=False)
            diff = [(' '.join(scrub(fl)[i:j]), ' '.join(scrub(tb)[k:l])) for tag, i, j, k, l in sm.get_opcodes() if tag != 'equal'][:4]
        n += 1
        run.ob('C02-MIRROR', '%s::%s<->%s' % (fa.rel, fa.short, fb.short), ok,
               '%s mirrors %s%s' % (fa.short, fb.short, '' if ok else ': differs in ' + '; '.join('%s | %s' % d for d in diff)),
               fn=fb, detail={'diff': diff} if diff else None)
    run.floor('C02-MIRROR', n, 9)


class _BackendDate(_PyevalModel):
    """a date statistic as a backend returns it: not comparable with a datetime until the verifier's to_datetime has converted it"""
    def __init__(self, value):
        self.raw_value = value

    def __repr__(self):
        return 'backend-date(%s)' % self.raw_value.date()


def verdicts(run, p, km):
    """every base verifier evaluated with stand-in statistics against the documented meaning of its constraint"""
    import datetime as dt
    run.rule('C02-VERDICT', 'each verifier, evaluated with stand-in statistics on a grid of (constraint value, column statistic) pairs on '
                            'both sides of every boundary, returns the documented verdict: min/max closed (>=, <=), open (>, <) and '
                            'fuzzy (within the tolerance), dates always closed, null bound or empty column satisfied; lengths '
                            'inclusive and only for strings; the six sign classes on the deciding extreme; max_nulls inclusive; '
                            'no_duplicates distinct == non-null; a missing column fails')
    eps = p.const('tdda.constraints.baseconstraints', 'EPSILON_DEFAULT') if 'EPSILON_DEFAULT' in p.mod('tdda.constraints.baseconstraints').consts else None
    if not isinstance(eps, (int, float)):
        try:
            eps = p.const('tdda.constraints.base', 'EPSILON_DEFAULT')
        except AnalysisError:
            eps = 0.0
    eps0 = eps
    n = 0

    def report(kind, ver, bad, count):
        run.ob('C02-VERDICT', '%s::%s::grid' % (ver.rel, ver.short), not bad,
               '%s over %d cases%s' % (kind, count, '' if not bad else '; wrong for %s: verdict %r, documented %r' % bad[0]), fn=ver)
    vals = [-5, -1, 0, 1, 5, 100, 2.5]
    for kind, stat in (('min', 'calc_min'), ('max', 'calc_max')):
        ver = km[kind][0]
        bad = []
        k = 0
        for prec, eps in [(pr, e_) for pr in (None, 'closed', 'open', 'fuzzy') for e_ in ((eps0, 0.01) if pr in (None, 'fuzzy') else (eps0,))]:
            for v in vals + [None]:
                near = [v * (1 - 0.5 * eps), v * (1 + 0.5 * eps), v * (1 - 2 * eps), v * (1 + 2 * eps)] if isinstance(v, (int, float)) and v and eps else []
                for a in vals + [None] + near:
                    got = eval_verifier(p, ver, kind, v, {stat: a, 'calc_tdda_type': 'real'}, precision=prec, epsilon=eps)
                    k += 1
                    if v is None or a is None:
                        want = True
                    elif prec == 'closed':
                        want = a >= v if kind == 'min' else a <= v
                    elif prec == 'open':
                        want = a > v if kind == 'min' else a < v
                    else:
                        lim = _spec_fuzz('fuzz_down' if kind == 'min' else 'fuzz_up', v, eps)
                        want = (a >= v or a >= lim) if kind == 'min' else (a <= v or a <= lim)
                    if bool(got) != want or isinstance(got, str):
                        bad.append(('precision=%r epsilon=%r value=%r column %s=%r' % (prec, eps, v, kind, a), got, want))
        d0 = dt.datetime(2020, 1, 1)
        for prec in (None, 'open', 'fuzzy'):
            for dv, da in ((0, 0), (0, 1), (1, 0)):
                v, a = d0 + dt.timedelta(days=dv), d0 + dt.timedelta(days=da)
                got = eval_verifier(p, ver, kind, v, {stat: a, 'calc_tdda_type': 'date'}, precision=prec)
                k += 1
                want = a >= v if kind == 'min' else a <= v
                if bool(got) != want or isinstance(got, str):
                    bad.append(('precision=%r date value=%s column %s=%s' % (prec, v.date(), kind, a.date()), got, want))
                # the statistic as the backend hands it over (a date object, a database string): only to_datetime makes it comparable
                got = eval_verifier(p, ver, kind, v, {stat: _BackendDate(a), 'calc_tdda_type': 'date'}, precision=prec)
                k += 1
                if bool(got) != want or isinstance(got, str):
                    bad.append(('precision=%r date value=%s column %s=%s in the backend\'s own form' % (prec, v.date(), kind, a.date()), got, want))
        got = eval_verifier(p, ver, kind, 1, {stat: 1, 'column_exists': False})
        k += 1
        if got is not False:
            bad.append(('a missing column', got, False))
        n += k
        report(kind, ver, bad, k)
    for kind, stat in (('min_length', 'calc_min_length'), ('max_length', 'calc_max_length')):
        ver = km[kind][0]
        bad = []
        k = 0
        for typ in ('string', 'int'):
            for v in (0, 1, 3, None):
                for a in (0, 1, 2, 3, 4, None):
                    got = eval_verifier(p, ver, kind, v, {stat: a, 'calc_tdda_type': typ})
                    k += 1
                    if v is None:
                        want = True
                    elif typ != 'string':
                        want = False
                    elif a is None:
                        want = True
                    else:
                        want = a >= v if kind == 'min_length' else a <= v
                    if bool(got) != want or isinstance(got, str):
                        bad.append(('type=%s value=%r column %s=%r' % (typ, v, kind, a), got, want))
        n += k
        report(kind, ver, bad, k)
    ver = km['sign'][0]
    bad = []
    k = 0
    for sign in ('positive', 'non-negative', 'zero', 'non-positive', 'negative', 'null', None):
        for m, M in ((1, 5), (0, 5), (0, 0), (-5, 0), (-5, -1), (-5, 5), (None, None), (0.5, 0.5), (-0.0, 0.0), (False, True), (True, True), (False, False)):
            got = eval_verifier(p, ver, 'sign', sign, {'calc_min': m, 'calc_max': M})
            k += 1
            if sign is None or m is None:
                want = True
            else:
                want = {'positive': m > 0, 'non-negative': m >= 0, 'zero': m == 0 and M == 0, 'non-positive': M <= 0,
                        'negative': M < 0, 'null': False}[sign]
            if bool(got) != want or isinstance(got, str):
                bad.append(('sign=%r min=%r max=%r' % (sign, m, M), got, want))
    n += k
    report('sign', ver, bad, k)
    ver = km['max_nulls'][0]
    bad = []
    k = 0
    for v in (0, 1, 3, None):
        for a in (0, 1, 2, 3, 4):
            got = eval_verifier(p, ver, 'max_nulls', v, {'calc_null_count': a})
            k += 1
            want = True if v is None else a <= v
            if bool(got) != want or isinstance(got, str):
                bad.append(('value=%r nulls=%r' % (v, a), got, want))
    n += k
    report('max_nulls', ver, bad, k)
    ver = km['no_duplicates'][0]
    bad = []
    k = 0
    for v in (True, False, None):
        for nu, nn in ((0, 0), (3, 3), (2, 3), (1, 5), (5, 5)):
            got = eval_verifier(p, ver, 'no_duplicates', v, {'calc_nunique': nu, 'calc_non_null_count': nn})
            k += 1
            want = True if not v else nu == nn
            if bool(got) != want or isinstance(got, str):
                bad.append(('value=%r distinct=%r non-null=%r' % (v, nu, nn), got, want))
    n += k
    report('no_duplicates', ver, bad, k)
    run.floor('C02-VERDICT', n, 700)


def sem(run, p, km):
    run.rule('C02-SEM', 'the verifiers\' decision tables equal the documented truth tables: min/max x {closed, open, fuzzy}; sign '
                        'classes on the deciding aggregate (min for positive/non-negative, max for negative/non-positive, both for zero); '
                        'length bounds inclusive; max_nulls inclusive; no_duplicates nunique == non-null count; strict type = membership; '
                        'dates always compared closed')
    n = 0
    for kind in ('min', 'max'):
        ver = km[kind][0]
        t = tables.table(ver.node, tables.pick_result())
        got = {lab: (comp, marks) for lab, marks, comp, s in t}
        for lab, comp in SPEC_MINMAX[kind].items():
            n += 1
            g = got.get(lab)
            run.ob('C02-SEM', '%s::%s::%s' % (ver.rel, ver.short, '|'.join(lab)), g is not None and g[0] == comp,
                   '%s with precision %s decides `%s` (documented `%s`)' % (kind, lab[0] if lab != ('else',) else 'fuzzy',
                                                                          g[0] if g else None, comp), fn=ver)
        g = got.get(('closed',))
        n += 1
        run.ob('C02-SEM', '%s::%s::dates-closed' % (ver.rel, ver.short), g is not None and 'date' in g[1],
               'date bounds take the closed comparison whatever the precision', fn=ver)
        extra = set(got) - set(SPEC_MINMAX[kind]) - {('incompat',)}
        run.ob('C02-SEM', '%s::%s::no-extra-arms' % (ver.rel, ver.short), not extra, 'undocumented arms: %s' % sorted(extra), fn=ver, nontrivial=False)
        # operands: aggregate on the left, bound on the right
        for lab, marks, comp, s in t:
            v = s.value
            if isinstance(v, ast.Compare):
                left = dep_closure(ver.node, names_in(v.left))
                right = dep_closure(ver.node, names_in(v.comparators[0]))
                ok = any(x.startswith('self.get_') for x in left) and 'constraint' in right and \
                    not any(x.startswith('self.get_') for x in right)
                n += 1
                run.ob('C02-SEM', '%s::%s::%s::operands' % (ver.rel, ver.short, '|'.join(lab)), ok,
                       'left operand is the column aggregate, right operand the constraint value: %s' % norm(v), fn=ver, node=s)
    ver = km['sign'][0]
    t = tables.table(ver.node, tables.pick_result())
    got = {lab: (comp, s) for lab, marks, comp, s in t if lab != ('incompat',)}
    for lab, comp in SPEC_SIGN.items():
        n += 1
        g = got.get(lab)
        ok = g is not None and g[0] == comp
        if ok and lab[0] in SIGN_AGG and isinstance(g[1].value, ast.Compare):
            agg = dep_closure(ver.node, names_in(g[1].value.left))
            want = 'self.get_min' if SIGN_AGG[lab[0]] == 'm' else 'self.get_max'
            ok = want in agg and not ({'self.get_min', 'self.get_max'} - {want}) & agg
        if ok and lab[0] == 'zero':
            agg = dep_closure(ver.node, names_in(g[1].value))
            ok = {'self.get_min', 'self.get_max'} <= agg
        run.ob('C02-SEM', '%s::%s::%s' % (ver.rel, ver.short, lab[0]), ok,
               'sign %s decides `%s` on %s (documented `%s`)' % (lab[0], g[0] if g else None,
                                                               norm(g[1].value) if g else None, comp), fn=ver)
    run.ob('C02-SEM', '%s::%s::classes' % (ver.rel, ver.short), set(got) == set(SPEC_SIGN),
           'sign classes handled: %s' % sorted(x[0] for x in got), fn=ver, nontrivial=False)
    for kind, comp in SPEC_LEN.items():
        ver = km[kind][0]
        t = [r for r in tables.table(ver.node, tables.pick_result())]
        n += 1
        ok = len(t) == 1 and t[0][2] == comp
        if ok:
            left = dep_closure(ver.node, names_in(t[0][3].value.left))
            ok = ('self.get_' + kind) in left
        run.ob('C02-SEM', '%s::%s::inclusive' % (ver.rel, ver.short), ok,
               '%s decides `%s` on %s' % (kind, t[0][2] if t else None, norm(t[0][3].value) if t else None), fn=ver)
    ver = km['max_nulls'][0]
    t = tables.table(ver.node, tables.pick_result())
    ok = False
    if len(t) == 1 and isinstance(t[0][3].value, ast.Compare) and isinstance(t[0][3].value.ops[0], ast.LtE):
        cv = t[0][3].value
        ok = 'self.get_null_count' in dep_closure(ver.node, names_in(cv.left)) and \
            'constraint' in dep_closure(ver.node, names_in(cv.comparators[0]))
    n += 1
    run.ob('C02-SEM', '%s::%s::inclusive' % (ver.rel, ver.short), ok, 'max_nulls decides `%s`' % (norm(t[0][3].value) if t else None), fn=ver)
    ver = km['no_duplicates'][0]
    t = tables.table(ver.node, tables.pick_result())
    ok = False
    if len(t) == 1 and isinstance(t[0][3].value, ast.Compare) and isinstance(t[0][3].value.ops[0], ast.Eq):
        clo = dep_closure(ver.node, names_in(t[0][3].value))
        ok = {'self.get_nunique', 'self.get_non_null_count'} <= clo
    n += 1
    run.ob('C02-SEM', '%s::%s::all-distinct' % (ver.rel, ver.short), ok,
           'no_duplicates decides `%s`' % (norm(t[0][3].value) if t else None), fn=ver)
    ver = km['allowed_values'][0]
    bad = []
    nv = 0
    for actual in ([], ['a'], ['a', 'b'], ['b', 'c'], ['a', 'b', 'c'], ['x'], [None, 'a'], ['', 'a']):
        for allowed in (None, [], ['a'], ['a', 'b'], ['a', 'b', 'c', 'd']):
            for excl in (None, [], ['x'], [None]):
                for detect in (False,):
                    got = eval_verifier(p, ver, 'allowed_values', allowed, {'calc_unique_values': list(actual), 'calc_nunique': len(actual),
                                                                             'allowed_values_exclusions': excl}, detect=detect)
                    nv += 1
                    want = True if allowed is None else not (set(actual) - set(allowed) - set(excl or []))
                    # more distinct values than allowed values cannot fit, whatever the exclusions say: the documented shortcut
                    if allowed is not None and len(actual) > len(allowed):
                        want = False
                    if got is not want and not (bool(got) == want and not isinstance(got, str)):
                        bad.append((actual, allowed, excl, got, want))
    n += 1
    run.ob('C02-SEM', '%s::%s::subset' % (ver.rel, ver.short), not bad,
           'allowed_values over %d (values present, values allowed, exclusions): satisfied iff every value present is allowed or excluded%s' % (
               nv, '' if not bad else '; wrong for present=%r allowed=%r exclusions=%r: %r instead of %r' % bad[0]), fn=ver)
    # rex: each expression is compiled and matched on its own (backreferences and group numbers stay local)
    crc = p.method('PandasConstraintCalculator', 'calc_rex_constraint')
    comps = [x for x in ast.walk(crc.node) if isinstance(x, ast.Call) and norm(x.func) == 're.compile']
    okr = bool(comps)
    for c in comps:
        par = None
        for y in ast.walk(crc.node):
            if isinstance(y, (ast.ListComp, ast.GeneratorExp)) and y.elt is c:
                par = y
        okr = okr and par is not None and isinstance(c.args[0], ast.Name) and \
            any(isinstance(g.target, ast.Name) and g.target.id == c.args[0].id for g in par.generators)
    n += 1
    run.ob('C02-SEM', '%s::%s::each-expression' % (crc.rel, crc.short), okr,
           'rex: %s' % ('every expression of the list is compiled by itself' if okr else 'the expressions are not compiled one by one: %s' % [norm(c)[:50] for c in comps]), fn=crc)
    ver = km['type'][0]
    n += type_table(run, p, ver)
    run.floor('C02-SEM', n, 700)


def type_table(run, p, ver):
    """The type verifier evaluated on every combination of (checking mode, allowed types, actual type, has non-integer
    values, all non-nulls boolean) with the column statistics stubbed: strict = membership; sloppy additionally accepts a
    real column for int / bool when it holds whole numbers only and a string column for bool when its non-nulls are boolean."""
    import itertools
    from ..pyeval import Interp, Model, Obj, Unsupported

    class Con(Model):
        def __init__(self, value):
            self.value = value
            self.kind = 'type'
    TYPES = ('bool', 'int', 'real', 'string', 'date')
    allowed_sets = [('int',), ('bool',), ('real',), ('string',), ('date',), ('int', 'real'), ('bool', 'string'), ('int', 'string'),
                    ('bool', 'int'), 'int', 'bool', 'real']
    cls = ver.cls
    bad = []
    n = 0
    for mode, allowed, actual, nonint, allbool in itertools.product(('strict', 'sloppy', None), allowed_sets, TYPES, (0, 2), (True, False)):
        I = Interp(p)
        o = Obj(p.cls('BaseConstraintVerifier'))
        o.attrs['type_checking'] = mode

        def hook(m, args, kwargs, selfobj, actual=actual, nonint=nonint, allbool=allbool):
            stubs = {'column_exists': True, 'get_tdda_type': actual, 'get_non_integer_values_count': nonint,
                     'get_all_non_nulls_boolean': allbool, 'detect_tdda_type_constraint': None}
            if m.name in stubs:
                return True, stubs[m.name]
            if m.name == 'is_null':
                return True, args[0] is None
            return False, None
        I.on_call = hook
        value = list(allowed) if isinstance(allowed, tuple) else allowed
        try:
            got = I.call(ver, ['c', Con(value)], selfobj=o)
        except Unsupported as e:
            raise AnalysisError('%s is not evaluable: %s' % (ver.short, e))
        al = allowed if isinstance(allowed, tuple) else (allowed,)
        if actual in al:
            want = True
        elif mode == 'strict':
            want = False
        elif actual == 'real' and ('int' in al or 'bool' in al):
            want = nonint == 0
        elif actual == 'string' and 'bool' in al:
            want = allbool
        else:
            want = False
        n += 1
        if bool(got) != want:
            bad.append((mode, al, actual, nonint, allbool, got, want))
    run.ob('C02-SEM', '%s::%s::type-table' % (ver.rel, ver.short), not bad,
           'type verdicts over %d combinations of (mode, allowed types, actual type, non-integer values, boolean non-nulls)%s' % (
               n, '' if not bad else '; wrong for e.g. mode=%s allowed=%s actual=%s non-integers=%s booleans=%s: %r instead of %r' % bad[0]),
           fn=ver, detail={'wrong': bad[:5]} if bad else None)
    return n


def exactstats(run, p):
    run.rule('C02-EXACTSTAT', 'the only tolerance in a verdict is the documented one (epsilon, in the fuzzy comparators): no calc_* method of '
                              'the pandas calculator decides with isclose / allclose / approx / a rounding of the values - a count of '
                              'non-integer values taken with a relative tolerance calls 150000.25 whole, and the type verdict that rests '
                              'on that count passes a real column as int')
    c = p.cls('PandasConstraintCalculator')
    n = 0
    for nm, m in sorted(c.methods.items()):
        if not nm.startswith('calc_'):
            continue
        n += 1
        bad = [x for x in p.own_nodes(m) if isinstance(x, ast.Call) and (getattr(x.func, 'attr', None) or getattr(x.func, 'id', '')) in ('isclose', 'allclose', 'approx', 'assert_allclose')]
        run.ob('C02-EXACTSTAT', '%s::%s' % (m.rel, m.short), not bad,
               '%s %s' % (m.short, 'computes its statistic without a tolerance' if not bad else 'decides with `%s`' % norm(bad[0])[:60]), fn=m, node=bad[0] if bad else None)
    run.floor('C02-EXACTSTAT', n, 8)


def frameall(run, p):
    run.rule('C02-FRAMEALL', 'the tabular form of a verification holds every field whatever was asked to be printed: nothing reachable from '
                             'PandasVerification.to_frame / to_dataframe / verification_to_dataframe reads the report option (which '
                             'selects what __str__ prints) - a table built from the printed selection loses the fields that pass, and '
                             'its passes column no longer adds up to the count of the result')
    c = p.cls('PandasVerification')
    roots = [m for nm, m in c.methods.items() if nm in ('to_frame', 'to_dataframe', 'verification_to_dataframe')]
    if not roots:
        raise AnalysisError('PandasVerification has no to_frame / verification_to_dataframe')
    seen = p.reach(roots)
    done = set()
    bad = []
    for (qn, ctx) in seen:
        if qn in done:
            continue
        done.add(qn)
        g = p.funcs[qn]
        if not g.mod.name.startswith('tdda.constraints'):
            continue
        for x in p.own_nodes(g):
            if isinstance(x, ast.Attribute) and x.attr == 'report' and isinstance(x.ctx, ast.Load):
                bad.append((g, x))
            if isinstance(x, ast.Call) and norm(x.func) == 'getattr' and len(x.args) >= 2 and isinstance(x.args[1], ast.Constant) and x.args[1].value == 'report':
                bad.append((g, x))
    run.ob('C02-FRAMEALL', '%s::%s' % (c.mod.rel, c.name), not bad,
           '%d functions reachable from the tabular form; %s' % (len(done), 'none reads the report option' if not bad else
                                                                  '%s reads `%s`' % (bad[0][0].short, norm(bad[0][1]))), fn=bad[0][0] if bad else roots[0], node=bad[0][1] if bad else None)
    run.floor('C02-FRAMEALL', len(done), 2)


def keeps_constraints(run, p, km, rid='C02-KEEPS'):
    """verification reads the constraints, it does not edit them"""
    run.rule(rid, 'verifying leaves the constraints as they were given: the verifiers of the kinds whose value is a list '
                  '(allowed_values, rex), evaluated with values present, allowed values and exclusions, return with the '
                  'constraint\'s list and the exclusion list holding what they held before - the same object is verified '
                  'again, written out again, and is the caller\'s own list when the constraints came as a dictionary')
    n = 0
    ver = km['allowed_values'][0]
    bad = []
    for actual in (['a'], ['a', 'b'], ['x'], [None, 'a']):
        for allowed in (['a'], ['a', 'b'], ['a', 'b', 'c', 'd']):
            for excl in (None, [], ['x'], [None, 'y']):
                a0, e0 = list(allowed), (None if excl is None else list(excl))
                a1, e1 = list(allowed), (None if excl is None else list(excl))
                eval_verifier(p, ver, 'allowed_values', a1, {'calc_unique_values': list(actual), 'calc_nunique': len(actual), 'allowed_values_exclusions': e1})
                n += 1
                if a1 != a0 or e1 != e0:
                    bad.append((actual, a0, e0, a1, e1))
    run.ob(rid, '%s::%s::lists-kept' % (ver.rel, ver.short), not bad,
           'allowed_values over %d cases: %s' % (n, 'the allowed values and the exclusions are as before' if not bad else
                                                 'with present=%r allowed=%r exclusions=%r the verifier leaves allowed=%r exclusions=%r' % bad[0]), fn=ver)
    run.floor(rid, n, 40)


def eval_verifier(p, ver, kind, value, stubs, detect=False, epsilon=None, **attrs):
    """one verify_<kind>_constraint of the base verifier, evaluated on a constraint with the value given, the statistics
    answered by stubs (calc_* / get_* name -> value)"""
    import datetime as dt
    from ..pyeval import Interp, Obj, Unsupported, Raised
    vc = p.cls('BaseConstraintVerifier')
    I = Interp(p, consts={'unicode_string': str, 'byte_string': bytes, 'long_type': int})
    I.safe_modules = {'datetime'}
    I.extra_names['datetime'] = dt

    def hook(mth, args, kwargs, selfobj):
        if mth.name in stubs:
            return True, stubs[mth.name]
        if mth.name == 'is_null':
            return True, args[0] is None
        if mth.name == 'column_exists':
            return True, stubs.get('column_exists', True)
        if mth.name == 'types_compatible':
            a, b = args[0], args[1]
            num = (bool, int, float)
            return True, (isinstance(a, num) and isinstance(b, num)) or type(a) is type(b)
        if mth.name == 'to_datetime':
            return True, getattr(args[0], 'raw_value', args[0])     # a statistic in the backend's own date form becomes a datetime here
        if mth.name.startswith('detect_'):
            return True, None
        return False, None
    I.on_call = hook
    v = Obj(vc)
    c = Obj(p.cls('Constraint'))
    c.attrs.update(kind=kind, value=value, **attrs)
    try:
        I.call(vc.methods['__init__'], [], {'epsilon': epsilon}, selfobj=v)
        return I.call(ver, ['f', c], {'detect': detect}, selfobj=v)
    except Raised as e:
        return 'raises: %s' % e
    except Unsupported as e:
        raise AnalysisError('%s is not evaluable: %s' % (ver.short, e))


def fuzz(run, p, km):
    run.rule('C02-FUZZ', 'fuzz_down(v,e) <= v <= fuzz_up(v,e), each moving v by the proportion e, evaluated over a grid of values of both signs, zero '
                         'and tolerances including 0; dates pass through; each fuzzy comparator, evaluated on a grid around the limit and '
                         'the fuzzed limit, is exact-or-fuzzed on its second argument; the fuzzed argument is '
                         'always the constraint value and the other one the column aggregate')
    base = 'tdda.constraints.base.'
    for name, want in (('fuzz_down', '<='), ('fuzz_up', '>=')):
        f = p.fn(base + name)
        bad, n = fuzz_direction(p, f, want)
        run.ob('C02-FUZZ', '%s::%s::direction' % (f.rel, f.short), not bad,
               '%s(v, e) %s v and moves v by the proportion e, over %d (v, e) pairs on both signs and at zero%s' % (
                   name, want, n, '' if not bad else '; wrong for e.g. v=%r e=%r: %r' % bad[0]), fn=f)
        dbad = fuzz_dates(p, f)
        run.ob('C02-FUZZ', '%s::%s::dates' % (f.rel, f.short), not dbad,
               '%s returns dates and datetimes unchanged%s' % (name, '' if not dbad else '; not for %r' % (dbad[0],)), fn=f, nontrivial=False)
    fuzz_shape(run, p, 'C02-FUZZ')
    # roles at every call that reaches a fuzzed position, through helpers
    fparams = fuzzed_params(p, {'fuzz_down': {0}, 'fuzz_up': {0}})
    n = 0
    for kind in ('min', 'max'):
        ver, det = km[kind]
        for f in (ver,):
            valn = value_names(f)
            for c in ast.walk(f.node):
                if not isinstance(c, ast.Call):
                    continue
                cname = c.func.attr if isinstance(c.func, ast.Attribute) else getattr(c.func, 'id', None)
                if cname not in fparams:
                    continue
                offs = 0
                for i in sorted(fparams[cname]):
                    if i >= len(c.args):
                        continue
                    n += 1
                    arg = c.args[i]
                    clo = dep_closure(f.node, names_in(arg))
                    is_val = 'constraint' in clo and not any(x.startswith(('self.get_', 'self.calc_')) for x in clo)
                    run.ob('C02-FUZZ', '%s::%s::%s#%d' % (f.rel, f.short, cname, i), is_val,
                           'the tolerance in %s is applied to %s, which is %s' % (norm(c)[:60], norm(arg),
                                                                                  'the constraint value' if is_val else 'NOT the constraint value (it derives from a column statistic)'),
                           fn=f, node=c)
                # the non-fuzzed comparison operand must be the aggregate
                others = [j for j in range(min(2, len(c.args))) if j not in fparams[cname]]
                for j in others:
                    clo = dep_closure(f.node, names_in(c.args[j]))
                    if cname.startswith('detect_'):
                        continue
                    n += 1
                    run.ob('C02-FUZZ', '%s::%s::%s#%d' % (f.rel, f.short, cname, j), any(x.startswith('self.get_') for x in clo),
                           'the compared operand %s of %s is the column aggregate' % (norm(c.args[j]), cname), fn=f, node=c)
    run.floor('C02-FUZZ', n, 6)


def returns_v(body, v):
    return len(body) == 1 and isinstance(body[0], ast.Return) and norm(body[0].value) == v


# the integers beyond 2**53 are not representable as floats: multiplying them by a float factor (even 1.0) moves them
FUZZ_V = (-(2 ** 53 + 1), -1e6, -100, -7, -1.5, -1, -0.01, 0, 0.0, 0.01, 1, 1.5, 7, 100, 1e6, 2 ** 53 + 1)
FUZZ_E = (0, 0.0, 0.001, 0.01, 0.25)


def _spec_fuzz(name, v, e):
    if name == 'fuzz_down':
        return v * ((1 - e) if v >= 0 else (1 + e))
    return v * ((1 + e) if v >= 0 else (1 - e))


def _close(x, y):
    return x == y or abs(x - y) <= 1e-9 * max(abs(x), abs(y))


def _fuzz_interp(p):
    import datetime
    from ..pyeval import Interp
    I = Interp(p)
    I.safe_modules = {'datetime'}
    I.extra_names['datetime'] = datetime
    return I


def fuzz_direction(p, f, want):
    """fuzz_down / fuzz_up evaluated over a grid of values and tolerances: direction and size of the move."""
    from ..pyeval import Unsupported, Raised
    bad = []
    n = 0
    for v in FUZZ_V:
        if abs(v) > 2 ** 53:
            continue        # float rounding alone moves these, in either direction: the comparators' exact disjunct covers them
        for e in FUZZ_E:
            try:
                got = _fuzz_interp(p).call(f, [v, e])
            except (Unsupported, Raised) as x:
                raise AnalysisError('%s is not evaluable: %s' % (f.short, x))
            n += 1
            ok = isinstance(got, (int, float)) and (got <= v if want == '<=' else got >= v) and _close(got, _spec_fuzz(f.name, v, e))
            if not ok:
                bad.append((v, e, got))
    return bad, n


def fuzz_dates(p, f):
    import datetime
    from ..pyeval import Unsupported, Raised
    bad = []
    for v in (datetime.date(2020, 2, 29), datetime.datetime(2020, 2, 29, 12, 30, 1)):
        try:
            got = _fuzz_interp(p).call(f, [v, 0.01])
        except Raised:
            got = 'an exception'
        except Unsupported as x:
            raise AnalysisError('%s is not evaluable on dates: %s' % (f.short, x))
        if got != v:
            bad.append((v, got))
    return bad


def fuzzed_params(p, seed):
    """function name -> positional indices that flow (as bare names) into a fuzzed position."""
    out = {k: set(v) for k, v in seed.items()}
    changed = True
    while changed:
        changed = False
        for f in p.funcs.values():
            if not (f.mod.name.startswith('tdda.constraints')):
                continue
            pos = list(f.posparams)
            if f.is_method and pos:
                pos = pos[1:]
            for c in p.own_nodes(f):
                if not isinstance(c, ast.Call):
                    continue
                cname = c.func.attr if isinstance(c.func, ast.Attribute) else getattr(c.func, 'id', None)
                if cname not in out or cname == f.name:
                    continue
                for i in out[cname]:
                    if i < len(c.args) and isinstance(c.args[i], ast.Name) and c.args[i].id in pos:
                        j = pos.index(c.args[i].id)
                        if j not in out.setdefault(f.name, set()):
                            out[f.name].add(j)
                            changed = True
    return out


def fuzz_shape(run, p, rid):
    """each fuzzy comparator, evaluated on a grid: a OP b exactly, or a OP the fuzzed b"""
    from ..pyeval import Unsupported, Raised
    base = 'tdda.constraints.base.'
    for name, op, helper in (('fuzzy_greater_than', '>=', 'fuzz_down'), ('fuzzy_less_than', '<=', 'fuzz_up'),
                             ('df_fuzzy_gt', '>=', 'fuzz_down'), ('df_fuzzy_lt', '<=', 'fuzz_up')):
        f = p.fn(name) if name.startswith('df_') else p.fn(base + name)
        bad = []
        n = 0
        for b in FUZZ_V:
            for e in FUZZ_E:
                fz = _spec_fuzz(helper, b, e)
                for a in sorted({b, fz, b - 1, b + 1, (b + fz) / 2, fz - abs(fz) * 0.001 - 1e-6, fz + abs(fz) * 0.001 + 1e-6}):
                    if a != fz and a != b and _close(a, fz):
                        continue
                    try:
                        got = _fuzz_interp(p).call(f, [a, b, e])
                    except (Unsupported, Raised) as x:
                        raise AnalysisError('%s is not evaluable: %s' % (f.short, x))
                    n += 1
                    want = (a >= b or a >= fz) if op == '>=' else (a <= b or a <= fz)
                    if a == fz and a != b and bool(got) != want:
                        # exactly on the fuzzed limit: a differently rounded but equivalent computation may fall either side
                        continue
                    if bool(got) != want:
                        bad.append((a, b, e, got))
        run.ob(rid, '%s::%s::shape' % (f.rel, f.short), not bad,
               '%s(a, b, e) is `a %s b or a %s %s(b, e)` over %d (a, b, e) triples%s' % (
                   name, op, op, helper, n, '' if not bad else '; wrong for e.g. a=%r b=%r e=%r: %r' % bad[0]), fn=f)
