"""Shared helpers for rule modules."""
import ast

from .. import mirror, triage
from ..model import norm


def head(stmt):
    return ast.unparse(stmt).splitlines()[0].strip()


def mirror_rule(run, rid, funcs, pairs, text):
    """Near-mirror clone check over the given functions (E4)."""
    run.rule(rid, text)
    n = 0
    for f in funcs:
        found = []
        for b in mirror.blocks_of(f.node):
            found += mirror.near_mirror_pairs(b, pairs)
        nb = sum(len(b) for b in mirror.blocks_of(f.node))
        n += nb
        bad = []
        for s1, s2, r, d in found:
            tr = triage.MIRROR.get((f.short, head(s1)))
            if tr:
                run.note(rid, 'one-sided by design in %s: %s' % (f.short, tr), f, s1)
                continue
            bad.append((s1, s2, r, d))
        # self-transformations X = f(X) of a role variable need an exact mirror X' = f(X') in the function
        stmts_all = [s for b in mirror.blocks_of(f.node) for s in b]
        toks_all = [[mirror._norm(t) for t in mirror.tokens(s)] for s in stmts_all]
        for s, tk in zip(stmts_all, toks_all):
            if not (isinstance(s, ast.Assign) and len(s.targets) == 1 and isinstance(s.targets[0], ast.Name)):
                continue
            nm = s.targets[0].id
            if not mirror._has_role(nm, pairs) or nm not in {x.id for x in ast.walk(s.value) if isinstance(x, ast.Name)}:
                continue
            sw = mirror.swapped(tk, pairs)
            if sw == tk:
                continue
            if any(sw == t2 for t2 in toks_all):
                continue
            if any(s is b1 or s is b2 for b1, b2, r, d in found):
                continue            # already reported as a near-mirror pair
            tr = triage.MIRROR.get((f.short, head(s)))
            if tr:
                run.note(rid, 'one-sided by design in %s: %s' % (f.short, tr), f, s)
                continue
            bad.append((s, s, 0.0, [('missing', ' '.join(sw), '')]))
        if not bad:
            run.ob(rid, '%s::%s' % (f.rel, f.short), True,
                   'every near-mirror statement pair is an exact mirror under the role swap (%d statements compared)' % nb, fn=f)
        for s1, s2, r, d in bad:
            if s1 is s2:
                run.ob(rid, '%s::%s::%s' % (f.rel, f.short, head(s1)[:70]), False,
                       'line %d transforms one side (`%s`) and the function has no mirror statement `%s` for the other side'
                       % (s1.lineno, head(s1)[:60], d[0][1][:70]), fn=f, node=s1)
                continue
            run.ob(rid, '%s::%s::%s' % (f.rel, f.short, head(s2)[:70]), False,
                   'lines %d and %d are %.0f%% mirror images under the role swap but differ in: %s'
                   % (s1.lineno, s2.lineno, 100 * r, '; '.join('%s -> %s' % (a or '<nothing>', b or '<nothing>') for t, a, b in d[:3])),
                   fn=f, node=s2, detail={'first': norm(s1), 'second': norm(s2), 'diff': d[:5]})
    return n


def names_in(e):
    return {x.id for x in ast.walk(e) if isinstance(x, ast.Name)} | \
           {ast.unparse(x) for x in ast.walk(e) if isinstance(x, ast.Attribute) and isinstance(x.value, ast.Name)
            and x.value.id == 'self'}


def dep_closure(fnode, names, control=False):
    """Names that the given names depend on through assignments inside fnode
    (flow-insensitive def-use closure; comprehension variables included).
    With control=True an assignment also depends on the tests that guard it."""
    deps = {}
    gm = None
    if control:
        from ..flow import GuardMap as _G
        gm = _G(fnode)
    for n in ast.walk(fnode):
        tg = []
        val = None
        if isinstance(n, ast.Assign):
            tg, val = n.targets, n.value
        elif isinstance(n, ast.AugAssign):
            tg, val = [n.target], n.value
        elif isinstance(n, (ast.For, ast.comprehension)):
            tg, val = [n.target], n.iter
        elif isinstance(n, ast.withitem) and n.optional_vars is not None:
            tg, val = [n.optional_vars], n.context_expr
        if val is None:
            continue
        src = names_in(val)
        if gm is not None and isinstance(n, ast.stmt):
            for g in gm.chain(n) or ():
                if g.kind == 'if':
                    src = src | names_in(g.test)
        for t in tg:
            for x in ast.walk(t):
                if isinstance(x, ast.Name):
                    deps.setdefault(x.id, set()).update(src)
                elif isinstance(x, ast.Attribute) and isinstance(x.value, ast.Name) and x.value.id == 'self':
                    deps.setdefault(ast.unparse(x), set()).update(src)
    out = set(names)
    work = list(names)
    while work:
        x = work.pop()
        for y in deps.get(x, ()):
            if y not in out:
                out.add(y)
                work.append(y)
    return out


# ---------------------------------------------------------------------------
# must-pass-through (typestate) helper
# ---------------------------------------------------------------------------
from ..flow import Walker, World     # noqa: E402


class _Must(Walker):
    def __init__(self, fnode, params, event, noreturn=()):
        super().__init__(fnode, params, noreturn)
        self.event = event

    def init_state(self):
        return False

    def transfer(self, stmt, ws):
        if self.event(stmt):
            return [World(w.asg, w.atoms, w.weak, True) for w in ws]
        return ws


def enum_exhausted(world, enums):
    """True if the world's atoms rule out every literal of some declared
    enumeration for one subject (an if/elif chain over a closed enum fell through)."""
    neg = {}
    for k, v in world.atoms.items():
        if k[0] == 'eq' and v is False:
            neg.setdefault(k[1], set()).add(k[2])
    for subj, lits in neg.items():
        for en in enums:
            if {repr(x) for x in en} <= lits:
                return True
    return False


def must_pass(f, event, enums=(), exit_kinds=('return', 'fall'), noreturn=()):
    """Exits of f reached (on a non-weak, feasible world) without the event.
    -> [(kind, node, atoms-text)]"""
    w = _Must(f.node, f.params, event, noreturn).run()
    bad = []
    for kind, node, ws in w.exits:
        if kind not in exit_kinds:
            continue
        for x in ws:
            if x.state or x.weak:
                continue
            if enum_exhausted(x, enums):
                continue
            atoms = ', '.join('%s%s' % ('' if v else 'not ', ' '.join(map(str, k[1:]))) for k, v in sorted(x.atoms.items(), key=repr))
            bad.append((kind, node, atoms))
            break
    return bad


def guard_requires(e, pol, pred):
    """Does `e` evaluating to `pol` force some sub-condition satisfying pred to hold?
    (a or b) true needs every disjunct to satisfy it; (a and b) true needs one."""
    while isinstance(e, ast.UnaryOp) and isinstance(e.op, ast.Not):
        e, pol = e.operand, not pol
    if isinstance(e, ast.BoolOp):
        every = isinstance(e.op, ast.Or) == bool(pol)
        rs = [guard_requires(v, pol, pred) for v in e.values]
        return all(rs) if every else any(rs)
    return bool(pred(e, pol))


# ---------------------------------------------------------------------------
# path-aware def-use closure
# ---------------------------------------------------------------------------
from ..flow import GuardMap as _GM      # noqa: E402


def _exclusive(c1, c2):
    """Two guard chains that contain the same if-test with opposite polarity."""
    seen = {}
    for g in c1:
        if g.kind == 'if':
            seen[id(g.test)] = g.pol
    for g in c2:
        if g.kind == 'if' and id(g.test) in seen and seen[id(g.test)] != g.pol:
            return True
    return False


def dep_closure_at(fnode, use, gm=None):
    """Like dep_closure(names in `use`), but a definition in an if-arm that excludes
    the arm of its use (same test, opposite polarity) is not followed."""
    gm = gm or _GM(fnode)
    defs = {}
    for n in ast.walk(fnode):
        tg, val = [], None
        if isinstance(n, ast.Assign):
            tg, val = n.targets, n.value
        elif isinstance(n, ast.AugAssign):
            tg, val = [n.target], n.value
        elif isinstance(n, (ast.For, ast.comprehension)):
            tg, val = [n.target], n.iter
        if val is None:
            continue
        for t in tg:
            for x in ast.walk(t):
                if isinstance(x, ast.Name):
                    defs.setdefault(x.id, []).append((n, val))
    out = set()
    work = [(nm, gm.chain(use) or ()) for nm in names_in(use)]
    seen = set()
    while work:
        nm, ch = work.pop()
        out.add(nm)
        for d, val in defs.get(nm, ()):
            dch = gm.chain(d) if not isinstance(d, ast.comprehension) else ch
            if dch is None:
                dch = ()
            if _exclusive(ch, dch):
                continue
            key = (id(d), nm)
            if key in seen:
                continue
            seen.add(key)
            for y in names_in(val):
                work.append((y, dch))
    return out
