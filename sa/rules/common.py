"""Shared helpers for rule modules."""
import ast

from .. import mirror, triage
from ..model import norm


def head(stmt):
    return ast.unparse(stmt).splitlines()[0].strip()


def mirror_rule(run, rid, funcs, pairs, text):
    """Near-mirror clone check over the given functions (E4)."""
    run.rule(rid, text)
    n = 0
    for f in funcs:
        found = []
        for b in mirror.blocks_of(f.node):
            found += mirror.near_mirror_pairs(b, pairs)
        nb = sum(len(b) for b in mirror.blocks_of(f.node))
        n += nb
        bad = []
        for s1, s2, r, d in found:
            tr = triage.MIRROR.get((f.short, head(s1)))
            if tr:
                run.note(rid, 'one-sided by design in %s: %s' % (f.short, tr), f, s1)
                continue
            bad.append((s1, s2, r, d))
        if not bad:
            run.ob(rid, '%s::%s' % (f.rel, f.short), True,
                   'every near-mirror statement pair is an exact mirror under the role swap (%d statements compared)' % nb, fn=f)
        for s1, s2, r, d in bad:
            run.ob(rid, '%s::%s::%s' % (f.rel, f.short, head(s2)[:70]), False,
                   'lines %d and %d are %.0f%% mirror images under the role swap but differ in: %s'
                   % (s1.lineno, s2.lineno, 100 * r, '; '.join('%s -> %s' % (a or '<nothing>', b or '<nothing>') for t, a, b in d[:3])),
                   fn=f, node=s2, detail={'first': norm(s1), 'second': norm(s2), 'diff': d[:5]})
    return n


def names_in(e):
    return {x.id for x in ast.walk(e) if isinstance(x, ast.Name)} | \
           {ast.unparse(x) for x in ast.walk(e) if isinstance(x, ast.Attribute) and isinstance(x.value, ast.Name)
            and x.value.id == 'self'}


def dep_closure(fnode, names):
    """Names that the given names depend on through assignments inside fnode
    (flow-insensitive def-use closure; comprehension variables included)."""
    deps = {}
    for n in ast.walk(fnode):
        tg = []
        val = None
        if isinstance(n, ast.Assign):
            tg, val = n.targets, n.value
        elif isinstance(n, ast.AugAssign):
            tg, val = [n.target], n.value
        elif isinstance(n, (ast.For, ast.comprehension)):
            tg, val = [n.target], n.iter
        elif isinstance(n, ast.withitem) and n.optional_vars is not None:
            tg, val = [n.optional_vars], n.context_expr
        if val is None:
            continue
        src = names_in(val)
        for t in tg:
            for x in ast.walk(t):
                if isinstance(x, ast.Name):
                    deps.setdefault(x.id, set()).update(src)
                elif isinstance(x, ast.Attribute) and isinstance(x.value, ast.Name) and x.value.id == 'self':
                    deps.setdefault(ast.unparse(x), set()).update(src)
    out = set(names)
    work = list(names)
    while work:
        x = work.pop()
        for y in deps.get(x, ()):
            if y not in out:
                out.add(y)
                work.append(y)
    return out
