"""Shared helpers for rule modules."""
import ast

from .. import mirror, triage
from ..model import norm


def head(stmt):
    return ast.unparse(stmt).splitlines()[0].strip()


def mirror_rule(run, rid, funcs, pairs, text):
    """Near-mirror clone check over the given functions (E4)."""
    run.rule(rid, text)
    n = 0
    for f in funcs:
        found = []
        for b in mirror.blocks_of(f.node):
            found += mirror.near_mirror_pairs(b, pairs)
        nb = sum(len(b) for b in mirror.blocks_of(f.node))
        n += nb
        bad = []
        for s1, s2, r, d in found:
            tr = triage.MIRROR.get((f.short, head(s1)))
            if tr:
                run.note(rid, 'one-sided by design in %s: %s' % (f.short, tr), f, s1)
                continue
            bad.append((s1, s2, r, d))
        # self-transformations X = f(X) of a role variable need an exact mirror X' = f(X') in the function
        stmts_all = [s for b in mirror.blocks_of(f.node) for s in b]
        toks_all = [[mirror._norm(t) for t in mirror.tokens(s)] for s in stmts_all]
        for s, tk in zip(stmts_all, toks_all):
            if not (isinstance(s, ast.Assign) and len(s.targets) == 1 and isinstance(s.targets[0], ast.Name)):
                continue
            nm = s.targets[0].id
            if not mirror._has_role(nm, pairs) or nm not in {x.id for x in ast.walk(s.value) if isinstance(x, ast.Name)}:
                continue
            sw = mirror.swapped(tk, pairs)
            if sw == tk:
                continue
            if any(sw == t2 for t2 in toks_all):
                continue
            if any(s is b1 or s is b2 for b1, b2, r, d in found):
                continue            # already reported as a near-mirror pair
            tr = triage.MIRROR.get((f.short, head(s)))
            if tr:
                run.note(rid, 'one-sided by design in %s: %s' % (f.short, tr), f, s)
                continue
            bad.append((s, s, 0.0, [('missing', ' '.join(sw), '')]))
        # parallel assignment  a_x, e_x = va, ve : the two values must mirror each other like the two targets do
        for s in stmts_all:
            if not (isinstance(s, ast.Assign) and len(s.targets) == 1 and isinstance(s.targets[0], (ast.Tuple, ast.List))
                    and isinstance(s.value, (ast.Tuple, ast.List)) and len(s.targets[0].elts) == len(s.value.elts)):
                continue
            ts = [[mirror._norm(t) for t in mirror.tokens(t)] for t in s.targets[0].elts]
            vs = [[mirror._norm(t) for t in mirror.tokens(v)] for v in s.value.elts]
            for i in range(len(ts)):
                for j in range(i + 1, len(ts)):
                    if mirror.swapped(ts[i], pairs) == ts[j] and ts[i] != ts[j] and mirror.swapped(vs[i], pairs) != vs[j]:
                        bad.append((s, s, 0.0, [('parallel', '%s = %s' % (' '.join(ts[j]), ' '.join(mirror.swapped(vs[i], pairs))),
                                                 '%s = %s' % (' '.join(ts[j]), ' '.join(vs[j])))]))
        # a value that both sides of an exact mirror pair are transformed with must not be computed from one side only
        for b in mirror.blocks_of(f.node):
            tk = [[mirror._norm(t) for t in mirror.tokens(s)] for s in b]
            for i in range(len(b)):
                sw = mirror.swapped(tk[i], pairs)
                if sw == tk[i]:
                    continue
                for j in range(i + 1, len(b)):
                    if tk[j] != sw:
                        continue
                    for nm in sorted(n0 for n0 in names_in(b[i]) if '.' not in n0 and not mirror._has_role(n0, pairs)):
                        defs = [s for s in ast.walk(f.node) if isinstance(s, ast.Assign) and any(
                            isinstance(x, ast.Name) and x.id == nm and isinstance(x.ctx, ast.Store) for t in s.targets for x in ast.walk(t))]
                        if not defs:
                            continue
                        clo = dep_closure(f.node, {nm}) - {nm}
                        sides = set()
                        for c in clo:
                            last = c.split('.')[-1]
                            for a_, b_ in pairs:
                                import re as _re
                                if _re.search(a_, last):
                                    sides.add('first')
                                if _re.search(b_, last):
                                    sides.add('second')
                        if len(sides) != 1:
                            continue
                        tr = triage.BALANCE.get((f.short, nm))
                        if tr:
                            run.note(rid, 'one-sided by design in %s: %s: %s' % (f.short, nm, tr), f, b[i])
                            continue
                        bad.append((b[i], b[i], 0.0, [('balance', nm, sorted(sides)[0])]))
        if not bad:
            run.ob(rid, '%s::%s' % (f.rel, f.short), True,
                   'every near-mirror statement pair is an exact mirror under the role swap (%d statements compared)' % nb, fn=f)
        for s1, s2, r, d in bad:
            if s1 is s2 and d[0][0] == 'balance':
                run.ob(rid, '%s::%s::%s::%s' % (f.rel, f.short, head(s1)[:50], d[0][1]), False,
                       'line %d: both sides are transformed with `%s`, which is computed from the %s side only: the two sides are not '
                       'treated alike when they differ in what it was computed from' % (s1.lineno, d[0][1], d[0][2]), fn=f, node=s1)
                continue
            if s1 is s2 and d[0][0] == 'parallel':
                run.ob(rid, '%s::%s::%s' % (f.rel, f.short, head(s1)[:70]), False,
                       'line %d assigns the two sides in parallel but not as mirror images: `%s` where the role swap gives `%s`'
                       % (s1.lineno, d[0][2][:70], d[0][1][:70]), fn=f, node=s1)
                continue
            if s1 is s2:
                run.ob(rid, '%s::%s::%s' % (f.rel, f.short, head(s1)[:70]), False,
                       'line %d transforms one side (`%s`) and the function has no mirror statement `%s` for the other side'
                       % (s1.lineno, head(s1)[:60], d[0][1][:70]), fn=f, node=s1)
                continue
            run.ob(rid, '%s::%s::%s' % (f.rel, f.short, head(s2)[:70]), False,
                   'lines %d and %d are %.0f%% mirror images under the role swap but differ in: %s'
                   % (s1.lineno, s2.lineno, 100 * r, '; '.join('%s -> %s' % (a or '<nothing>', b or '<nothing>') for t, a, b in d[:3])),
                   fn=f, node=s2, detail={'first': norm(s1), 'second': norm(s2), 'diff': d[:5]})
    return n


def names_in(e):
    return {x.id for x in ast.walk(e) if isinstance(x, ast.Name)} | \
           {ast.unparse(x) for x in ast.walk(e) if isinstance(x, ast.Attribute) and isinstance(x.value, ast.Name)
            and x.value.id == 'self'}


def _defined_by_target(t):
    """Nodes an assignment target (re)defines: the names of a tuple target, self.attr, and for d[k] = v the container d
    (not the names that merely appear in the index)."""
    if isinstance(t, (ast.Tuple, ast.List)):
        for e in t.elts:
            yield from _defined_by_target(e)
    elif isinstance(t, ast.Starred):
        yield from _defined_by_target(t.value)
    elif isinstance(t, ast.Subscript):
        yield from _defined_by_target(t.value)
    elif isinstance(t, ast.Attribute):
        yield t
        if not (isinstance(t.value, ast.Name) and t.value.id == 'self'):
            yield from _defined_by_target(t.value)
    elif isinstance(t, ast.Name):
        yield t


def dep_closure(fnode, names, control=False, stop=()):
    """Names that the given names depend on through assignments inside fnode
    (flow-insensitive def-use closure; comprehension variables included).
    With control=True an assignment also depends on the tests that guard it.
    Names in `stop` are sources: they are reported but not expanded further."""
    deps = {}
    gm = None
    if control:
        from ..flow import GuardMap as _G
        gm = _G(fnode)
    for n in ast.walk(fnode):
        tg = []
        val = None
        if isinstance(n, ast.Assign):
            tg, val = n.targets, n.value
        elif isinstance(n, ast.AugAssign):
            tg, val = [n.target], n.value
        elif isinstance(n, (ast.For, ast.comprehension)):
            tg, val = [n.target], n.iter
        elif isinstance(n, ast.withitem) and n.optional_vars is not None:
            tg, val = [n.optional_vars], n.context_expr
        if val is None:
            continue
        src = names_in(val)
        if gm is not None and isinstance(n, ast.stmt):
            for g in gm.chain(n) or ():
                if g.kind == 'if':
                    src = src | names_in(g.test)
        for t in tg:
            for x in _defined_by_target(t):
                if isinstance(x, ast.Name):
                    deps.setdefault(x.id, set()).update(src)
                elif isinstance(x, ast.Attribute) and isinstance(x.value, ast.Name) and x.value.id == 'self':
                    deps.setdefault(ast.unparse(x), set()).update(src)
    out = set(names)
    work = list(names)
    while work:
        x = work.pop()
        if x in stop:
            continue
        for y in deps.get(x, ()):
            if y not in out:
                out.add(y)
                work.append(y)
    return out


# ---------------------------------------------------------------------------
# must-pass-through (typestate) helper
# ---------------------------------------------------------------------------
from ..flow import Walker, World     # noqa: E402


class _Must(Walker):
    def __init__(self, fnode, params, event, noreturn=()):
        super().__init__(fnode, params, noreturn)
        self.event = event

    def init_state(self):
        return False

    def transfer(self, stmt, ws):
        if self.event(stmt):
            return [World(w.asg, w.atoms, w.weak, True) for w in ws]
        return ws


def enum_exhausted(world, enums):
    """True if the world's atoms rule out every literal of some declared
    enumeration for one subject (an if/elif chain over a closed enum fell through)."""
    neg = {}
    for k, v in world.atoms.items():
        if k[0] == 'eq' and v is False:
            neg.setdefault(k[1], set()).add(k[2])
    for subj, lits in neg.items():
        for en in enums:
            if {repr(x) for x in en} <= lits:
                return True
    return False


def must_pass(f, event, enums=(), exit_kinds=('return', 'fall'), noreturn=()):
    """Exits of f reached (on a non-weak, feasible world) without the event.
    -> [(kind, node, atoms-text)]"""
    w = _Must(f.node, f.params, event, noreturn).run()
    bad = []
    for kind, node, ws in w.exits:
        if kind not in exit_kinds:
            continue
        for x in ws:
            if x.state or x.weak:
                continue
            if enum_exhausted(x, enums):
                continue
            atoms = ', '.join('%s%s' % ('' if v else 'not ', ' '.join(map(str, k[1:]))) for k, v in sorted(x.atoms.items(), key=repr))
            bad.append((kind, node, atoms))
            break
    return bad


def guard_requires(e, pol, pred):
    """Does `e` evaluating to `pol` force some sub-condition satisfying pred to hold?
    (a or b) true needs every disjunct to satisfy it; (a and b) true needs one."""
    while isinstance(e, ast.UnaryOp) and isinstance(e.op, ast.Not):
        e, pol = e.operand, not pol
    if isinstance(e, ast.BoolOp):
        every = isinstance(e.op, ast.Or) == bool(pol)
        rs = [guard_requires(v, pol, pred) for v in e.values]
        return all(rs) if every else any(rs)
    if isinstance(e, ast.Compare) and len(e.ops) > 1:
        # a < b <= c is (a < b) and (b <= c)
        terms = [e.left] + list(e.comparators)
        parts = [ast.copy_location(ast.Compare(terms[i], [e.ops[i]], [terms[i + 1]]), e) for i in range(len(e.ops))]
        if bool(pred(e, pol)):
            return True
        rs = [bool(pred(q, pol)) for q in parts]
        return any(rs) if pol else all(rs)
    return bool(pred(e, pol))


# ---------------------------------------------------------------------------
# path-aware def-use closure
# ---------------------------------------------------------------------------
from ..flow import GuardMap as _GM      # noqa: E402


def _exclusive(c1, c2):
    """Two guard chains that contain the same if-test with opposite polarity."""
    seen = {}
    for g in c1:
        if g.kind == 'if':
            seen[id(g.test)] = g.pol
    for g in c2:
        if g.kind == 'if' and id(g.test) in seen and seen[id(g.test)] != g.pol:
            return True
    return False


def dep_closure_at(fnode, use, gm=None):
    """Like dep_closure(names in `use`), but a definition in an if-arm that excludes
    the arm of its use (same test, opposite polarity) is not followed."""
    gm = gm or _GM(fnode)
    defs = {}
    for n in ast.walk(fnode):
        tg, val = [], None
        if isinstance(n, ast.Assign):
            tg, val = n.targets, n.value
        elif isinstance(n, ast.AugAssign):
            tg, val = [n.target], n.value
        elif isinstance(n, (ast.For, ast.comprehension)):
            tg, val = [n.target], n.iter
        if val is None:
            continue
        for t in tg:
            for x in ast.walk(t):
                if isinstance(x, ast.Name):
                    defs.setdefault(x.id, []).append((n, val))
    out = set()
    work = [(nm, gm.chain(use) or ()) for nm in names_in(use)]
    seen = set()
    while work:
        nm, ch = work.pop()
        out.add(nm)
        for d, val in defs.get(nm, ()):
            dch = gm.chain(d) if not isinstance(d, ast.comprehension) else ch
            if dch is None:
                dch = ()
            if _exclusive(ch, dch):
                continue
            key = (id(d), nm)
            if key in seen:
                continue
            seen.add(key)
            for y in names_in(val):
                work.append((y, dch))
    return out


# ---------------------------------------------------------------------------
# shared-state rules: memoising decorators and class-level mutable caches
# ---------------------------------------------------------------------------
CACHE_POSITIVE = '''
import functools
class H:
    memo = {}
    @functools.lru_cache(maxsize=8)
    def load(self, path):
        return path
    def look(self, k):
        self.memo[k] = 1
TABLE = {}
FIXED = {'a': 1}
def fill(k):
    TABLE[k] = FIXED.get(k)
'''


def cache_sites(tree):
    """[(kind, node, name)] : lru_cache/cache decorators; class-body dict/list/set attributes mutated by a method."""
    out = []
    for n in ast.walk(tree):
        if isinstance(n, (ast.FunctionDef, ast.AsyncFunctionDef)):
            for d in n.decorator_list:
                t = ast.unparse(d)
                if 'lru_cache' in t or t.endswith('.cache') or t == 'cache' or 'cached_property' in t or 'memoize' in t.lower():
                    out.append(('decorator', n, n.name))
        if isinstance(n, ast.ClassDef):
            attrs = {}
            for b in n.body:
                if isinstance(b, ast.Assign) and len(b.targets) == 1 and isinstance(b.targets[0], ast.Name):
                    v = b.value
                    if isinstance(v, (ast.Dict, ast.List, ast.Set)) or (isinstance(v, ast.Call) and getattr(v.func, 'id', '') in
                                                                          ('dict', 'list', 'set', 'OrderedDict', 'defaultdict', 'Counter')):
                        attrs[b.targets[0].id] = b
            for m in n.body:
                if not isinstance(m, (ast.FunctionDef, ast.AsyncFunctionDef)):
                    continue
                for x in ast.walk(m):
                    tgt = None
                    if isinstance(x, ast.Assign):
                        for t in x.targets:
                            if isinstance(t, ast.Subscript) and isinstance(t.value, ast.Attribute) and t.value.attr in attrs:
                                tgt = t.value.attr
                    if isinstance(x, ast.Call) and isinstance(x.func, ast.Attribute) and x.func.attr in (
                            'append', 'add', 'update', 'setdefault', 'extend', 'pop', 'clear', '__setitem__') and \
                            isinstance(x.func.value, ast.Attribute) and x.func.value.attr in attrs:
                        tgt = x.func.value.attr
                    if tgt:
                        out.append(('class-attribute', x, '%s.%s' % (n.name, tgt)))
    # module-level tables filled in by functions (TABLE = {} ... def f(): TABLE[k] = v / TABLE.setdefault / update)
    if isinstance(tree, ast.Module):
        tabs = {}
        for b in tree.body:
            if isinstance(b, ast.Assign) and len(b.targets) == 1 and isinstance(b.targets[0], ast.Name):
                v = b.value
                if (isinstance(v, (ast.Dict, ast.List, ast.Set)) and not (getattr(v, 'keys', None) or getattr(v, 'elts', None))) or \
                        (isinstance(v, ast.Call) and getattr(v.func, 'id', '') in ('dict', 'OrderedDict', 'defaultdict') and not v.args):
                    tabs[b.targets[0].id] = b
        for fn in ast.walk(tree):
            if not isinstance(fn, (ast.FunctionDef, ast.AsyncFunctionDef)):
                continue
            for x in ast.walk(fn):
                tgt = None
                if isinstance(x, ast.Assign):
                    for t in x.targets:
                        if isinstance(t, ast.Subscript) and isinstance(t.value, ast.Name) and t.value.id in tabs:
                            tgt = t.value.id
                if isinstance(x, ast.Call) and isinstance(x.func, ast.Attribute) and x.func.attr in ('update', 'setdefault', '__setitem__') and \
                        isinstance(x.func.value, ast.Name) and x.func.value.id in tabs:
                    tgt = x.func.value.id
                if tgt:
                    out.append(('module-table', x, tgt))
    return out


def nocache_rule(run, rid, p, modules, text, allow=()):
    run.rule(rid, text)
    if len(cache_sites(ast.parse(CACHE_POSITIVE))) != 3:
        raise AnalysisErrorCommon('cache rule no longer matches its embedded positive example')
    n = 0
    for mn in modules:
        m = p.mod(mn)
        n += 1
        sites = [s for s in cache_sites(m.tree) if s[2] not in allow]
        seen = set()
        if not sites:
            run.ob(rid, mn, True, '%s: no memoising decorator, no class-level container used as a cache' % mn, rel=m.rel, line=1, nontrivial=False)
        for kind, node, name in sites:
            if (kind, name) in seen:
                continue
            seen.add((kind, name))
            run.ob(rid, '%s::%s:%s' % (mn, kind, name), False,
                   '%s: %s %s keeps results across calls (not invalidated when the file / table / frame changes, and shared by every caller)'
                   % (mn, {'decorator': 'memoising decorator on', 'module-table': 'module-level table'}.get(kind, 'class-level container'), name), rel=m.rel, line=node.lineno)
    run.floor(rid, n, len(modules))


class AnalysisErrorCommon(Exception):
    pass


def forward_rule(run, rid, p, pairs, text):
    """Wrapper g calls sibling f with same-named keywords: every name both declare must be forwarded."""
    run.rule(rid, text)
    n = 0
    for g, fname in pairs:
        for c in p.own_nodes(g):
            if not (isinstance(c, ast.Call) and isinstance(c.func, ast.Attribute) and c.func.attr == fname):
                continue
            ts, kind = p.resolve_call(g, c, g.cls.qn if g.cls else None)
            if kind != 'resolved' or not ts:
                continue
            f = ts[0][0]
            same = [k.arg for k in c.keywords if k.arg and isinstance(k.value, ast.Name) and k.value.id == k.arg]
            if len(same) < 3:
                continue
            n += 1
            passed = {k.arg for k in c.keywords if k.arg} | set(f.posparams[1:1 + len(c.args)])
            both = (set(g.params) & set(f.params)) - {'self', 'msgs'}
            miss = sorted(both - passed)
            # an option of the wrapper handed over under the name of a different option both functions have
            crossed = sorted('%s=%s' % (k.arg, k.value.id) for k in c.keywords
                             if k.arg and isinstance(k.value, ast.Name) and k.value.id != k.arg and
                             k.value.id in both and k.arg in both)
            if crossed:
                run.ob(rid, '%s::%s->%s::crossed' % (g.rel, g.short, f.name), False,
                       '%s passes one option under the name of another to %s: %s' % (g.short, f.name, ', '.join(crossed)), fn=g, node=c)
            run.ob(rid, '%s::%s->%s' % (g.rel, g.short, f.name), not miss,
                   '%s forwards %d same-named options to %s%s' % (g.short, len(same), f.name, '' if not miss else
                                                                 '; it accepts %s too but does not pass %s on' % (miss, 'it' if len(miss) == 1 else 'them')),
                   fn=g, node=c)
    return n


# ---------------------------------------------------------------------------------------------
# file-extension dispatch: every test of a file name's extension against a lower-case literal is
# made on the lower-cased extension (siblings: load_df, load_metadata, load_serialized_dataframe)

def _has_lower(e):
    return any(isinstance(x, ast.Call) and isinstance(x.func, ast.Attribute) and x.func.attr in ('lower', 'casefold')
               for x in ast.walk(e))


def _is_splitext(e):
    return any(isinstance(x, ast.Call) and norm(x.func).endswith('splitext') for x in ast.walk(e))


def _lits(e):
    """String literals of a comparison operand (a constant or a tuple/list/set of constants), or None."""
    if isinstance(e, ast.Constant) and isinstance(e.value, str):
        return [e.value]
    if isinstance(e, (ast.Tuple, ast.List, ast.Set)) and e.elts and \
            all(isinstance(x, ast.Constant) and isinstance(x.value, str) for x in e.elts):
        return [x.value for x in e.elts]
    return None


def ext_summary(p, funcs):
    """Functions that return a file extension: qn -> True when it is lower-cased before being returned."""
    out = {}
    for f in funcs:
        binds = _ext_bindings(p, f, {})
        for x in p.own_nodes(f):
            if isinstance(x, ast.Return) and x.value is not None:
                st = _ext_state(x.value, binds, x.lineno)
                if st is not None:
                    out[f.qn] = min(out.get(f.qn, True), st)
    return out


def _ext_bindings(p, f, helpers):
    """name -> sorted [(lineno, lowered)] for names bound to (a piece of) a file extension."""
    b = {}
    nodes = sorted((x for x in p.own_nodes(f) if isinstance(x, ast.Assign)), key=lambda x: x.lineno)
    for x in nodes:
        for t in x.targets:
            pairs = []
            if isinstance(t, (ast.Tuple, ast.List)) and isinstance(x.value, (ast.Tuple, ast.List)) and \
                    len(t.elts) == len(x.value.elts):
                pairs = list(zip(t.elts, x.value.elts))
            elif isinstance(t, (ast.Tuple, ast.List)) and len(t.elts) == 2 and isinstance(x.value, ast.Call) and \
                    norm(x.value.func).endswith('splitext'):
                if isinstance(t.elts[1], ast.Name):
                    b.setdefault(t.elts[1].id, []).append((x.lineno, False))
                continue
            elif isinstance(t, ast.Name):
                pairs = [(t, x.value)]
            for tt, vv in pairs:
                if not isinstance(tt, ast.Name):
                    continue
                st = _ext_state(vv, b, x.lineno, helpers, strict_before=True)
                if st is not None:
                    b.setdefault(tt.id, []).append((x.lineno, st))
    return b


def _ext_state(e, binds, lineno, helpers=None, strict_before=False):
    """None when e is not extension-derived; else whether it is lower-cased."""
    helpers = helpers or {}
    low = _has_lower(e)
    for x in ast.walk(e):
        if isinstance(x, ast.Subscript) and _is_splitext(x.value) and isinstance(x.slice, ast.Constant) and x.slice.value in (1, -1):
            return low
        if isinstance(x, ast.Call):
            q = helpers.get(norm(x.func).split('.')[-1])
            if q is not None:
                return low or q
        if isinstance(x, ast.Name) and x.id in binds:
            prior = [s for ln, s in binds[x.id] if (ln < lineno if strict_before else ln <= lineno)]
            if prior:
                return low or prior[-1]
    return None


def extcase_rule(run, rid, p, funcs, text, triage_tbl=None):
    """Every comparison of an extension-derived value with lower-case literals happens on a lower-cased value."""
    run.rule(rid, text)
    triage_tbl = triage_tbl or {}
    hs = ext_summary(p, list(p.funcs.values()))
    helpers = {q.split('.')[-1]: v for q, v in hs.items()}
    n = 0
    for f in funcs:
        binds = _ext_bindings(p, f, helpers)
        for x in p.own_nodes(f):
            if not isinstance(x, ast.Compare) or len(x.ops) != 1 or \
                    not isinstance(x.ops[0], (ast.Eq, ast.NotEq, ast.In, ast.NotIn)):
                continue
            for a, bb in ((x.left, x.comparators[0]), (x.comparators[0], x.left)):
                lits = _lits(bb)
                if lits is None or not any(c.isalpha() for s in lits for c in s):
                    continue
                st = _ext_state(a, binds, x.lineno, helpers)
                if st is None:
                    continue
                n += 1
                key = '%s::%s::%s' % (f.rel, f.short, norm(x))
                fkey = '%s::%s' % (f.rel, f.short)
                if not st and (key in triage_tbl or fkey in triage_tbl):
                    run.note(rid, 'case-sensitive by design: %s (%s)' % (key, triage_tbl.get(key) or triage_tbl[fkey]), fn=f, node=x)
                    continue
                run.ob(rid, key, st, 'extension test %s is made on %s' % (
                    norm(x)[:70], 'the lower-cased extension' if st else 'the extension as spelled in the file name, so '
                    'X.%s is not recognised' % (lits[0].lstrip('.').upper())), fn=f, node=x)
        # the same test written as a lookup: TABLE.get(ext) / TABLE[ext] / ext in TABLE over a table keyed by extensions
        for x in p.own_nodes(f):
            tab = a = None
            if isinstance(x, ast.Call) and isinstance(x.func, ast.Attribute) and x.func.attr == 'get' and x.args and isinstance(x.func.value, ast.Name):
                tab, a = x.func.value.id, x.args[0]
            elif isinstance(x, ast.Subscript) and isinstance(x.value, ast.Name) and isinstance(x.ctx, ast.Load):
                tab, a = x.value.id, x.slice
            elif isinstance(x, ast.Compare) and len(x.ops) == 1 and isinstance(x.ops[0], (ast.In, ast.NotIn)) and isinstance(x.comparators[0], ast.Name):
                tab, a = x.comparators[0].id, x.left
            if tab is None:
                continue
            d = f.mod.consts.get(tab)
            if not isinstance(d, ast.Dict) or not d.keys:
                continue
            lits = [k.value for k in d.keys if isinstance(k, ast.Constant) and isinstance(k.value, str)]
            if len(lits) != len(d.keys) or not all(s_.startswith('.') and any(c.isalpha() for c in s_) for s_ in lits):
                continue
            st = _ext_state(a, binds, x.lineno, helpers)
            if st is None:
                continue
            n += 1
            key = '%s::%s::%s' % (f.rel, f.short, norm(x))
            fkey = '%s::%s' % (f.rel, f.short)
            if not st and (key in triage_tbl or fkey in triage_tbl):
                run.note(rid, 'case-sensitive by design: %s (%s)' % (key, triage_tbl.get(key) or triage_tbl[fkey]), fn=f, node=x)
                continue
            run.ob(rid, key, st, 'extension lookup %s (keys %s) is made on %s' % (
                norm(x)[:60], lits, 'the lower-cased extension' if st else 'the extension as spelled in the file name, so '
                'X.%s is not recognised' % (lits[0].lstrip('.').upper())), fn=f, node=x)
    return n


# ---------------------------------------------------------------------------------------------
# observed values only: what discovery measures must come from the values present, never from a
# categorical column's declared levels

DECLARED_POSITIVE = '''
def f(c):
    a = c.cat.categories
    b = c.value_counts().index
    d = c.cat.remove_unused_categories().cat.categories
    e = c.value_counts()
    e = e[e > 0]
    v = c.to_numpy()
    v = v[np.isfinite(v)]
'''


def declared_level_sites(fnode):
    """(node, what) for every use of an API that reports a categorical's declared levels rather than the values present."""
    out = []
    body_nodes = list(ast.walk(fnode))
    zero_filtered = set()
    for x in body_nodes:
        if isinstance(x, ast.Compare) and isinstance(x.left, ast.Name) and len(x.ops) == 1 and \
                isinstance(x.ops[0], (ast.Gt, ast.NotEq)) and isinstance(x.comparators[0], ast.Constant) and x.comparators[0].value == 0:
            zero_filtered.add(x.left.id)
    for x in body_nodes:
        if isinstance(x, ast.Attribute) and x.attr == 'categories':
            chain = norm(x.value)
            if 'remove_unused_categories' in chain:
                continue
            out.append((x, '%s (declared levels, including ones no record holds)' % norm(x)[:50]))
        if isinstance(x, ast.Call) and isinstance(x.func, ast.Attribute) and x.func.attr == 'value_counts':
            if 'remove_unused_categories' in norm(x.func.value):
                continue
            # accepted when the result is bound to a name that is then filtered on count > 0
            bound = None
            for s in body_nodes:
                if isinstance(s, ast.Assign) and s.value is x and len(s.targets) == 1 and isinstance(s.targets[0], ast.Name):
                    bound = s.targets[0].id
            if bound and bound in zero_filtered:
                continue
            out.append((x, '%s (lists declared categories with a count of zero)' % norm(x)[:50]))
        if isinstance(x, ast.Call) and norm(x.func).split('.')[-1] == 'isfinite':
            out.append((x, '%s as a null filter (drops +/-inf, which are values a column holds, along with NaN)' % norm(x)[:50]))
    return out


def observed_rule(run, rid, p, funcs, text):
    run.rule(rid, text)
    pos = declared_level_sites(ast.parse(DECLARED_POSITIVE).body[0])
    if len(pos) != 3:
        raise AnalysisErrorCommon('observed-values rule no longer matches its embedded example (%d sites)' % len(pos))
    n = 0
    for f in funcs:
        n += 1
        sites = declared_level_sites(f.node)
        if not sites:
            run.ob(rid, '%s::%s' % (f.rel, f.short), True, 'no declared-level API', fn=f, nontrivial=False)
        for node, what in sites:
            run.ob(rid, '%s::%s::%s' % (f.rel, f.short, norm(node)[:60]), False,
                   '%s takes values from %s' % (f.short, what), fn=f, node=node)
    return n


# ---------------------------------------------------------------------------------------------
# entry points leave the caller's containers alone

MUTATORS = {'append', 'extend', 'insert', 'pop', 'remove', 'clear', 'sort', 'reverse', 'update', 'add', 'discard',
            'setdefault', 'popitem', '__setitem__', '__delitem__', 'difference_update', 'intersection_update',
            'symmetric_difference_update', 'subtract'}


def _expr_nodes(stmt):
    """Nodes of a statement that belong to it and not to a nested statement block or nested def."""
    if isinstance(stmt, (ast.FunctionDef, ast.AsyncFunctionDef, ast.ClassDef)):
        return []
    out = []
    stack = [stmt]
    first = True
    while stack:
        x = stack.pop()
        if not first and isinstance(x, (ast.stmt, ast.ExceptHandler, ast.match_case)):
            continue
        if isinstance(x, (ast.Lambda, ast.FunctionDef, ast.AsyncFunctionDef)):
            continue
        first = False
        out.append(x)
        for fld, v in ast.iter_fields(x):
            if fld in ('body', 'orelse', 'finalbody', 'handlers', 'cases') and isinstance(x, ast.stmt):
                continue
            if isinstance(v, ast.AST):
                stack.append(v)
            elif isinstance(v, list):
                stack.extend(y for y in v if isinstance(y, ast.AST))
    return out


def param_mutations(p, f, pname, ctx=None, depth=0, seen=None):
    """[(fn, node, how)] in-place changes to the object parameter `pname` of f refers to, in f and in the functions it
    is handed to.  A forward may-alias walk over the statement structure: a name refers to the caller's object from
    `name = <alias>` until it is rebound; if/else arms are joined by union, loop bodies are walked twice."""
    from .c10 import stored_names
    seen = seen if seen is not None else set()
    if (f.qn, pname) in seen or depth > 4:
        return []
    seen.add((f.qn, pname))
    out = []
    found = set()
    callmap = {}
    for call, ts, kind in p.calls(f, ctx):
        if kind == 'resolved':
            callmap[id(call)] = ts

    def visit_exprs(stmt, al):
        for x in _expr_nodes(stmt):
            if isinstance(x, ast.Call):
                if isinstance(x.func, ast.Attribute) and x.func.attr in MUTATORS and isinstance(x.func.value, ast.Name) \
                        and x.func.value.id in al:
                    hit(x, '%s.%s()' % (x.func.value.id, x.func.attr))
                for g, c2 in callmap.get(id(x), ()):
                    ps = [q for q in g.posparams if q not in ('self', 'cls')] if g.cls is not None else list(g.posparams)
                    for i, a in enumerate(x.args):
                        if isinstance(a, ast.Name) and a.id in al and i < len(ps):
                            sub(g, ps[i], c2)
                    for kw in x.keywords:
                        if kw.arg and isinstance(kw.value, ast.Name) and kw.value.id in al and kw.arg in g.params:
                            sub(g, kw.arg, c2)

    def hit(node, how):
        if (id(node), how) not in found:
            found.add((id(node), how))
            out.append((f, node, how))

    def sub(g, q, c2):
        for r in param_mutations(p, g, q, c2, depth + 1, seen):
            if (id(r[1]), r[2]) not in found:
                found.add((id(r[1]), r[2]))
                out.append(r)

    def walk(stmts, al):
        for s in stmts:
            if isinstance(s, (ast.FunctionDef, ast.AsyncFunctionDef, ast.ClassDef)):
                continue
            visit_exprs(s, al)
            if isinstance(s, ast.Delete):
                for t in s.targets:
                    if isinstance(t, ast.Subscript) and isinstance(t.value, ast.Name) and t.value.id in al:
                        hit(s, 'del %s' % norm(t))
            if isinstance(s, (ast.Assign, ast.AugAssign, ast.AnnAssign)):
                tg = s.targets if isinstance(s, ast.Assign) else [s.target]
                for t in tg:
                    if isinstance(t, ast.Subscript) and isinstance(t.value, ast.Name) and t.value.id in al:
                        hit(s, 'store into %s' % norm(t))
                    if isinstance(s, ast.AugAssign) and isinstance(t, ast.Name) and t.id in al:
                        hit(s, 'in-place %s' % norm(s)[:40])
            if isinstance(s, ast.Assign) and len(s.targets) == 1 and isinstance(s.targets[0], ast.Name):
                if isinstance(s.value, ast.Name) and s.value.id in al:
                    al = al | {s.targets[0].id}
                else:
                    al = al - {s.targets[0].id}
            elif not isinstance(s, ast.AugAssign):
                al = al - set(stored_names(s))
            if isinstance(s, ast.If):
                al = walk(s.body, al) | walk(s.orelse, al)
            elif isinstance(s, (ast.For, ast.AsyncFor, ast.While)):
                a1 = walk(s.body, al)
                a2 = walk(s.body, al | a1)
                al = walk(s.orelse, al | a1 | a2)
            elif isinstance(s, (ast.With, ast.AsyncWith)):
                al = walk(s.body, al)
            elif isinstance(s, ast.Try):
                a1 = walk(s.body, al)
                hs = set()
                for h in s.handlers:
                    hs |= walk(h.body, al | a1)
                a2 = walk(s.orelse, a1)
                al = walk(s.finalbody, al | a1 | a2 | hs)
            elif isinstance(s, ast.Match):
                acc = set(al)
                for c in s.cases:
                    acc |= walk(c.body, al)
                al = acc
        return al

    walk(f.node.body, frozenset([pname]))
    return out


# ---------------------------------------------------------------------------------------------
# results do not depend on the order of keys in a dictionary

KEYORDER_POSITIVE = '''
def f(c):
    flag = False
    n = 0
    out = []
    for k, v in c.items():
        if k == 'type':
            flag = v == 'date'
        elif flag:
            out.append(v)
        n += 1
        last = v
    return out, n, last
'''

def dict_loop(s):
    it = s.iter
    return isinstance(it, ast.Call) and isinstance(it.func, ast.Attribute) and it.func.attr in ('items','keys','values','iteritems')

def reads(e, name):
    return any(isinstance(x, ast.Name) and x.id == name and isinstance(x.ctx, ast.Load) for x in ast.walk(e))

def access(s, name):
    if isinstance(s, ast.If):
        if reads(s.test, name): return 'r'
        a = first_access(s.body, name); b = first_access(s.orelse, name)
        if a == 'r' or b == 'r': return 'r'
        if a == 'w' and b == 'w': return 'w'
        return None if (a is None and b is None) else 'p'   # partial write: keep scanning, later read = carried
    if isinstance(s, (ast.For, ast.While)):
        hdr = s.iter if isinstance(s, ast.For) else s.test
        if reads(hdr, name): return 'r'
        a = first_access(s.body, name)
        if a == 'r': return 'r'
        return None if a is None else 'p'
    if isinstance(s, ast.Try):
        a = first_access(s.body, name)
        if a == 'r': return 'r'
        for h in s.handlers:
            if first_access(h.body, name) == 'r': return 'r'
        if first_access(s.orelse, name) == 'r' or first_access(s.finalbody, name) == 'r': return 'r'
        return None if a is None else 'p'
    if isinstance(s, ast.With):
        return first_access(s.body, name)
    if isinstance(s, ast.Assign):
        if reads(s.value, name): return 'r'
        from .c10 import stored_names
        if name in stored_names(s): return 'w'
        return 'r' if any(reads(t, name) for t in s.targets) else None
    if isinstance(s, ast.AugAssign):
        if isinstance(s.target, ast.Name) and s.target.id == name: return 'acc'
        return 'r' if reads(s, name) else None
    return 'r' if reads(s, name) else None

def first_access(stmts, name):
    """'r' when some path through stmts reads name before assigning it, 'w' when every path assigns it first,
    'acc' for an accumulation (x += ...), 'p' when only some paths assign it, None when it is not touched."""
    seen_partial = False
    for s in stmts:
        r = access(s, name)
        if r == 'r': return 'r'
        if r == 'acc': return 'acc'
        if r == 'w': return 'w'
        if r == 'p': seen_partial = True
    return 'p' if seen_partial else None



def keyorder_sites(p_own_nodes, fnode):
    """(loop, name) for every local that a loop over a dictionary's items/keys/values carries from one key to the next:
    assigned in the body by a plain (non-accumulating) assignment, and read in the body on a path that has not
    assigned it in the same iteration - so what is read depends on which keys came earlier."""
    from .c10 import stored_names
    out = []
    for s in p_own_nodes:
        if isinstance(s, ast.For) and dict_loop(s):
            assigned = set()
            for x in ast.walk(s):
                if isinstance(x, ast.Assign):
                    for t in x.targets:
                        if isinstance(t, ast.Name):
                            assigned.add(t.id)
            tv = set(stored_names(s))
            for nm in sorted(assigned - tv):
                plain = [x for x in ast.walk(s) if isinstance(x, ast.Assign) and
                         any(isinstance(t, ast.Name) and t.id == nm for t in x.targets) and not reads(x.value, nm)]
                if plain and first_access(s.body, nm) == 'r':
                    out.append((s, nm, plain[0]))
    return out


def keyorder_rule(run, rid, p, funcs, text):
    from .c10 import stored_names
    run.rule(rid, text)
    ex = ast.parse(KEYORDER_POSITIVE).body[0]
    got = [nm for s, nm, a in keyorder_sites([x for x in ast.walk(ex)], ex)]
    if got != ['flag']:
        raise AnalysisErrorCommon('key-order rule no longer matches its embedded example: %r' % (got,))
    n = 0
    for f in funcs:
        loops = [s for s in p.own_nodes(f) if isinstance(s, ast.For) and dict_loop(s)]
        if not loops:
            continue
        sites = keyorder_sites(list(p.own_nodes(f)), f.node)
        for s in loops:
            n += 1
            bad = [(nm, a) for l, nm, a in sites if l is s]
            key = '%s::%s::for %s in %s' % (f.rel, f.short, norm(s.target), norm(s.iter)[:40])
            if not bad:
                run.ob(rid, key, True, 'no local is carried from one key to the next', fn=f, node=s)
            for nm, a in bad:
                run.ob(rid, key + '::' + nm, False,
                       '%s is set while handling one key (%s) and read while handling another: the outcome depends on the order of '
                       'the keys in %s' % (nm, norm(a)[:50], norm(s.iter)[:40]), fn=f, node=a)
    return n


# ---------------------------------------------------------------------------------------------
# a number is never tested for truthiness where None is meant

def bare_truth_tests(fnode):
    """Names used as a whole condition (if x / x if x else / x or y / not x), with the node."""
    out = []

    def cond(t, node):
        if isinstance(t, ast.Name):
            out.append((t.id, node))
        elif isinstance(t, ast.UnaryOp) and isinstance(t.op, ast.Not):
            cond(t.operand, node)
        elif isinstance(t, ast.BoolOp):
            for v in t.values:
                cond(v, node)
    for x in ast.walk(fnode):
        if isinstance(x, (ast.If, ast.IfExp, ast.While)):
            cond(x.test, x)
        elif isinstance(x, ast.BoolOp):
            for v in x.values[:-1]:
                cond(v, x)
        elif isinstance(x, ast.Assert):
            cond(x.test, x)
    return out


def zero_rule(run, rid, p, funcs, sources, text):
    """In funcs, a name bound (directly or through copies / int() / float()) to the result of a call whose function name
    is in `sources` must not be used as a bare condition."""
    run.rule(rid, text)
    n = 0
    for f in funcs:
        num = set()
        changed = True
        while changed:
            changed = False
            for s in p.own_nodes(f):
                if not (isinstance(s, ast.Assign) and len(s.targets) == 1 and isinstance(s.targets[0], ast.Name)):
                    continue
                v = s.value
                while isinstance(v, ast.Call) and getattr(v.func, 'id', '') in ('int', 'float', 'abs', 'round') and v.args:
                    v = v.args[0]
                hit = (isinstance(v, ast.Call) and norm(v.func).split('.')[-1] in sources) or (isinstance(v, ast.Name) and v.id in num)
                if hit and s.targets[0].id not in num:
                    num.add(s.targets[0].id)
                    changed = True
        if not num:
            continue
        n += 1
        bad = [(nm, node) for nm, node in bare_truth_tests(f.node) if nm in num]
        if not bad:
            run.ob(rid, '%s::%s' % (f.rel, f.short), True, 'statistics %s are compared or tested against None only' % sorted(num), fn=f)
        for nm, node in bad:
            run.ob(rid, '%s::%s::%s' % (f.rel, f.short, nm), False,
                   '%s holds a number (%s) and is used as a condition: a value of 0 is treated like "no value"' % (nm, norm(node)[:60]),
                   fn=f, node=node)
    return n


# ---------------------------------------------------------------------------------------------
# Python gotchas that turn a whole string into its characters

def _listish(e):
    return isinstance(e, (ast.List, ast.ListComp, ast.Tuple, ast.Set, ast.SetComp, ast.GeneratorExp)) or \
        (isinstance(e, ast.Call) and getattr(e.func, 'id', '') in ('list', 'sorted', 'tuple', 'set')) or \
        (isinstance(e, ast.BinOp) and isinstance(e.op, ast.Add) and (_listish(e.left) or _listish(e.right)))


def string_spread_sites(p, f):
    """`L += x` / `L.extend(x)` where L is a list built in f and x is a bare name that f binds to something that is not a
    list (a loop variable, an unpacked element, a string expression): the list grows by x's characters."""
    from .c10 import stored_names
    lists, scalars = set(), set()
    for s in p.own_nodes(f):
        if isinstance(s, ast.Assign) and len(s.targets) == 1 and isinstance(s.targets[0], ast.Name):
            (lists if _listish(s.value) else scalars).add(s.targets[0].id)
        elif isinstance(s, (ast.For, ast.comprehension)):
            for x in ast.walk(s.target):
                if isinstance(x, ast.Name):
                    scalars.add(x.id)
        elif isinstance(s, ast.Assign):
            for t in s.targets:
                for x in ast.walk(t):
                    if isinstance(x, ast.Name) and isinstance(x.ctx, ast.Store):
                        scalars.add(x.id)
    scalars -= lists
    out = []
    for s in p.own_nodes(f):
        tgt = val = None
        if isinstance(s, ast.AugAssign) and isinstance(s.op, ast.Add) and isinstance(s.target, ast.Name):
            tgt, val = s.target.id, s.value
        elif isinstance(s, ast.Call) and isinstance(s.func, ast.Attribute) and s.func.attr == 'extend' and \
                isinstance(s.func.value, ast.Name) and len(s.args) == 1:
            tgt, val = s.func.value.id, s.args[0]
        if tgt in lists and isinstance(val, ast.Name) and val.id in scalars and _stringish(p, f, val.id):
            out.append((s, tgt, val.id))
    return out


_STR_METHODS = {'startswith', 'endswith', 'strip', 'lstrip', 'rstrip', 'lower', 'upper', 'split', 'replace', 'format', 'encode',
                'decode', 'join', 'splitlines', 'isdigit', 'find'}


def _stringish(p, f, name):
    """Evidence in f that `name` holds a string (so that extending a list by it spreads characters): its spelling, a
    string method called on it, %-formatting with it, or a substring test `name in <text>`."""
    import re as _re
    if _re.search(r'(str|string|text|name|path|line|word|char|prefix|suffix|pattern|rex)s?$', name):
        return True
    for x in p.own_nodes(f):
        if isinstance(x, ast.Call) and isinstance(x.func, ast.Attribute) and isinstance(x.func.value, ast.Name) and \
                x.func.value.id == name and x.func.attr in _STR_METHODS:
            return True
        if isinstance(x, ast.BinOp) and isinstance(x.op, ast.Mod) and any(isinstance(y, ast.Name) and y.id == name for y in ast.walk(x.right)):
            return True
        if isinstance(x, ast.Call) and norm(x.func) in ('re.escape', 're.compile', 'str.join') and any(
                isinstance(a, ast.Name) and a.id == name for a in x.args):
            return True
    return False


def paren_string_constants(mod):
    """Constants written NAME = ('text') - one string token in parentheses: a 1-tuple that lost its comma.
    -> [(name, assign node)]"""
    import io
    import tokenize
    out = []
    src = mod.src if hasattr(mod, 'src') else None
    if src is None:
        return out
    lines = src.splitlines(keepends=True)
    for n in ast.walk(mod.tree):
        if isinstance(n, ast.Assign) and len(n.targets) == 1 and isinstance(n.targets[0], ast.Name) and \
                isinstance(n.value, ast.Constant) and isinstance(n.value.value, str):
            seg = ''.join(lines[n.lineno - 1:n.end_lineno])
            try:
                toks = [t for t in tokenize.generate_tokens(io.StringIO(seg).readline)
                        if t.type not in (tokenize.NL, tokenize.NEWLINE, tokenize.INDENT, tokenize.DEDENT, tokenize.COMMENT, tokenize.ENDMARKER)]
            except (tokenize.TokenError, IndentationError):
                continue
            strs = [t for t in toks if t.type == tokenize.STRING]
            ops = [t.string for t in toks if t.type == tokenize.OP]
            if len(strs) == 1 and '(' in ops and ')' in ops and ',' not in ops:
                out.append((n.targets[0].id, n))
    return out


GOTCHA_POSITIVE = '''
KINDS = ('pdf')
LONG = ('one '
        'two')
PAIR = ('a', 'b')
def f(ext, items):
    out = []
    for (which, s) in items:
        out += s
        out.append(s.strip())
    for chunk in items:
        out += chunk
    extra = [x for x in items]
    out += extra
    d = {}
    d.setdefault('k', [ext])
    d.setdefault('k', []).append(ext)
    return ext in KINDS, ext in PAIR, ext in LONG
'''


def gotcha_rule(run, rid, p, modules, text):
    run.rule(rid, text)
    from ..model import Program
    ex = Program({'tdda/_gotcha_example.py': GOTCHA_POSITIVE})
    em = ex.mod('tdda._gotcha_example')
    if [k for k, v in paren_string_constants(em)] != ['KINDS'] or \
            [(t, v) for s, t, v in string_spread_sites(ex, ex.fn('f'))] != [('out', 's')]:
        raise AnalysisErrorCommon('gotcha rule no longer matches its embedded example')
    n = 0
    for mn in modules:
        m = p.mod(mn)
        n += 1
        consts = dict(paren_string_constants(m))
        used = set()
        for x in ast.walk(m.tree):
            if isinstance(x, ast.Compare) and any(isinstance(o, (ast.In, ast.NotIn)) for o in x.ops):
                for c in x.comparators:
                    nm = norm(c).split('.')[-1]
                    if nm in consts:
                        used.add((nm, x))
        bad = False
        for nm, x in sorted(used, key=lambda t: t[1].lineno):
            bad = True
            run.ob(rid, '%s::%s::in-string' % (m.rel, nm), False,
                   '%s = (%r) is a string, not a one-element tuple (no comma), so `%s` is a substring test: every fragment of it '
                   'matches, the empty string included' % (nm, consts[nm].value.value, norm(x)[:50]), rel=m.rel, line=consts[nm].lineno)
        for f in p.funcs.values():
            if f.mod is not m or isinstance(f.node, ast.Lambda):
                continue
            for s, tgt, val in string_spread_sites(p, f):
                bad = True
                run.ob(rid, '%s::%s::%s+=%s' % (f.rel, f.short, tgt, val), False,
                       '%s extends the list %s by %s, which it binds to a single item, not a list: a string is added character by '
                       'character' % (f.short, tgt, val), fn=f, node=s)
            for s in p.own_nodes(f):
                # d.setdefault(k, [v]) as a statement: meant as setdefault(k, []).append(v); only the first v is ever kept
                if isinstance(s, ast.Expr) and isinstance(s.value, ast.Call) and isinstance(s.value.func, ast.Attribute) and \
                        s.value.func.attr == 'setdefault' and len(s.value.args) == 2 and \
                        isinstance(s.value.args[1], (ast.List, ast.Set, ast.Dict, ast.Tuple)) and \
                        (getattr(s.value.args[1], 'elts', None) or getattr(s.value.args[1], 'keys', None)):
                    bad = True
                    run.ob(rid, '%s::%s::%s' % (f.rel, f.short, norm(s)[:50]), False,
                           '%s: `%s` stores its value only when the key is new and discards the result: every later value for that '
                           'key is lost (setdefault(k, []).append(v) accumulates)' % (f.short, norm(s)[:60]), fn=f, node=s)
        if not bad:
            run.ob(rid, mn, True, '%s: no parenthesised-string "tuple" used with `in`, no list extended by a single item' % mn,
                   rel=m.rel, line=1, nontrivial=False)
    return n


# ---------------------------------------------------------------------------------------------
# running minimum / maximum written out as a loop

def running_extremes(fnode):
    """{name: 'min' | 'max'} for locals kept as a running extreme:  `if m is None or n < m: m = n`  (min),
    `if M is None or n > M: M = n` (max), in either operand order and with <= / >=."""
    out = {}
    gm = _GM(fnode)
    for s in ast.walk(fnode):
        if not (isinstance(s, ast.Assign) and len(s.targets) == 1 and isinstance(s.targets[0], ast.Name) and isinstance(s.value, ast.Name)):
            continue
        var, val = s.targets[0].id, s.value.id
        for g in gm.chain(s) or ():
            if g.kind != 'if' or not g.pol:
                continue
            for c in ast.walk(g.test):
                if isinstance(c, ast.Compare) and len(c.ops) == 1 and isinstance(c.left, ast.Name) and isinstance(c.comparators[0], ast.Name):
                    l, r, op = c.left.id, c.comparators[0].id, type(c.ops[0])
                    if (l, r) == (val, var) and op in (ast.Lt, ast.LtE) or (l, r) == (var, val) and op in (ast.Gt, ast.GtE):
                        out[var] = 'min'
                    if (l, r) == (val, var) and op in (ast.Gt, ast.GtE) or (l, r) == (var, val) and op in (ast.Lt, ast.LtE):
                        out[var] = 'max'
    return out


def closure_aggregates(fnode, clo):
    """The closure plus 'min' / 'max' for every running extreme in it."""
    rx = running_extremes(fnode)
    return set(clo) | {rx[n] for n in clo if n in rx}


def shared_rule(run, fn, args, src, dst, suffix=''):
    """Run a rule written for one property under the rule id of another (same obligations, renamed)."""
    run.attempt(fn, *args)
    if src in run.rules:
        run.rules[dst] = run.rules.pop(src) + suffix
    for o in run.obs:
        if o.rule == src:
            o.rule = dst
    run.floors = [((dst if r == src else r), c, m) for r, c, m in run.floors]
    run.notes = [n.replace(src, dst) for n in run.notes]
